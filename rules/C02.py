"""C02 — No look-ahead: the information-flow skeleton."""
import ast
from sa.lib import *
from sa.dataflow import Poly, cmp_key, cmp_atoms
from sa.resolve import walk_function
from rules import C04

TECHNIQUE = 'static analysis (ast): partition / delivery rules on the CFG (dominance, path counts), comparator normal forms of the time filters, taint of fitted-transformer inputs through reaching definitions, who-may-call rules on the resolved call graph'
EXPLANATION = (
    "Decides the information-flow skeleton of C02 (not the equality of outputs over pairs of streams): (S1) an event is filed under "
    "timesteps[bisect_left(timesteps, event.time)], never an earlier step, and is latent only within `latency` exact seconds of the previous step "
    "(rules shared with C04); (S2) _next hands out only the current step's partitions, history bounded above by the current step; (S3) the stores that "
    "hold the future - Transmitter.events, the partitions, the pre-fetched batches, the raw X/Y tables, env._transmitter - are read only by the named "
    "delivery functions (no reward, feature, state, policy or broker code touches them); (S4) TradingEnv.step runs latent events, request, rebalance, "
    "non-latent events, reward, state exactly once each in that order and the pre-fetch follows the dispatch; (S5) process_* callbacks are invoked only "
    "through IEvent.notify (except the two constant seeding calls of reset); (S6) in TradingEnvXY the transformer fit and every whole-sample reduction of "
    "X/Y are on `.loc[:transformer_end]`, transform on `.loc[:end]`, only forward filling, no backward-looking operation from the deny-list; (S7) the "
    "State window queue only appends the event being processed and parse only reads it."
)
DECIDED = ["S1 never filed under an earlier step", "S2 a step hands out only its own partitions", "S3 future-bearing stores are not observable", "S4 step ordering",
           "S5 observers receive events only through notify", "S6 tabular pipeline fits and fills forward only", "S7 window queue"]
NOT_DECIDED = ["equality of outputs for all pairs of streams (non-interference result; S1-S7 are its flow skeleton)", "user-defined features/rewards reaching into private attributes",
               "look-ahead hidden inside third-party transformers"]
ASSUMPTIONS = ["pandas .loc[:t] slices are inclusive of t and exclude later rows; ffill only propagates earlier values forward"]

DENY_METHODS = {"bfill", "backfill", "interpolate"}
REDUCTIONS = {"std", "mean", "var", "sum", "min", "max", "median", "quantile", "mad", "sem", "skew", "kurt", "describe", "fit", "fit_transform", "partial_fit", "cummax", "cummin"}


def run(ck, an, tier):
    from sa.report import Renamed
    d = Renamed(ck, "C04:")          # delivery clauses, numbered as in C04
    C04.partitions(d, an)
    C04.latency_plumbing(d, an)
    C04.nxt(d, an)
    from rules import C18 as _c18, ledger as _ledger
    _c18.s1(_ledger._Only(Renamed(ck, "C18:"), {"prices-table-untouched", "quote-time", "every-price-row"}), an)      # a quote is stamped with the time it was given for: nothing re-stamps the price table
    # ... and the feature / price tables served are the specified functions of the given ones: rows keep their own dates (nothing re-dates, shifts or floors a row to an earlier step)
    _c18.xy_init(_ledger._Only(Renamed(ck, "C18:"), {"feature-pipeline", "price-range", "transmitter-arguments", "published-X-is-served-X", "published-Y-is-served-Y"}), an)
    s3(ck, an)
    s4(ck, an)
    s5(ck, an)
    s6(ck, an)
    s7(ck, an)


def s3(ck, an):
    env_cls = {"TradingEnv", "TradingEnvXY"}

    def readers(owner, attr, allowed, name, kinds="RWMD", minimum=1):
        sites = []
        for f in an.functions():
            for e in an.fa(f).effects():
                if e.attr != attr or e.kind not in kinds:
                    continue
                if not (e.owner == "?" or any(an.owner_matches(o.replace("class:", ""), owner) for o in e.owner.split("|"))):
                    continue
                if e.kind == "R" and in_logging_statement(f, e.node):
                    continue        # formatted into a log record: not something the environment returns or records
                if e.kind == "R" and f.qual in new_api_functions(an):
                    continue        # a read-only accessor new to the inventory that nothing reviewed reaches: the user's own query, not an output of the environment
                sites.append((f, e))
        ck.floor(f"accesses of {owner}.{attr}", len(sites), minimum)
        for f, e in sites:
            ck.check(all(g.short in allowed for g in an.attributed(f)), "OWN", name, f.short, e.loc, f"{owner}.{attr} accessed by delivery code {f.short}",
                     f"{f.short} accesses {owner}.{attr}, which holds events/data of the future; allowed: {sorted(allowed)}", construct=stmt_text(e.node))
    readers("TradingEnv", "_events_latent", {"TradingEnv.reset", "TradingEnv._process_latent_events", "TradingEnv._process_nonlatent_events", "TradingEnv.__init__"}, "S3.prefetched-batch-private")
    readers("TradingEnv", "_events_nonlatent", {"TradingEnv.reset", "TradingEnv._process_nonlatent_events", "TradingEnv.__init__"}, "S3.prefetched-batch-private")
    readers("Transmitter", "_partition_latent", {"Transmitter._create_partitions", "Transmitter._reset", "Transmitter._next", "Transmitter.__init__"}, "S3.partitions-private")
    readers("Transmitter", "_partition_nonlatent", {"Transmitter._create_partitions", "Transmitter._reset", "Transmitter._next", "Transmitter.__len__", "Transmitter.__repr__", "Transmitter.__init__"}, "S3.partitions-private")
    readers("Transmitter", "events", {"Transmitter.__init__", "Transmitter._create_partitions", "Transmitter.__repr__", "Transmitter.add_events", "Transmitter.add_prices", "Transmitter.add_custom_events"}, "S3.event-list-private")
    readers("TradingEnv", "_transmitter", {"TradingEnv.__init__", "TradingEnv.now", "TradingEnv.reset", "TradingEnv._process_nonlatent_events", "TradingEnv.backtest", "TradingEnvXY.__init__"}, "S3.transmitter-private")
    readers("TradingEnvXY", "X", {"TradingEnvXY.__init__"}, "S3.tables-private", minimum=1)
    readers("TradingEnvXY", "Y", {"TradingEnvXY.__init__"}, "S3.tables-private", minimum=1)
    readers("Transmitter", "_steps", {"Transmitter._reset", "Transmitter._next", "TradingEnv.backtest"}, "S3.steps-private")
    # in _reset the partitions are used for their keys only
    fr = an.fa("Transmitter._reset")
    for e in fr.effects():
        if e.attr in ("_partition_latent", "_partition_nonlatent") and e.kind == "R":
            par = getattr(e.node, "_parent", None)
            ok = isinstance(par, ast.Call) and ast.unparse(par.func) in ("set", "list", "sorted", "len") or (isinstance(par, ast.Compare))
            ck.check(ok, "OWN", "S3.reset-reads-keys-only", fr.f.short, e.loc, "_reset uses the partitions for their timestep keys only", f"_reset uses {ast.unparse(par)[:60]}", construct=stmt_text(e.node))
    # the batches are consumed only as the iterable of the notify loops (C04 checks the loops themselves)
    for short, attr in (("TradingEnv._process_latent_events", "_events_latent"), ("TradingEnv._process_nonlatent_events", "_events_nonlatent")):
        fa = an.fa(short)
        for e in fa.reads(attr):
            par = getattr(e.node, "_parent", None)
            ok = (isinstance(par, ast.For) and par.iter is e.node) or (isinstance(par, ast.Call) and ast.unparse(par.func) in ("list", "tuple") and isinstance(getattr(par, "_parent", None), ast.For))
            ck.check(ok, "OWN", "S3.batch-only-iterated", fa.f.short, e.loc, f"self.{attr} is only iterated by the notify loop", f"self.{attr} is used as {ast.unparse(par)[:60]}", construct=stmt_text(e.node))


def s4(ck, an):
    fa = an.fa("TradingEnv.step")
    subj = fa.f.short
    seq = [
        ("_process_latent_events", fa.calls_to("TradingEnv._process_latent_events")),
        ("make_rebalancing_request", fa.calls_to("PortfolioSpace.make_rebalancing_request")),
        ("Broker.rebalance", fa.calls_to("Broker.rebalance")),
        ("_process_nonlatent_events", fa.calls_to("TradingEnv._process_nonlatent_events")),
        ("reward.calculate", fa.calls_to("AbstractReward.calculate")),
        ("state()", [c for c in fa.calls_to("IState.__call__") if isinstance(c, ast.Call)]),
    ]
    for name, sites in seq:
        pc = fa.cfg.path_count(lambda n, sites=sites: sum(1 for c in sites if fa.node_of(c).id == n.id), ends=[fa.cfg.exit.id])
        lo, hi = pc.get(fa.cfg.exit.id, (0, 0))
        ck.check((lo, hi) == (1, 1), "PATHCOUNT", f"S4.once-{name}", subj, fa.f.loc, f"step runs {name} exactly once on every returning path", f"step runs {name} {lo}..{hi} times", construct=name)
    for (n1, a), (n2, b) in zip(seq, seq[1:]):
        if a and b:
            ord_before(ck, fa, f"S4.order-{n1}-before-{n2}", a, b, n1, n2)
    # the action executed was taken from the queue before latent events are applied (no peeking: independent anyway)
    fr = an.fa("TradingEnv.reset")
    st = [c for c in fr.calls_to("IState.__call__") if isinstance(c, ast.Call)]
    nl = fr.calls_to("TradingEnv._process_nonlatent_events")
    ord_before(ck, fr, "S4.reset-state-after-events", nl, st, "_process_nonlatent_events", "the initial state")


def s5(ck, an):
    allowed_direct = 0
    for f in an.functions():
        if an.is_new_function(f) and an.prog.expanded_into.get(f.qual):
            continue        # a new helper expanded at its call sites: its statements are seen there
        for node in walk_function(f.node):
            if isinstance(node, ast.Call) and isinstance(node.func, ast.Attribute) and node.func.attr.startswith("process_"):
                loc = f"{f.module.relpath}:{node.lineno}"
                if all(g.short == "TradingEnv.reset" for g in an.attributed(f)) and node.func.attr == "process_EventNBBO":
                    ev = deref(an.fa(f), node.args[0])[0] if node.args else None      # the event may be built in a temporary first
                    const = isinstance(ev, ast.Call) and len(ev.args) >= 4 and all(isinstance(a, ast.Constant) for a in ev.args[2:4])
                    if const:
                        allowed_direct += 1
                        ck.exempt("OWN:S5.callbacks-only-via-notify", ast.unparse(node), "constant seeding quote (cash 1.0 / rate 0.0) at reset")
                        ck.ok("OWN", "S5.callbacks-only-via-notify", f.short, loc, "exempt constant seeding call", construct=stmt_text(node))
                        continue
                ck.fail("OWN", "S5.callbacks-only-via-notify", f.short, loc, f"{f.short} calls the observer callback {node.func.attr} directly, bypassing the event clock and ordering", construct=stmt_text(node))
    ck.check(allowed_direct == 2, "OWN", "S5.seeding-calls", "TradingEnv.reset", an.prog.func("TradingEnv.reset").loc, "reset seeds exactly the cash and rate books with constants",
             f"reset makes {allowed_direct} constant seeding calls, expected 2", construct="seeding calls")
    # the only generic dispatch is IEvent.notify, called from TradingEnv.notify
    own_callers(ck, an, "S5.dispatch-callers", "IEvent.notify", {"TradingEnv.notify"})
    own_callers(ck, an, "S5.notify-callers", "TradingEnv.notify", {"TradingEnv.notify", "TradingEnv.reset", "TradingEnv.step", "TradingEnv._process_latent_events", "TradingEnv._process_nonlatent_events"})


MODULE_ALIASES = {"np", "pd", "numpy", "pandas", "math", "scipy"}


def _chain(e):
    """Receiver chain of a pandas-style expression, innermost first:
    returns list of (kind, node) where kind in name/call/attr/subscript."""
    out = []
    while True:
        if isinstance(e, ast.Call):
            out.append(("call", e))
            base = e.func
            while isinstance(base, ast.Attribute):
                base = base.value
            is_module_fn = isinstance(e.func, ast.Attribute) and isinstance(base, ast.Name) and base.id in MODULE_ALIASES
            if isinstance(e.func, ast.Attribute) and not is_module_fn:
                e = e.func.value
            else:
                # f(x): continue into the first argument (np.log(df), pd.DataFrame(Y))
                if e.args:
                    e = e.args[0]
                else:
                    break
        elif isinstance(e, ast.Attribute):
            out.append(("attr", e))
            e = e.value
        elif isinstance(e, ast.Subscript):
            out.append(("subscript", e))
            e = e.value
        elif isinstance(e, ast.Name):
            out.append(("name", e))
            break
        else:
            break
    out.reverse()
    return out


def s6(ck, an):
    fa = an.fa("TradingEnvXY.__init__")
    subj = fa.f.short
    # transformer_end resolution: value ids against the reference implementation of the constructor (rules/C18.py), so that
    # `x = x or d`, `if not x: x = d`, a helper computing the default, ... are one value
    from rules import C18
    ref = reference(fa, C18.REF_XY_INIT.format(sig=ast.unparse(fa.f.node.args)))
    ref_last = C18._super_init_call(ref)
    want_upper = {nm: ref.sym.canon(ast.Name(id=nm, ctx=ast.Load()), ref.node_of(ref_last).id) for nm in ("transformer_end", "end")}

    def upper_id(sub: ast.Subscript):
        sl = sub.slice
        if isinstance(sl, ast.Tuple):
            sl = sl.elts[0]
        if not (isinstance(sl, ast.Slice) and sl.upper is not None and sl.step is None):
            return None
        n_ = fa.cfg.node_of(sub)
        return fa.sym.canon(sl.upper, n_.id if n_ is not None else None)
    te_uses = [(n_, upper_id(n_)) for n_ in walk_function(fa.f.node) if isinstance(n_, ast.Subscript) and isinstance(n_.value, ast.Attribute) and n_.value.attr == "loc"]
    te_uses = [(n_, u) for n_, u in te_uses if u is not None and "transformer_end" in u]
    ck.check(bool(te_uses) and all(u == want_upper["transformer_end"] for _, u in te_uses), "LINT", "S6.transformer-end-default", subj, fa.f.loc, "transformer_end defaults to end and is otherwise the user's cut-off",
             f"cut-offs derived from transformer_end: {sorted({u for _, u in te_uses})}; specified {want_upper['transformer_end']}", construct="transformer_end = transformer_end or end")

    # a transformer object given by the caller (possibly fitted on the caller's own cut-off) is used as it is
    given = [s_ for s_ in assigns_to_attr(fa, "transformer") if any(p[0] == "truthy" and p[2] and "isinstance(transformer" in p[1] and "TransformerMixin" in p[1] for p in fa.syntactic_guards(s_))]
    ck.check(len(given) == 1 and isinstance(given[0], ast.Assign) and ast.unparse(given[0].value) == "transformer", "ARGFLOW", "S6.given-transformer-used-as-is", subj, fa.f.loc,
             "a transformer instance passed by the caller is used as is (its fit, if any, is the caller's)", f"a given transformer is replaced by {[ast.unparse(g.value) for g in given if isinstance(g, ast.Assign)]}: its fit is discarded and redone up to transformer_end",
             construct="self.transformer = transformer")
    fits = [c for c in fa.calls_named("fit")]
    for c in fits:
        hs = enclosing_try_handlers(c, fa.f.node)
        inh = any(isinstance(p_, ast.ExceptHandler) and p_.type is not None and "NotFittedError" in ast.unparse(p_.type) for p_ in parents(c))
        ck.check(inh, "GUARD", "S6.fit-only-when-unfitted", subj, fa.loc(c), "the transformer is fitted only when check_is_fitted raised NotFittedError", "the transformer is (re)fitted even when it was already fitted", construct=stmt_text(c))

    def bounded_by(sub: ast.Subscript, name: str) -> bool:
        if not (isinstance(sub.value, ast.Attribute) and sub.value.attr == "loc"):
            return False
        u = upper_id(sub)
        return u is not None and u == want_upper[name]

    params = {"X", "Y"}

    def origin(expr, at, depth=0):
        """(tainted by X/Y, already cut at transformer_end, source name)."""
        ch = _chain(expr)
        if not ch or ch[0][0] != "name" or depth > 6:
            return False, False, None
        name = ch[0][1].id
        n = fa.cfg.node_of(ch[0][1])
        defs = fa.rd.reaching(name, n.id if n is not None else at)
        tainted = bounded = False
        if any(d.kind == "param" for d in defs) and name in params:
            tainted = True
        sub = [d for d in defs if d.kind in ("assign", "aug") and d.value is not None]
        if sub:
            res = [origin(d.value, d.node, depth + 1) for d in sub]
            if any(r[0] for r in res):
                tainted = True
                bounded = all(r[1] for r in res if r[0]) and not any(d.kind == "param" for d in defs)
        for k, nd in ch:
            if k == "subscript" and bounded_by(nd, "transformer_end"):
                bounded = True
        return tainted, bounded, name

    def bounded_upto(expr, at, upto_node):
        """bounded flag of the receiver chain of `expr` considering only the part of the chain below upto_node."""
        ch = _chain(expr)
        t, b, name = origin(ch[0][1], at) if ch and ch[0][0] == "name" else (False, False, None)
        for k, nd in ch:
            if nd is upto_node:
                break
            if k == "subscript" and bounded_by(nd, "transformer_end"):
                b = True
        return t, b, name

    n_fit = n_red = 0
    for node in walk_function(fa.f.node):
        if not isinstance(node, ast.Call) or not isinstance(node.func, ast.Attribute):
            continue
        m = node.func.attr
        at = fa.cfg.node_of(node).id if fa.cfg.node_of(node) is not None else None
        if m in ("fit", "fit_transform", "partial_fit"):
            n_fit += 1
            arg = node.args[0] if node.args else None
            t, b, src = origin(arg, at) if arg is not None else (False, False, None)
            ck.check(t and b, "TAINT", "S6.fit-up-to-transformer-end", subj, fa.loc(node), "the transformer is fitted on X.loc[:transformer_end]",
                     f"the transformer is fitted on `{ast.unparse(arg) if arg is not None else ''}` which is not bounded by .loc[:transformer_end]", construct=stmt_text(node))
            continue
        if m == "transform":
            arg = deref(fa, node.args[0], at)[0] if node.args else None      # through temporaries
            ch = _chain(arg) if arg is not None else []
            b = any(k == "subscript" and bounded_by(n, "end") for k, n in ch)
            ck.check(b, "TAINT", "S6.transform-up-to-end", subj, fa.loc(node), "the transformer is applied to X.loc[:end]", f"transform is applied to `{ast.unparse(arg)[:60] if arg is not None else ''}`", construct=stmt_text(node))
            continue
        if m in REDUCTIONS:
            t, b, src = bounded_upto(node, at, node)
            if not t:
                continue
            n_red += 1
            ck.check(b, "TAINT", "S6.reductions-up-to-transformer-end", subj, fa.loc(node), f"whole-sample statistic .{m}() of {src} is computed on .loc[:transformer_end]",
                     f".{m}() is computed over `{ast.unparse(node.func.value)[:70]}`, not bounded by .loc[:transformer_end] (uses data after the cut-off)", construct=stmt_text(node))
    ck.floor("transformer fits in TradingEnvXY.__init__", n_fit, 1)
    ck.floor("whole-sample reductions of X/Y in TradingEnvXY.__init__", n_red, 1)
    # deny-list in the whole tabular pipeline
    for short in ("TradingEnvXY.__init__", "TradingEnvXY._make_timesteps", "TradingEnvXY._make_transmitter"):
        f2 = an.fa(short)
        for node in walk_function(f2.f.node):
            if isinstance(node, ast.Call) and isinstance(node.func, ast.Attribute):
                m = node.func.attr
                kws = {k.arg: k.value for k in node.keywords}
                bad = None
                if m in DENY_METHODS:
                    bad = f".{m}() propagates later values backwards"
                elif m == "fillna" and ("method" in kws) and const_value(kws["method"]) not in ("ffill", "pad"):
                    bad = "fillna(method=...) other than forward fill"
                elif m in ("shift", "diff", "pct_change") and node.args and not (isinstance(node.args[0], ast.Constant) and isinstance(node.args[0].value, int) and node.args[0].value >= 0):
                    bad = f".{m}({ast.unparse(node.args[0])}) with a non-positive or non-literal lag"
                elif m in ("rolling", "ewm") and "center" in kws and const_value(kws["center"]) is not False:
                    bad = "centered window"
                elif m == "sort_index" and "ascending" in kws and const_value(kws["ascending"]) is not True:
                    bad = "descending time order"
                if bad:
                    ck.fail("LINT", "S6.no-backward-looking-op", f2.f.short, f2.loc(node), f"{bad}: observations before t would depend on rows after t", construct=stmt_text(node))
            if isinstance(node, ast.Subscript) and isinstance(node.slice, ast.Slice) and node.slice.step is not None and ast.unparse(node.slice.step).startswith("-"):
                ck.fail("LINT", "S6.no-backward-looking-op", f2.f.short, f2.loc(node), "reversed time order", construct=stmt_text(node))
    ff = [c for c in fa.calls_named("ffill")]
    fz = [c for c in fa.calls_named("fillna")]
    ck.check(bool(ff), "LINT", "S6.forward-fill-present", subj, fa.f.loc, "gaps are forward filled", "no ffill in the pipeline", construct="X.ffill(inplace=True)")
    if ff and fz:
        ord_before(ck, fa, "S6.ffill-before-zero-fill", ff, fz, "ffill", "fillna(0)")
    ck.ok("LINT", "S6.no-backward-looking-op", subj, fa.f.loc, "deny-list (bfill/backfill/interpolate/negative shift/centered windows/reversal) absent from the tabular pipeline", construct="deny-list")
    # the tables served are the transformed ones; published after construction
    # (content equality belongs to C18)


def s7(ck, an):
    fa = an.fa("State.process_EventNewObservation")
    subj = fa.f.short
    ev = fa.f.params[1]
    apps = [c for c in fa.calls_named("append") if ast.unparse(c.func.value) == "self.queue"]
    ck.floor("queue appends in State.process_EventNewObservation", len(apps), 1)
    for c in apps:
        a = fa.sym.canon(c.args[0]) if c.args else "?"
        ck.check(a == specv(fa, f"[{ev}.to_list()]").key(), "ARGFLOW", "S7.queue-appends-current-event", subj, fa.loc(c), "the window queue receives the event being processed", f"queue.append({a})", construct=stmt_text(c))
    for e in fa.effects():
        if e.attr == "queue" and e.kind in "MWD":
            ok = e.kind == "M" and isinstance(e.node, ast.Call) and e.node.func.attr == "append"
            ck.check(ok, "EFFECT", "S7.queue-append-only", subj, e.loc, "the queue is only appended to", f"the queue is modified by {stmt_text(e.node)[:60]}", construct=stmt_text(e.node))
    fp = an.fa("State.parse")
    for e in fp.effects():
        if e.attr == "queue":
            ck.check(e.kind == "R", "EFFECT", "S7.parse-reads-only", fp.f.short, e.loc, "parse only reads the queue", "parse modifies the queue", construct=stmt_text(e.node))
    for f in an.functions():
        if all(g.short in ("State.__init__", "State.process_EventNewObservation", "State.parse") for g in an.attributed(f)):
            continue
        for e in an.fa(f).effects():
            if e.attr == "queue" and e.owner in ("State", "?") and e.kind in "MWD":
                ck.fail("OWN", "S7.queue-owner", f.short, e.loc, f"{f.short} modifies State.queue", construct=stmt_text(e.node))
    # EventNewObservation carries a copy of the row it was built from
    fe = an.fa("EventNewObservation.__init__")
    st = assigns_to_attr(fe, "data")
    ck.check(len(st) == 1 and isinstance(st[0], ast.Assign) and ast.unparse(st[0].value) in ("dict(data)", "data.copy()", "copy.deepcopy(data)"), "ALIAS", "S7.observation-copies-row", fe.f.short, fe.f.loc,
             "an observation event holds its own copy of the data row", f"EventNewObservation.data = {[ast.unparse(s.value) for s in st if isinstance(s, ast.Assign)]}", construct="self.data = dict(data)")
