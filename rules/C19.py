"""C19 — Futures calendars: the constants, shapes and completeness that are decidable statically."""
import ast
import re
from sa.lib import *
from sa.dataflow import Poly, cmp_key
from sa.resolve import walk_function
from sa.report import Renamed
from rules import C11

TECHNIQUE = 'static analysis (ast): constant / shape rules of the expiry and last-trading-date rules compared as value ids (arithmetic not evaluated), reviewed tables (offset aliases, month codes, listing cycles), class-attribute resolution through the MRO'
EXPLANATION = (
    "Decides the constant / shape clauses of C19, NOT the calendar arithmetic over all (year, month): (S1) the `freq` class attribute of every concrete built-in "
    "Future (through the MRO) is an alias the installed pandas accepts (frozen table of aliases removed in pandas >= 3, cross-checked against "
    "pandas.tseries.frequencies.to_offset on the literal when pandas is importable); (S2) each _get_last_trading_date is `expiry - positive literal offset` "
    "(ES, NK, VX); the Treasury cut-off is listed as not decided; (S3) the symbol is class name + month code + two-digit year and month_codes is the exact 12-entry "
    "table F G H J K M N Q U V X Z; the specification constants of the expiry rules are in place (ES: third Friday = index 2 of the month's Fridays, NK: index 1, "
    "VX: 30 days before the third Friday of the following month, Treasuries: last business day of the month); (S4) one discontinuation event per contract at its "
    "expiry and (S5) ordered chains (C11 clauses re-checked); (S6) every built-in Future class defines the five abstract members."
)
DECIDED = ["S1 a chain can be built for every built-in class (freq alias valid)", "S2 last trading date strictly earlier than expiry (ES, NK, VX)", "S3 symbol shape, month-code table, rule constants",
           "S4 one discontinuation event per contract at expiry", "S5 chains ordered by construction", "S6 every built-in class is complete"]
NOT_DECIDED = ["the expiry rules for every (year, month) in 1970..2099 and strict monotony of generated chains: deciding them means evaluating date arithmetic, i.e. running the code (another family)",
               "_Treasury cut-off `(expiry - 30d).replace(day=24)` < expiry (needs day-of-month ranges)", "uniqueness of symbols within a century (follows from S3 + monotony, which is not decided)"]
ASSUMPTIONS = ["pandas >= 3 rejects the offset aliases M Q Y A BM BQ BA BY SM CBM H T S L U N (with or without -MON suffix); timedelta(days=k) and BDay(k) with k > 0 move strictly back in time"]

REMOVED = re.compile(r"^(\d*)(M|Q|Y|A|BM|BQ|BA|BY|SM|CBM|AS|BAS|H|T|S|L|U|N)(-[A-Z]{3})?$")
MONTH_CODES = {1: "F", 2: "G", 3: "H", 4: "J", 5: "K", 6: "M", 7: "N", 8: "Q", 9: "U", 10: "V", 11: "X", 12: "Z"}


def pandas_version():
    try:
        from importlib.metadata import version
        return version("pandas")
    except Exception:
        return None


def run(ck, an, tier):
    fut = an.prog.cls("Future")
    concrete = [c for c in an.prog.subclasses(fut) if not c.name.startswith("_") and not c.module.name.startswith("_fixture")]
    ck.floor("built-in Future classes", len(concrete), 8)
    s1(ck, an, concrete)
    s2(ck, an, concrete)
    s3(ck, an, concrete)
    d = Renamed(ck, "C11:")
    C11.s5(d, an)
    C11.s2(d, an)
    s6(ck, an, concrete)


def s1(ck, an, concrete):
    ver = pandas_version()
    major = int(ver.split(".")[0]) if ver and ver.split(".")[0].isdigit() else None
    lib = None
    if major is not None:
        try:
            from pandas.tseries.frequencies import to_offset as lib
        except Exception:
            lib = None
    ck.note(f"installed pandas {ver}; library cross-check {'on' if lib else 'off'}")
    for c in concrete:
        owner, val = an.prog.lookup_class_attr(c, "freq")
        if val is None or not isinstance(val, ast.Constant) or not isinstance(val.value, str):
            ck.fail("CONST", "S1.freq-alias-valid", c.name, c.loc, f"{c.name}.freq is not a string literal class attribute (resolved: {ast.unparse(val) if isinstance(val, ast.AST) else val})", construct=f"{c.name}.freq")
            continue
        lit = val.value
        table_bad = bool(REMOVED.match(lit)) and (major is None or major >= 3)
        lib_bad = None
        if lib is not None:
            try:
                lib(lit)
                lib_bad = False
            except Exception:
                lib_bad = True
        if lib_bad is not None and lib_bad != table_bad:
            raise AnalysisError(f"C19-S1: frozen alias table and pandas {ver} disagree on {lit!r} (table says {'invalid' if table_bad else 'valid'}); the table needs review")
        ck.check(not table_bad, "CONST", "S1.freq-alias-valid", c.name, f"{owner.module.relpath}:{val.lineno}", f"{c.name}.freq = {lit!r} (from {owner.name}) is accepted by pandas {ver}",
                 f"{c.name}.freq = {lit!r} (from {owner.name}) is an offset alias removed in pandas >= 3: FutureChain({c.name}, ...) raises 'Invalid frequency'", construct=f"{owner.name}.freq = {lit!r}")
    # the listing cycle each expiry / last-trading-date rule was written for (reviewed table). The Treasury cut-off
    # (expiry - 30 days).replace(day=24) maps two consecutive MONTHLY expiries to the same date (31-day months), so it orders a chain strictly
    # only on a quarterly cycle: every class using it must list quarterly.
    for c in concrete:
        owner, val = an.prog.lookup_class_attr(c, "freq")
        lit = val.value if isinstance(val, ast.Constant) else None
        want = LISTING_CYCLE.get(c.name)
        uses_treasury_rule = any(b.name == "_Treasury" for b in an.prog.mro(c)) and an.prog.lookup_method(c, "_get_last_trading_date") is not None and an.prog.lookup_method(c, "_get_last_trading_date").cls.name == "_Treasury"
        if want is not None:
            ck.check(lit == want, "CONST", "S1.listing-cycle", c.name, f"{owner.module.relpath}:{val.lineno}" if val is not None else c.loc, f"{c.name} lists on the cycle its date rules were written for ({want})",
                     f"{c.name}.freq = {lit!r} (from {owner.name if owner else '?'}); its expiry / last-trading-date rules were reviewed for {want!r}", construct=f"{c.name}.freq")
        if uses_treasury_rule:
            ck.check(isinstance(lit, str) and lit.upper().startswith(("Q", "BQ")), "CONST", "S2.treasury-cutoff-needs-quarterly-cycle", c.name, c.loc,
                     f"{c.name} uses the Treasury cut-off rule on a quarterly cycle (last trading dates strictly increasing)",
                     f"{c.name} uses the Treasury cut-off (expiry - 30d).replace(day=24) on the cycle {lit!r}: consecutive monthly contracts can share a last trading date, the chain is no longer strictly ordered",
                     construct=f"{c.name}.freq")
    fi = an.fa("FutureChain.__init__")
    # value ids: `start or X`, `X if not start else start` and `if not start: start = X` are one value
    want = {"start": _spec(fi, "start or future_cls.exists_since"), "end": _spec(fi, "end or future_cls.exists_until")}
    dr = []
    for c in fi.calls_named("date_range"):
        n = fi.cfg.node_of(c)
        at = n.id if n is not None else None
        dr.append(([fi.sym.canon(a_, at) for a_ in c.args], {k.arg: fi.sym.canon(k.value, at) for k in c.keywords}))
    ok = any(kw.get("freq") == "future_cls.freq" and len(args) == 2 for args, kw in dr)
    ck.check(ok, "ARGFLOW", "S1.chain-uses-class-freq", fi.f.short, fi.f.loc, "chains are generated with pd.date_range(start, end, freq=future_cls.freq)", "chain generation does not use the class's freq", construct="pd.date_range(start, end, freq=future_cls.freq)")
    for i, nm in enumerate(("start", "end")):
        attr = "exists_since" if nm == "start" else "exists_until"
        got = [args[i] if len(args) > i else "?" for args, kw in dr]
        ck.check(bool(got) and all(g == want[nm] for g in got), "ARGFLOW", f"S1.span-default-{nm}", fi.f.short, fi.f.loc, f"the span {nm} defaults to the class's {attr}", f"{nm} default is not future_cls.{attr}: the chain is generated from {got}",
                 construct=f"{nm} = {nm} or future_cls.{attr}")


LISTING_CYCLE = {"ES": "QE-DEC", "NK": "QE-DEC", "VX": "ME", "ZQ": "QE-DEC", "ZT": "QE-DEC", "ZF": "QE-DEC", "ZN": "QE-DEC", "ZB": "QE-DEC"}


_OFFSET = re.compile(r"^-(?:datetime\.)?(timedelta|BDay|pd\.offsets\.BDay|pd\.tseries\.offsets\.BDay|pd\.Timedelta)\((?:(days|n|weeks|hours)=)?(\d+(?:\.\d+)?)\)$")


def _spec(fa, text, at=None):
    return fa.sym.canon(ast.parse(text, mode="eval").body, fa.cfg.entry.id if at is None else at)


def _offset(fa, exp: str):
    """(kind, unit, amount) when the function's single returned value is `<exp> - <offset constructor>(<positive literal>)`, else None."""
    r = returns_in(fa)
    if len(r) != 1 or r[0].value is None:
        return None
    at = fa.node_of(r[0]).id
    m = _OFFSET.match((fa.sym.ev(r[0].value, at) - specv(fa, exp)).key())
    if not m or float(m.group(3)) <= 0:
        return None
    kind = "BDay" if "BDay" in m.group(1) else "timedelta"
    unit = m.group(2) or ("n" if kind == "BDay" else "days")
    return kind, unit, float(m.group(3))


def s2(ck, an, concrete):
    seen = set()
    for c in concrete:
        f = an.prog.lookup_method(c, "_get_last_trading_date")
        if f is None or f.qual in seen:
            continue
        seen.add(f.qual)
        fa = an.fa(f)
        exp = f.params[1]
        got = ret_canons(fa)
        if f.cls.name == "_Treasury":
            ck.note("_Treasury._get_last_trading_date = (expiry - 30d).replace(day=24): strictly-before-expiry NOT decided (needs day-of-month ranges)")
            ck.check(got == [_spec(fa, f"({exp} - timedelta(days=30)).replace(day=24)")], "CONST", "S2.treasury-cutoff-shape", f.short, f.loc, "Treasury cut-off is the 24th of the month 30 days before the expiry (shape only; order vs expiry not decided)",
                     f"Treasury cut-off is {got}", construct="return (expiry - timedelta(days=30)).replace(day=24)")
            continue
        off = _offset(fa, exp)
        ck.check(off is not None, "SIGN", "S2.cutoff-before-expiry", f.short, f.loc, f"last trading date = expiry - {off} (a positive offset): strictly earlier than the expiry",
                 f"{f.short} returns {got}: not `expiry - <positive literal offset>`", construct=f"{f.short} return")
    want = {"ES": ("timedelta", "days", 8.0), "NK": ("timedelta", "days", 14.0), "VX": ("BDay", "n", 2.0)}
    for name, w in want.items():
        f = an.prog.lookup_method(an.prog.cls(name), "_get_last_trading_date")
        got = ret_canons(an.fa(f))
        off = _offset(an.fa(f), f.params[1])
        ck.check(off == w, "CONST", f"S2.cutoff-constant-{name}", f.short, f.loc, f"{name} stops trading {w[0]}({w[2]:g}) before its expiry", f"{name} cut-off is {got}, specified expiry - {w[0]}({w[1]}={w[2]:g})", construct=f"{name} cut-off")


def s3(ck, an, concrete):
    fut = an.prog.cls("Future")
    mc = fut.class_attrs.get("month_codes")
    try:
        table = ast.literal_eval(mc) if mc is not None else None
    except Exception:
        table = None
    ck.check(table == MONTH_CODES, "CONST", "S3.month-codes", "Future.month_codes", fut.loc, "month_codes is the 12-entry table F G H J K M N Q U V X Z for months 1..12", f"month_codes is {table}", construct="month_codes")
    for c in concrete:
        o, v = an.prog.lookup_class_attr(c, "month_codes")
        ck.check(o is fut, "MRO", "S3.month-codes-not-overridden", c.name, c.loc, f"{c.name} uses Future.month_codes", f"{c.name} overrides month_codes", construct=f"{c.name}.month_codes")
    fi = an.fa("Future.__init__")

    def stored(attr, text):
        st = assigns_to_attr(fi, attr)
        if len(st) != 1 or not isinstance(st[0], ast.Assign):
            return False
        at = fi.node_of(st[0]).id
        return fi.sym.canon(st[0].value, at) == _spec(fi, text, at)
    ck.check(stored("_symbol", "f\"{self._symbol_short}{self.month_codes[self.expiry.month]}{self.expiry.strftime('%y')}\""), "CONST", "S3.symbol-shape", fi.f.short, fi.f.loc,
             "symbol = class code + month code of the expiry month + two-digit expiry year", "the symbol is not built as code + month_codes[expiry.month] + strftime('%y')",
             construct="self._symbol = '{symbol_short}{month_code}{year_code}'.format(...)")
    ck.check(stored("_symbol_short", "self.__class__.__name__") or stored("_symbol_short", "type(self).__name__"), "CONST", "S3.symbol-code-is-class-name", fi.f.short, fi.f.loc, "the class code is the class name",
             "the class code is not self.__class__.__name__", construct="self._symbol_short = self.__class__.__name__")
    ck.check(stored("expiry", "self._get_expiry_date(year, month)"), "ARGFLOW", "S3.expiry-from-rule", fi.f.short, fi.f.loc, "expiry = _get_expiry_date(year, month)",
             "expiry is not _get_expiry_date(year, month)", construct="self.expiry = self._get_expiry_date(year, month)")
    fs = an.fa("Future.symbol")
    ck.check(ret_canons(fs) == ["self._symbol"], "ARGFLOW", "S3.symbol-property", fs.f.short, fs.f.loc, "Future.symbol returns the symbol built at construction", "Future.symbol does not return self._symbol", construct="return self._symbol")
    # specification constants of the expiry rules, compared as value ids (rename-proof), arithmetic NOT evaluated
    from sa.forward import Forward

    def spec(fa, text, at=None):
        return fa.sym.canon(ast.parse(text, mode="eval").body, at)
    for name, idx in (("ES", 2), ("NK", 1)):
        f = an.prog.cls(name).methods.get("_get_expiry_date")
        fa = an.fa(f)
        r = returns_in(fa)
        got, cont = [], []

        def on_stmt(st, fw):
            if not isinstance(st, ast.Expr):
                return
            for c in ast.walk(st):
                if isinstance(c, ast.Call) and isinstance(c.func, ast.Attribute) and c.func.attr == "append" and isinstance(c.func.value, ast.Subscript) and c.args:
                    lp = next((p for p in parents(c) if isinstance(p, ast.For)), None)
                    dv = lp.target.id if lp is not None and isinstance(lp.target, ast.Name) else "day"
                    if isinstance(c.func.value.value, ast.Name):
                        cont.append(c.func.value.value.id)
                    got.append((fw.canon(c.func.value.value), fw.canon(c.func.value.slice), fw.canon(c.args[0]),
                                fw.canon(ast.parse(f"datetime(year, month, {dv}).strftime('%A')", mode="eval").body), fw.canon(ast.parse(f"datetime(year, month, {dv})", mode="eval").body)))
        fw = Forward(an, fa, on_stmt=on_stmt, call_effects=False).run()
        loops = [n for n in walk_function(f.node) if isinstance(n, ast.For)]
        it = fa.sym.canon(loops[0].iter) if len(loops) == 1 else "?"
        dvar = loops[0].target.id if len(loops) == 1 and isinstance(loops[0].target, ast.Name) else "day"
        ok_it = it == fa.sym.canon(ast.parse("range(1, calendar.monthrange(year, month)[1] + 1)", mode="eval").body, fa.cfg.entry.id)
        ok_app = len(got) == 1 and got[0][2] == got[0][4] and got[0][1] == got[0][3]
        ck.check(ok_it and ok_app, "CONST", f"S3.rule-enumerates-month-{name}", f.short, f.loc, "every day 1..monthrange(year, month) is grouped under its weekday name",
                 f"{name}: day enumeration is range {it}, grouping {got}", construct=f"{name}._get_expiry_date loop")
        at = fa.node_of(r[0]).id if r else None
        k = fa.sym.canon(r[0].value, at) if r else "?"
        okr = len(r) == 1 and len(cont) == 1 and k == spec(fa, f"{cont[0]}['Friday'][{idx}]", at)
        ck.check(okr, "CONST", f"S3.rule-constant-{name}", f.short, f.loc, f"{name} expires on Friday number {idx + 1} of the month (index {idx} of the month's Fridays)",
                 f"{name} expiry is {k}", construct=f"return dates['Friday'][{idx}]")
    f = an.prog.cls("VX").methods.get("_get_expiry_date")
    fa = an.fa(f)
    r = returns_in(fa)
    at = fa.node_of(r[0]).id if r else None
    nm = "(datetime(year, month, 1) + timedelta(days=32))"
    want = spec(fa, f"{nm}.replace(day=21 - (calendar.weekday({nm}.year, {nm}.month, 1) + 2) % 7) - timedelta(days=30)", at)
    k = fa.sym.canon(r[0].value, at) if r else "?"
    ck.check(k == want, "CONST", "S3.rule-constant-VX", f.short, f.loc,
             "VX expiry = (third Friday of the following month: day 21 - (weekday(1st) + 2) % 7) - 30 days (constants and shape; arithmetic not evaluated)",
             f"VX expiry is {k[:200]}; specified {want[:200]}", construct="VX._get_expiry_date")
    f = an.prog.cls("_Treasury").methods.get("_get_expiry_date")
    fa = an.fa(f)
    r = returns_in(fa)
    at = fa.node_of(r[0]).id if r else None
    k = fa.sym.canon(r[0].value, at) if r else "?"
    want = spec(fa, "[date for date in pd.date_range(datetime(year, month, 1), periods=31, freq='B') if date.month == month][-1]", at)
    ck.check(k == want, "CONST", "S3.rule-constant-treasury", f.short, f.loc, "Treasuries expire on the last business day (freq 'B') of the delivery month",
             f"Treasury expiry is {k[:160]}; specified {want[:160]}", construct="_Treasury._get_expiry_date")


def s6(ck, an, concrete):
    need = ["_get_expiry_date", "_get_last_trading_date", "freq", "multiplier", "margin_requirement"]
    for c in concrete:
        for n in need:
            owner, v = an.prog.lookup_class_attr(c, n)
            ok = v is not None and not (hasattr(v, "is_abstract") and v.is_abstract)
            ck.check(ok, "MRO", "S6.class-complete", c.name, c.loc, f"{c.name}.{n} is defined (by {owner.name if owner else '?'})", f"{c.name} does not define {n}: the class cannot be instantiated", construct=f"{c.name}.{n}")
        owner, v = an.prog.lookup_class_attr(c, "multiplier")
        if isinstance(v, ast.Constant):
            ck.check(isinstance(v.value, (int, float)) and v.value > 0, "CONST", "S6.multiplier-positive", c.name, c.loc, f"{c.name}.multiplier = {v.value} > 0", f"{c.name}.multiplier = {v.value}", construct=f"{c.name}.multiplier")
        owner, v = an.prog.lookup_class_attr(c, "cash_requirement")
        ck.check(isinstance(v, ast.Constant) and v.value == 0.0, "CONST", "S6.futures-paid-by-margin", c.name, c.loc, f"{c.name}.cash_requirement = 0 (margined)", f"{c.name}.cash_requirement = {ast.unparse(v) if isinstance(v, ast.AST) else v}",
                 construct=f"{c.name}.cash_requirement")
