"""C08 — Decision-to-execution timing: FIFO delay and latency pricing."""
import ast
from sa.lib import *
from sa.dataflow import Poly, cmp_key
from sa.resolve import walk_function
from sa.report import Renamed
from rules import C04, C02

TECHNIQUE = 'static analysis (ast): queue typestate (append right / pop left, one each per step, rebuilt at reset) by CFG path counts and dominance, kind analysis of null actions per space class, ordering of latent events / execution / non-latent events'
EXPLANATION = (
    "Decides the structural clauses of C08: (S1) TradingEnv.reset unconditionally rebuilds the action queue as deque(d null actions, maxlen=d+1) "
    "(LIN: maxlen - prefill = 1, both over _steps_delay); TradingEnv.step inserts and removes exactly one action per call from opposite ends "
    "(FIFO pair), insert before remove before use, and the action validated/executed is the removed one; only __init__/reset/step touch the queue; "
    "(S2) the step order latent events -> request -> rebalance -> non-latent events and the inclusive, exact latency split (rules shared with C02/C04); "
    "(S3) for every concrete portfolio space the null action resolved through the MRO is of a numeric kind its membership test accepts and denotes "
    "'no position' (zeros for Box, the integer 0 for Discrete)."
)
DECIDED = ["S1 FIFO delay of exactly d decisions", "S2 priced at the last quotes <= t + latency", "S3 the null action is a member of the space"]
NOT_DECIDED = ["prices actually used (data)", "equality of executed and submitted allocation (C17-S4 covers the flow)"]
ASSUMPTIONS = ["collections.deque(maxlen=n) with appendleft+pop (or append+popleft) is a FIFO of capacity n; gymnasium Discrete.contains accepts integers only, Box-based contains accepts float arrays"]

FIFO_PAIRS = {("appendleft", "pop"), ("append", "popleft")}


def run(ck, an, tier):
    s1(ck, an)
    d = Renamed(ck, "C02:")
    C02.s4(d, an)
    d4 = Renamed(ck, "C04:")
    C04.partitions(d4, an)
    C04.latency_plumbing(d4, an)
    C04.nxt(d4, an)          # what is handed out as "before" / "after" the execution at each step, also at reset (history replay builds fresh lists)
    from rules import C18, ledger as _ledger
    C18.xy_init(_ledger._Only(Renamed(ck, "C18:"), {"env-config-steps_delay", "env-config-latency", "env-config"}), an)      # the tabular wrapper passes the configured delay / latency on unchanged (0 stays 0)
    s3(ck, an)


def s1(ck, an):
    fr = an.fa("TradingEnv.reset")
    st = [s for s in assigns_to_attr(fr, "_queue_actions")]
    if not st:
        ck.fail("RESET", "S1.queue-rebuilt-at-reset", fr.f.short, fr.f.loc, "reset does not rebuild the action queue", construct="self._queue_actions = deque(...)")
        return
    nodes = {fr.node_of(s).id for s in st}
    uncond = fr.cfg.every_path_from_passes(fr.cfg.entry.id, nodes)
    ck.check(uncond and len(st) == 1, "RESET", "S1.queue-rebuilt-at-reset", fr.f.short, fr.loc(st[0]), "every reset rebuilds the action queue (no action of an earlier episode survives)",
             "the queue is rebuilt only on some paths of reset: delayed actions of the previous episode would be executed", construct=stmt_text(st[0]))
    s = st[0]
    v = deref(fr, s.value)[0]              # through temporaries
    ok_ctor = isinstance(v, ast.Call) and fr.sym.canon(v.func) in ("deque", "collections.deque")
    ck.check(ok_ctor, "IDIOM", "S1.queue-is-deque", fr.f.short, fr.loc(s), "the queue is a collections.deque", f"the queue is {ast.unparse(v)[:60]}", construct=stmt_text(s))
    if ok_ctor:
        init = deref(fr, v.args[0])[0] if v.args else None
        maxlen = next((k.value for k in v.keywords if k.arg == "maxlen"), v.args[1] if len(v.args) > 1 else None)
        n_prefill = None
        elt = None
        if isinstance(init, ast.ListComp) and len(init.generators) == 1 and not init.generators[0].ifs:
            it = init.generators[0].iter
            if isinstance(it, ast.Call) and ast.unparse(it.func) == "range" and len(it.args) == 1:
                n_prefill = fr.sym.ev(it.args[0])
            elt = init.elt
        elif isinstance(init, ast.BinOp) and isinstance(init.op, ast.Mult) and isinstance(init.left, ast.List) and len(init.left.elts) == 1:
            n_prefill = fr.sym.ev(init.right)
            elt = init.left.elts[0]
        ml = fr.sym.ev(maxlen) if maxlen is not None else None
        d = Poly.atom("self._steps_delay")
        ck.check(n_prefill is not None and n_prefill == d, "LIN", "S1.prefill-is-d", fr.f.short, fr.loc(s), "the queue is pre-filled with exactly _steps_delay actions",
                 f"pre-fill count is {n_prefill.key() if n_prefill is not None else '?'}", construct=stmt_text(s))
        ck.check(ml is not None and n_prefill is not None and ml - n_prefill == Poly.const(1), "LIN", "S1.capacity-is-d-plus-1", fr.f.short, fr.loc(s), "capacity = pre-fill + 1 (one slot for the incoming action)",
                 f"maxlen is {ml.key() if ml is not None else 'unbounded'}", construct=stmt_text(s))
        is_null = isinstance(elt, ast.Call) and any(g.name == "null_action" for g in an.res.resolve_call(elt, fr.f)[0]) and "action_space" in ast.unparse(elt)
        ck.check(is_null, "ARGFLOW", "S1.prefill-null-actions", fr.f.short, fr.loc(s), "the pre-fill consists of the action space's null action", f"pre-fill element is {ast.unparse(elt) if elt is not None else '?'}",
                 construct=stmt_text(s))
    fi = an.fa("TradingEnv.__init__")
    sd = [x for x in assigns_to_attr(fi, "_steps_delay")]
    ck.check(len(sd) == 1 and isinstance(sd[0], ast.Assign) and fi.sym.canon(sd[0].value) == "steps_delay", "ARGFLOW", "S1.delay-config", fi.f.short, fi.f.loc, "_steps_delay is the configured delay",
             f"_steps_delay = {[ast.unparse(x.value) for x in sd if isinstance(x, ast.Assign)]}", construct="self._steps_delay = steps_delay")
    own_writers(ck, an, "S1.delay-fixed", "TradingEnv", "_steps_delay", {"TradingEnv.__init__"}, min_sites=1)
    # step: one insert, one remove, opposite ends
    fa = an.fa("TradingEnv.step")
    subj = fa.f.short
    ops = [(e.node.func.attr, e.node) for e in fa.effects() if e.attr == "_queue_actions" and e.kind == "M" and isinstance(e.node, ast.Call)]
    ins = [(m, n) for m, n in ops if m in ("append", "appendleft")]
    rem = [(m, n) for m, n in ops if m in ("pop", "popleft")]
    other = [(m, n) for m, n in ops if m not in ("append", "appendleft", "pop", "popleft")]
    for m, n in other:
        ck.fail("IDIOM", "S1.fifo-ops-only", subj, fa.loc(n), f"step applies .{m}() to the action queue", construct=stmt_text(n))
    for what, sites in (("insert", ins), ("remove", rem)):
        pc = fa.cfg.path_count(lambda nd, sites=sites: sum(1 for m, c in sites if fa.node_of(c).id == nd.id), ends=[fa.cfg.exit.id])
        lo, hi = pc.get(fa.cfg.exit.id, (0, 0))
        ck.check((lo, hi) == (1, 1), "PATHCOUNT", f"S1.one-{what}-per-step", subj, fa.f.loc, f"each step performs exactly one {what} on the queue", f"a step performs {lo}..{hi} {what}s on the queue",
                 construct=f"queue {what}")
    if len(ins) == 1 and len(rem) == 1:
        pair = (ins[0][0], rem[0][0])
        ck.check(pair in FIFO_PAIRS, "IDIOM", "S1.fifo-pair", subj, fa.loc(ins[0][1]), f"{pair[0]} + {pair[1]} take from the opposite end: first in, first out",
                 f"{pair[0]} + {pair[1]} operate on the same end of the deque: last in, first out (the newest decision is executed, older ones are never)", construct=f"{pair[0]}/{pair[1]}")
        ord_before(ck, fa, "S1.insert-before-remove", [ins[0][1]], [rem[0][1]], "the insert of the submitted action", "the removal of the due action")
        a = ins[0][1].args[0] if ins[0][1].args else None
        ck.check(a is not None and fa.sym.canon(a, fa.node_of(ins[0][1]).id) == fa.f.params[1], "ARGFLOW", "S1.inserts-submitted-action", subj, fa.loc(ins[0][1]), "the submitted action is what enters the queue",
                 f"queue receives {ast.unparse(a) if a is not None else '?'}", construct=stmt_text(ins[0][1]))
        mk = fa.calls_to("PortfolioSpace.make_rebalancing_request")
        for m in mk:
            a0 = fa.sym.canon(m.args[0]) if m.args else "?"
            ck.check(a0 == fa.sym.canon(rem[0][1]), "ARGFLOW", "S1.executes-removed-action", subj, fa.loc(m), "the action executed is the one removed from the queue", f"the request is built from {a0}",
                     construct=stmt_text(m))
        ord_before(ck, fa, "S1.remove-before-use", [rem[0][1]], mk, "the removal of the due action", "building the request")
    allowed = {"TradingEnv.__init__", "TradingEnv.reset", "TradingEnv.step"}
    for f in an.functions():
        for e in an.fa(f).effects():
            if e.attr == "_queue_actions":
                if e.kind == "R" and f.qual in new_api_functions(an) and not any(e2.attr == "_queue_actions" and e2.kind != "R" for e2 in an.fa(f).effects()):
                    ck.ok("OWN", "S1.queue-owner", f.short, e.loc, f"{f.short}: a read-only accessor new to the inventory that nothing reviewed reaches", construct=stmt_text(e.node))
                    continue
                ck.check(all(g.short in allowed for g in an.attributed(f)), "OWN", "S1.queue-owner", f.short, e.loc, f"queue touched by {f.short}", f"{f.short} touches the action queue; allowed: {sorted(allowed)}", construct=stmt_text(e.node))


def kind_of(an, fa, e) -> str:
    """int | float | int*float ... for a null-action expression."""
    if isinstance(e, ast.Name):
        e2, _ = deref(fa, e)          # a temporary stands for the expression it was assigned
        if e2 is not e:
            return kind_of(an, fa, e2)
    if isinstance(e, ast.Constant):
        if isinstance(e.value, bool):
            return "bool"
        if isinstance(e.value, int):
            return f"int:{e.value}"
        if isinstance(e.value, float):
            return f"float:{e.value}"
        return type(e.value).__name__
    if isinstance(e, ast.BinOp) and isinstance(e.op, ast.Mult):
        l, r = kind_of(an, fa, e.left), kind_of(an, fa, e.right)
        if "float" in l or "float" in r:
            zero = l in ("float:0.0", "int:0") or r in ("float:0.0", "int:0")
            return "float-zero" if zero else "float"
        if l.startswith("int") and r.startswith("int"):
            return "int:0" if "int:0" in (l, r) else "int"
        if l == "sample" or r == "sample":
            other = r if l == "sample" else l
            if other == "int:0":
                return "sample*int0"
            return "sample*" + other
        return "unknown"
    if isinstance(e, ast.Call) and isinstance(e.func, ast.Attribute) and e.func.attr == "sample":
        return "sample"
    if isinstance(e, ast.Call) and ast.unparse(e.func) in ("np.zeros", "numpy.zeros", "np.zeros_like", "numpy.zeros_like"):
        return "float-zero"
    if isinstance(e, ast.Call) and ast.unparse(e.func) == "int" and e.args:
        k = kind_of(an, fa, e.args[0])
        return "int:0" if "zero" in k or k.endswith(":0") or k.endswith(":0.0") else "int"
    return "unknown"


def s3(ck, an):
    ps = an.prog.cls("PortfolioSpace")
    concrete = [c for c in an.prog.subclasses(ps) if not c.module.name.startswith("_fixture")]
    ck.floor("concrete PortfolioSpace subclasses", len(concrete), 2)
    for c in concrete:
        f = an.prog.lookup_method(c, "null_action")
        if f is None:
            ck.fail("KIND", "S3.null-action-member", c.name, c.loc, f"{c.name} has no null_action", construct="null_action")
            continue
        fa = an.fa(f)
        rets = returns_in(fa)
        kinds = [kind_of(an, fa, r.value) for r in rets]
        ext = [b.split(".")[-1] for b in an.prog.ext_bases_all(c)]
        discrete = "Discrete" in ext
        if discrete:
            ok = kinds == ["int:0"]
            why = "Discrete.contains accepts integers only and the null action of a discrete space is action 0"
        else:
            ok = kinds in (["float-zero"],) or (len(kinds) == 1 and kinds[0] in ("sample*float:0.0", "float-zero"))
            why = "a Box-based space takes a zero weight vector"
        k2 = [("float-zero" if k == "sample*float:0.0" else k) for k in kinds]
        ck.check(ok or (not discrete and k2 == ["float-zero"]), "KIND", "S3.null-action-member", c.name, f.loc,
                 f"{c.name}.null_action() (resolved to {f.short}) returns {k2}: accepted by the space ({why})",
                 f"{c.name}.null_action() (resolved to {f.short}) returns {ast.unparse(rets[0].value) if rets else '?'} of kind {k2}; {why}", construct=f"{c.name}.null_action -> {f.short}")
    own_callers(ck, an, "S3.null-action-used-for-prefill", "PortfolioSpace.null_action", {"TradingEnv.reset"}, min_sites=0)   # presence of the prefill call is S1.prefill-null-actions
