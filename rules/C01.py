"""C01 — Self-financing trading: the bookkeeping skeleton of the NLV identity."""
import ast
from sa.lib import *
from rules import ledger
from sa.forward import Forward

TECHNIQUE = "static analysis (ast): forward abstract interpretation of Broker.transact / marking_to_market / holdings_values / Trade.__init__ / commissions to polynomial value ids, compared with the property's ledger equations; sign tables by evaluation under sign assumptions; CFG-dominance ordering and who-may-write (ownership / aliasing) rules"
EXPLANATION = (
    "Decides the bookkeeping skeleton of the NLV identity, not the identity over histories. Symbolic ledger equations (value-id / polynomial "
    "domain, no execution): (S1) Trade.notional / cost_of_cash / cost_of_spread, BrokerFees.commissions and the notional / liquidation "
    "valuation formulas equal the stated products (multiplier x position x price, cash requirement, posted margin); (S2) in Broker.transact cash + margin "
    "change by exactly -commission - cost_of_cash and the position by +quantity, in marking_to_market cash + margin change by exactly "
    "position x multiplier x (liquidation price - last mark); (S3) sign tables: buys at ask, sells at bid, longs valued at bid, shorts at ask; "
    "(S4) transact marks, pays, moves, resets the reference, re-marks, in that order; valuation marks first; (S5) reference-price "
    "conservation: new position x new reference = old position x old reference + traded quantity x execution price; (S6) commission "
    "formula has |notional|; (S7) only Broker.{__init__, transact, marking_to_market, accrued_interest} write the ledgers, transact is called "
    "from rebalance only, the live ledgers never escape; (S8) make_trades hands Trade the traded contract's current bid/ask."
)
DECIDED = ["S1 money formulas", "S2 zero-sum ledger equations", "S3 execution / liquidation sides", "S4 mark-pay-move-reset-remark order", "S5 reference price conservation",
           "S6 non-negative commission and spread cost", "S7 nobody else moves money", "S8 trades built from current quotes"]
NOT_DECIDED = ["the closed-form NLV identity over arbitrary histories (numeric)", "float rounding and the epsilon snap", "user-defined contracts beyond the four spec attributes"]
ASSUMPTIONS = ["Trade/LimitOrderBook/contract attributes are plain values (no descriptors); abs, float, sum have their usual meaning"]


def run(ck, an, tier):
    from rules import C14
    from sa.report import Renamed
    C14.s5(Renamed(ck, "C14:"), an)      # exchange[contract] is that contract's own book (keys by symbol / static hashing)
    C14.s1(Renamed(ck, "C14:"), an)      # every quote update reaches the book it is for, as given (the NLV moves with every quote) ...
    C14.s3(Renamed(ck, "C14:"), an)      # ... and nothing but a dead book stands between a quote and its book
    ledger.trade_formulas(ck, an)
    ledger.fees_formulas(ck, an)
    ledger.transact_equations(ck, an, {"order", "equations", "reference"})
    ledger.marking_equations(ck, an, {"equations", "guards"})
    ledger.valuation_formulas(ck, an, {"nlv"})
    sides(ck, an)
    cash_at_par(ck, an)
    ledger.ledger_ownership(ck, an, "S7")
    ledger.ledger_containers(ck, an, "S7")
    s8(ck, an)


def sides(ck, an):
    fq = an.fa("LimitOrderBook.acq_price")
    tab = sign_table_or_fail(ck, fq, fq.f.params[1], "S3.execution-side-shape") or {"neg": "?", "pos": "?", "zero": "?", "nan": "?"}
    ck.check(tab["neg"] == "self.bid_price" and tab["pos"] == "self.ask_price", "SIGN", "S3.book-execution-side", fq.f.short, fq.f.loc,
             "acq_price: sell at bid, buy at ask", f"acq_price table {tab}", construct="acq_price")
    fl = an.fa("LimitOrderBook.liq_price")
    rets = returns_in(fl)
    ok = len(rets) == 1 and fl.sym.canon(rets[0].value) == f"self.acq_price(-{fl.f.params[1]})"
    if not ok and len(rets) == 1:
        try:
            t2 = sign_table_func(fl, fl.f.params[1])
            ok = t2["pos"] == "self.bid_price" and t2["neg"] == "self.ask_price"
        except AnalysisError:
            ok = False
    ck.check(ok, "SIGN", "S3.book-liquidation-side", fl.f.short, fl.f.loc, "liq_price: longs at the bid, shorts at the ask", "liq_price is not acq_price of the opposite sign", construct="liq_price")
    # (the valuation selector of holdings_values is decided with the valuation formulas: S6.value-*)


def cash_at_par(ck, an):
    """The base currency is quoted at 1.0 / 1.0 when an episode starts (cash is worth its face value)."""
    fr = an.fa("TradingEnv.reset")
    seeds = []
    for c in fr.calls_named("process_EventNBBO"):
        if c.args:
            ev_, _at = deref(fr, c.args[0])          # the event may be built in a temporary first
            if isinstance(ev_, ast.Call) and len(ev_.args) >= 4 and "Cash" in ast.unparse(ev_.args[1]):
                seeds.append(c)
    ok = len(seeds) == 1 and [const_value(a) for a in deref(fr, seeds[0].args[0])[0].args[2:4]] == [1.0, 1.0]
    ck.check(ok, "CONST", "S1.cash-quoted-at-par", fr.f.short, fr.f.loc, "reset quotes cash at bid = ask = 1.0", f"cash seed quotes: {[ast.unparse(c.args[0])[:60] for c in seeds]}", construct="EventNBBO(self.now(), Cash(), 1.0, 1.0)")
    procs = fr.calls_to("TradingEnv._process_latent_events", "TradingEnv._process_nonlatent_events")
    if seeds and procs:
        ord_before(ck, fr, "S1.cash-quoted-before-events", seeds, procs, "the cash quote", "processing of transmitter events")


def s8(ck, an):
    fm = an.fa("Rebalancing.make_trades")
    cs = [c for c in fm.calls_to("Trade.__init__") if isinstance(c, ast.Call)]
    ck.floor("Trade constructions in make_trades", len(cs), 1)
    for c in cs:
        kw = {k.arg: fm.sym.canon(k.value) for k in c.keywords}
        ctr_src = next((ast.unparse(k.value) for k in c.keywords if k.arg == "contract"), "None")
        for side in ("bid_price", "ask_price"):
            w = specv(fm, f"broker.exchange[{ctr_src}].{side}", fm.node_of(c).id).key()      # the traded contract's own book, spelled with the call's own contract argument
            ck.check(kw.get(side) == w, "ARGFLOW", f"S8.trade-gets-{side}", fm.f.short, fm.loc(c), f"Trade({side}=) is the traded contract's current {side}",
                     f"Trade({side}=) is {kw.get(side)}, expected {w}", construct=f"{side}=" + str(kw.get(side)))
        ck.check(kw.get("broker_fees") == "broker.fees", "ARGFLOW", "S8.trade-gets-fees", fm.f.short, fm.loc(c), "Trade is charged the broker's fee schedule",
                 f"Trade(broker_fees={kw.get('broker_fees')})", construct="broker_fees=")
