"""Clauses shared by several properties (evaluated under the calling
property's id so each evidence file is self-contained)."""
import ast
from sa.lib import *
from sa.dataflow import cmp_key, cmp_atoms
from sa.resolve import walk_function


def allocation_filters(ck, an, name_prefix):
    """_Allocation.__init__ drops Cash and zero entries and keys by static_hashing()."""
    fa = an.fa("_Allocation.__init__")
    subj = fa.f.short
    comps = [n for n in walk_function(fa.f.node) if isinstance(n, ast.DictComp)]
    if len(comps) != 1:
        ck.fail("GUARD", f"{name_prefix}.allocation-comprehension", subj, fa.f.loc, f"expected one dict comprehension building the allocation, found {len(comps)}",
                construct="missing:dict comprehension")
        return
    dc = comps[0]
    g = dc.generators[0]
    tnames = [e.id for e in g.target.elts] if isinstance(g.target, ast.Tuple) else []
    if len(tnames) != 2:
        ck.fail("GUARD", f"{name_prefix}.allocation-comprehension", subj, fa.loc(dc), "comprehension does not iterate (contract, value) pairs", construct=ast.unparse(dc))
        return
    cvar, vvar = tnames
    conds = []
    for gen in dc.generators:
        for c in gen.ifs:
            conds += cmp_atoms(fa.sym.cmp(c)) if fa.sym.cmp(c)[0] != "or" else [fa.sym.cmp(c)]
    keys = [cmp_key(c) for c in conds]
    has_cash = any(c[0] == "truthy" and not c[2] and "isinstance" in c[1] and cvar in c[1] and "Cash" in c[1] for c in conds)
    has_zero = any(c[0] == "rel" and c[1] == "!=" and c[2] == vvar for c in conds)
    ck.check(has_cash, "GUARD", f"{name_prefix}.drops-cash", subj, fa.loc(dc), "entries for Cash contracts are dropped", f"no `not isinstance({cvar}, Cash)` filter (filters: {keys})",
             construct=ast.unparse(dc))
    ck.check(has_zero, "GUARD", f"{name_prefix}.drops-zero", subj, fa.loc(dc), "zero entries are dropped", f"no `{vvar} != 0` filter (filters: {keys})", construct=ast.unparse(dc))
    ck.check(len(conds) == 2, "GUARD", f"{name_prefix}.no-other-filter", subj, fa.loc(dc), "no other entry is filtered out", f"additional filters drop entries: {keys}",
             construct=ast.unparse(dc))
    k = ast.unparse(dc.key)
    ck.check(k == f"{cvar}.static_hashing()", "IDIOM", f"{name_prefix}.static-hashing-key", subj, fa.loc(dc), "keys are normalised with static_hashing()",
             f"allocation key is {k}", construct=ast.unparse(dc))
    ck.check(ast.unparse(dc.value) == vvar, "ARGFLOW", f"{name_prefix}.value-unchanged", subj, fa.loc(dc), "values are stored unchanged", f"allocation value is {ast.unparse(dc.value)}",
             construct=ast.unparse(dc))
    # the comprehension result initialises the dict; pairs come from zip(keys, values) / mapping.items()
    sup = [c for c in fa.calls_named("__init__")]
    ok = any(c.args and fa.sym.canon(c.args[0]) == fa.sym.canon(dc) for c in sup)
    ck.check(ok, "ARGFLOW", f"{name_prefix}.filtered-data-used", subj, fa.f.loc, "the filtered mapping initialises the dictionary", "the filtered mapping is not what initialises the dictionary",
             construct="super().__init__(data)")
    gname = g.iter.id if isinstance(g.iter, ast.Name) else ""
    srcs = [d for d in fa.rd.defs if d.var == gname and d.value is not None]
    bad = []
    has_zip = has_items = False
    for d in srcs:
        v = d.value
        if isinstance(v, ast.Call) and isinstance(v.func, ast.Name) and v.func.id == "zip":
            if [ast.unparse(a) for a in v.args] == ["keys", "values"]:
                has_zip = True
            else:
                bad.append(ast.unparse(v))
        elif isinstance(v, ast.Call) and isinstance(v.func, ast.Attribute) and v.func.attr == "items" and isinstance(v.func.value, ast.Name) and v.func.value.id == "mapping":
            has_items = True
        elif not [n for n in ast.walk(v) if isinstance(n, ast.Name) and n.id not in ("dict", "list", "tuple", "iter", "set")]:
            pass   # an empty iterable
        else:
            bad.append(ast.unparse(v))
    ck.check(has_zip and has_items and not bad, "ARGFLOW", f"{name_prefix}.pairs-source", subj, fa.f.loc,
             "pairs come from mapping.items() or zip(keys, values) (i-th key with i-th value)", f"unexpected pair sources: {bad or [ast.unparse(d.value) for d in srcs]}", construct="generator")
    # every _Allocation subclass is built through this __init__ (no override)
    for c in an.prog.subclasses(an.prog.cls("_Allocation")):
        ck.check("__init__" not in c.methods, "MRO", f"{name_prefix}.no-init-override", c.name, c.loc, f"{c.name} is built through _Allocation.__init__",
                 f"{c.name} overrides __init__ and may bypass the Cash/zero filters", construct=f"{c.name}.__init__")


def sub_returns_allocation(ck, an, name_prefix):
    fa = an.fa("_Allocation.__sub__")
    rets = returns_in(fa)
    ok = bool(rets) and all(isinstance(r.value, ast.Call) and fa.sym.canon(r.value.func) in ("type(self)", "self.__class__") for r in rets)
    ck.check(ok, "IDIOM", f"{name_prefix}.sub-refilters", fa.f.short, fa.f.loc, "__sub__ builds its result through the class constructor (zero differences are dropped)",
             f"__sub__ returns {[ast.unparse(r.value)[:40] for r in rets]} (not re-filtered)", construct="return cls(mapping)")
