"""Clauses shared by several properties (evaluated under the calling
property's id so each evidence file is self-contained)."""
import ast
from sa.lib import *
from sa import lib as _lib
from sa.dataflow import cmp_key, cmp_atoms
from sa.resolve import walk_function


REF_ALLOC_INIT = """
def __init__({sig}):
    if mapping is not None:
        generator = mapping.items()
    elif keys is not None and values is not None:
        if len(keys) != len(values):
            raise ValueError()
        generator = zip(keys, values)
    else:
        generator = {empty}
    data = {{contract.static_hashing(): value for contract, value in generator if not isinstance(contract, Cash) if value != 0}}
    super().__init__(data)
"""


def allocation_filters(ck, an, name_prefix):
    """_Allocation.__init__ drops Cash and zero entries and keys by static_hashing()."""
    fa = an.fa("_Allocation.__init__")
    subj = fa.f.short
    # value id of what initialises the dictionary against the reference: equal ids discharge every clause below whatever the
    # spelling (loop / comprehension / helper / temporaries); when they differ, the clauses below name what changed
    refs = [_lib.reference(fa, REF_ALLOC_INIT.format(sig=ast.unparse(fa.f.node.args), empty=e_)) for e_ in ("dict().items()", "()", "[]", "iter(())")]     # "nothing to iterate": any empty iterable

    def init_arg(x):
        cs = [c for c in x.calls_named("__init__") if c.args]
        return x.sym.canon(cs[0].args[0], x.node_of(cs[0]).id) if len(cs) == 1 else None
    got, wants = init_arg(fa), [init_arg(r_) for r_ in refs]
    want = wants[0]
    raises_ok = len([n for n in walk_function(fa.f.node) if isinstance(n, ast.Raise)]) == 1
    if got is not None and got in wants and raises_ok:
        for cl, what in (("drops-cash", "entries for Cash contracts are dropped"), ("drops-zero", "zero entries are dropped"), ("no-other-filter", "no other entry is filtered out"),
                         ("static-hashing-key", "keys are normalised with static_hashing()"), ("value-unchanged", "values are stored unchanged"),
                         ("filtered-data-used", "the filtered mapping initialises the dictionary"), ("pairs-source", "pairs come from mapping.items() or zip(keys, values) (i-th key with i-th value)")):
            ck.ok("ARGFLOW", f"{name_prefix}.{cl}", subj, fa.f.loc, what + " (value id of the initialising mapping equals the reference)", construct="super().__init__(data)")
        for c in an.prog.subclasses(an.prog.cls("_Allocation")):
            ck.check("__init__" not in c.methods, "MRO", f"{name_prefix}.no-init-override", c.name, c.loc, f"{c.name} is built through _Allocation.__init__",
                     f"{c.name} overrides __init__ and may bypass the Cash/zero filters", construct=f"{c.name}.__init__")
        return
    cnt = _Counting(ck)
    _allocation_filters_fine(cnt, an, name_prefix)
    if not cnt.fails:
        ck.fail("ARGFLOW", f"{name_prefix}.allocation-as-specified", subj, fa.f.loc, f"the mapping that initialises the allocation is {str(got)[:300]}; specified {str(want)[:300]}" + ("" if raises_ok else "; the length check no longer raises exactly once"),
                construct="super().__init__(data)", witness=[f"got       {got}", f"specified {want}"])


class _Counting:
    """Checker view that counts refuted obligations (used to fall back to a general clause when no specific one names the difference)."""

    def __init__(self, ck):
        self._ck = ck
        self.fails = 0

    def fail(self, *a, **k):
        self.fails += 1
        return self._ck.fail(*a, **k)

    def check(self, cond, *a, **k):
        if not cond:
            self.fails += 1
        return self._ck.check(cond, *a, **k)

    def __getattr__(self, n):
        return getattr(self._ck, n)


def _allocation_filters_fine(ck, an, name_prefix):
    fa = an.fa("_Allocation.__init__")
    subj = fa.f.short
    comps = [n for n in walk_function(fa.f.node) if isinstance(n, ast.DictComp)]
    if len(comps) != 1:
        ck.fail("GUARD", f"{name_prefix}.allocation-comprehension", subj, fa.f.loc, f"expected one dict comprehension building the allocation, found {len(comps)}",
                construct="missing:dict comprehension")
        return
    dc = comps[0]
    g = dc.generators[0]
    tnames = [e.id for e in g.target.elts] if isinstance(g.target, ast.Tuple) else []
    if len(tnames) != 2:
        ck.fail("GUARD", f"{name_prefix}.allocation-comprehension", subj, fa.loc(dc), "comprehension does not iterate (contract, value) pairs", construct=ast.unparse(dc))
        return
    cvar, vvar = tnames
    conds = []
    for gen in dc.generators:
        for c in gen.ifs:
            conds += cmp_atoms(fa.sym.cmp(c)) if fa.sym.cmp(c)[0] != "or" else [fa.sym.cmp(c)]
    keys = [cmp_key(c) for c in conds]
    has_cash = any(c[0] == "truthy" and not c[2] and "isinstance" in c[1] and cvar in c[1] and "Cash" in c[1] for c in conds)
    has_zero = any(c[0] == "rel" and c[1] == "!=" and c[2] == vvar for c in conds)
    ck.check(has_cash, "GUARD", f"{name_prefix}.drops-cash", subj, fa.loc(dc), "entries for Cash contracts are dropped", f"no `not isinstance({cvar}, Cash)` filter (filters: {keys})",
             construct=ast.unparse(dc))
    ck.check(has_zero, "GUARD", f"{name_prefix}.drops-zero", subj, fa.loc(dc), "zero entries are dropped", f"no `{vvar} != 0` filter (filters: {keys})", construct=ast.unparse(dc))
    ck.check(len(conds) == 2, "GUARD", f"{name_prefix}.no-other-filter", subj, fa.loc(dc), "no other entry is filtered out", f"additional filters drop entries: {keys}",
             construct=ast.unparse(dc))
    k = ast.unparse(dc.key)
    ck.check(k == f"{cvar}.static_hashing()", "IDIOM", f"{name_prefix}.static-hashing-key", subj, fa.loc(dc), "keys are normalised with static_hashing()",
             f"allocation key is {k}", construct=ast.unparse(dc))
    ck.check(ast.unparse(dc.value) == vvar, "ARGFLOW", f"{name_prefix}.value-unchanged", subj, fa.loc(dc), "values are stored unchanged", f"allocation value is {ast.unparse(dc.value)}",
             construct=ast.unparse(dc))
    # the comprehension result initialises the dict; pairs come from zip(keys, values) / mapping.items()
    sup = [c for c in fa.calls_named("__init__")]
    ok = any(c.args and fa.sym.canon(c.args[0]) == fa.sym.canon(dc) for c in sup)
    ck.check(ok, "ARGFLOW", f"{name_prefix}.filtered-data-used", subj, fa.f.loc, "the filtered mapping initialises the dictionary", "the filtered mapping is not what initialises the dictionary",
             construct="super().__init__(data)")
    gname = g.iter.id if isinstance(g.iter, ast.Name) else ""
    srcs = [d for d in fa.rd.defs if d.var == gname and d.value is not None]
    bad = []
    has_zip = has_items = False
    for d in srcs:
        v = d.value
        if isinstance(v, ast.Call) and isinstance(v.func, ast.Name) and v.func.id == "zip":
            if [ast.unparse(a) for a in v.args] == ["keys", "values"]:
                has_zip = True
            else:
                bad.append(ast.unparse(v))
        elif isinstance(v, ast.Call) and isinstance(v.func, ast.Attribute) and v.func.attr == "items" and isinstance(v.func.value, ast.Name) and v.func.value.id == "mapping":
            has_items = True
        elif not [n for n in ast.walk(v) if isinstance(n, ast.Name) and n.id not in ("dict", "list", "tuple", "iter", "set")]:
            pass   # an empty iterable
        else:
            bad.append(ast.unparse(v))
    ck.check(has_zip and has_items and not bad, "ARGFLOW", f"{name_prefix}.pairs-source", subj, fa.f.loc,
             "pairs come from mapping.items() or zip(keys, values) (i-th key with i-th value)", f"unexpected pair sources: {bad or [ast.unparse(d.value) for d in srcs]}", construct="generator")
    # every _Allocation subclass is built through this __init__ (no override)
    for c in an.prog.subclasses(an.prog.cls("_Allocation")):
        ck.check("__init__" not in c.methods, "MRO", f"{name_prefix}.no-init-override", c.name, c.loc, f"{c.name} is built through _Allocation.__init__",
                 f"{c.name} overrides __init__ and may bypass the Cash/zero filters", construct=f"{c.name}.__init__")


def sub_returns_allocation(ck, an, name_prefix):
    fa = an.fa("_Allocation.__sub__")
    rets = returns_in(fa)
    ok = bool(rets) and all(isinstance(deref(fa, r.value)[0], ast.Call) and fa.sym.canon(deref(fa, r.value)[0].func, deref(fa, r.value)[1]) in ("type(self)", "self.__class__") for r in rets)
    ck.check(ok, "IDIOM", f"{name_prefix}.sub-refilters", fa.f.short, fa.f.loc, "__sub__ builds its result through the class constructor (zero differences are dropped)",
             f"__sub__ returns {[ast.unparse(r.value)[:40] for r in rets]} (not re-filtered)", construct="return cls(mapping)")


# ---------------------------------------------------------------------------
# Engine assumptions, defaults and specification tables (shared)
# ---------------------------------------------------------------------------

DYNAMIC_HOOKS = {"__getattr__", "__getattribute__", "__setattr__", "__delattr__", "__set_name__", "__init_subclass__", "__class_getitem__", "__missing__", "__set__", "__get__"}


def engine_assumptions(ck, an, classes=None):
    """The attribute-level reasoning of every rule assumes plain attributes:
    no dynamic attribute hooks, descriptors, metaclasses, exec/eval or
    monkey-patching of in-package classes."""
    n = 0
    # scoped to what the rules of this run consulted: the functions reachable from the ones they named and the
    # classes those functions belong to / touch (a setter in an unrelated class cannot change this property's verdict)
    scope_funcs, scope_classes = an.scope()
    if classes is None:
        classes = scope_classes
    related = set(classes)
    for c in an.prog.classes.values():
        names = {b.name for b in an.prog.mro(c)}
        if names & set(classes):
            related |= names        # bases of a consulted class (inherited setters) and its subclasses
    for c in an.prog.classes.values():
        if c.module.name.startswith("_fixture"):
            continue
        if c.name not in related and not any(b.name in related for b in an.prog.mro(c)):
            continue
        n += 1
        hooks = sorted(set(c.methods) & DYNAMIC_HOOKS)
        ck.check(not hooks, "MRO", "S0.no-dynamic-attribute-hooks", c.name, c.loc, f"{c.name} has plain attribute access",
                 f"{c.name} defines {hooks}: attribute reads/writes no longer mean what the source says (all ledger / ordering rules would be unsound)", construct=f"{c.name}.{hooks[0] if hooks else ''}")
        meta = [k for k in c.node.keywords if k.arg == "metaclass"]
        ck.check(not meta, "MRO", "S0.no-metaclass", c.name, c.loc, f"{c.name} has no metaclass", f"{c.name} uses a metaclass", construct=f"{c.name}(metaclass=...)")
        setters = [m for m in c.node.body if isinstance(m, ast.FunctionDef) and any(ast.unparse(d).endswith(".setter") or ast.unparse(d).endswith(".deleter") for d in m.decorator_list)]
        ck.check(not setters, "MRO", "S0.no-property-setters", c.name, c.loc, f"{c.name} has no property setters", f"{c.name} defines property setters {[m.name for m in setters]}: a plain store may run code",
                 construct=f"{c.name} setter")
    for f in an.functions():
        if f.qual not in scope_funcs:
            continue
        for node in walk_function(f.node):
            if isinstance(node, ast.Call) and isinstance(node.func, ast.Name) and node.func.id in ("exec", "eval", "compile", "__import__", "globals", "locals", "vars") and f.short not in ("IEvent._public_attr",):
                ck.fail("MRO", "S0.no-dynamic-code", f.short, f"{f.module.relpath}:{node.lineno}", f"{f.short} uses {node.func.id}(): the analysed source is not what runs", construct=stmt_text(node))
            if isinstance(node, ast.Call) and isinstance(node.func, ast.Name) and node.func.id == "setattr" and f.short not in ("to_pandas", "to_pandas.<locals>.decorated"):
                ck.fail("MRO", "S0.no-monkey-patching", f.short, f"{f.module.relpath}:{node.lineno}", f"{f.short} uses setattr(): attributes or methods are replaced at run time", construct=stmt_text(node))
    return n


# (function, parameter) -> expected default (python literal), reason, properties that rely on it
DEFAULTS = [
    ("Broker.__init__", "deposit", 100.0, "initial deposit", ("C01",)),
    ("Broker.__init__", "epsilon", 1e-07, "float clean-up threshold of the exempt epsilon snap: must stay negligible", ("C01", "C05")),
    ("Broker.net_liquidation_value", "raise_if_broke", True, "valuation raises by default", ("C09",)),
    ("Broker.accrued_interest", "accrue", False, "a plain call is a query", ("C06",)),
    ("Broker.holdings_values", "kind", "notional", "values are notional by default", ("C05", "C07")),
    ("Broker.marking_to_market", "contract", None, "marks every contract by default", ("C01", "C05")),
    ("Rebalancing.__init__", "absolute", True, "targets are absolute by default (spaces rely on it)", ("C03", "C17")),
    ("Rebalancing.__init__", "fractional", True, "fractional trading by default", ("C12",)),
    ("Rebalancing.__init__", "margin", 0.0, "no threshold by default", ("C12", "C03")),
    ("Rebalancing.__init__", "measure", "weight", "weights by default", ("C03", "C17")),
    ("PortfolioSpace.__init__", "as_weights", True, "weights by default", ("C17",)),
    ("PortfolioSpace.__init__", "fractional", True, "fractional by default", ("C12", "C17")),
    ("PortfolioSpace.__init__", "margin", 0.0, "no threshold by default", ("C12",)),
    ("BoxPortfolio.__init__", "low", 0.0, "long-only lower bound", ("C17",)),
    ("BoxPortfolio.__init__", "high", 1.0, "unleveraged upper bound", ("C17",)),
    ("BoxPortfolio.__init__", "margin", 0.0, "no threshold by default", ("C12",)),
    ("BoxPortfolio.__init__", "as_weights", True, "weights by default", ("C17",)),
    ("BoxPortfolio.__init__", "fractional", True, "fractional by default", ("C12", "C17")),
    ("DiscretePortfolio.__init__", "as_weights", True, "weights by default", ("C17",)),
    ("DiscretePortfolio.__init__", "fractional", True, "fractional by default", ("C12", "C17")),
    ("Transmitter.__init__", "markov_reset", False, "history is replayed by default", ("C04", "C02")),
    ("Transmitter.__init__", "warmup", None, "no warm-up bound by default", ("C04",)),
    ("Transmitter._create_partitions", "latency", 0, "no latency by default", ("C04", "C08")),
    ("Transmitter.add_prices", "spread", 0, "no spread by default", ("C18",)),
    ("Transmitter._reset", "episode_length", None, "whole fold by default", ("C15",)),
    ("Transmitter.walk_forward", "sliding_window", True, "sliding window by default", ("C15",)),
    ("TradingEnv.__init__", "latency", 0, "no latency by default", ("C08", "C04")),
    ("TradingEnv.__init__", "steps_delay", 0, "no delay by default", ("C08",)),
    ("TradingEnv.__init__", "initial_cash", 100, "initial deposit", ("C01",)),
    ("TradingEnv.__init__", "episode_length", None, "whole fold by default", ("C15",)),
    ("IBrokerFees.__init__", "markup", 0.0, "no markup by default", ("C06",)),
    ("IBrokerFees.__init__", "proportional", 0.0, "no proportional fee by default", ("C01",)),
    ("IBrokerFees.__init__", "fixed", 0.0, "no fixed fee by default", ("C01",)),
    ("FutureChain.__init__", "month", 0, "front month by default", ("C11",)),
    ("FutureChain.lead_contract", "month", 0, "no extra offset by default", ("C11", "C14")),
    ("State.__init__", "window", 1, "window 1 by default", ("C18",)),
    ("State.__init__", "stride", None, "no stride by default", ("C18",)),
    ("LimitOrderBook.__init__", "time", None, "no time", ("C14",)),
    ("LogReturn.__init__", "scale", 1.0, "no rescaling by default", ("C07",)),
    ("LogReturn.__init__", "clip", 2.0, "reward clipping", ("C07",)),
    ("LogReturn.__init__", "risk_aversion", 0.0, "no risk aversion by default", ("C07",)),
    ("TrackRecord.net_liquidation_value", "before_rebalancing", True, "pre-trade values by default", ("C07",)),
    ("TrackRecord.weights_actual", "before_rebalancing", True, "pre-trade values by default", ("C07",)),
    ("PandasMetrics.value_at_risk", "quantile", 0.025, "VaR level", ("C16",)),
    ("PandasMetrics.expected_shortfall", "quantile", 0.025, "ES level", ("C16",)),
    ("PandasMetrics.excess_cagr", "over", 0.0, "zero hurdle", ("C16",)),
    ("PandasMetrics.sharpe_ratio", "risk_free", 0.0, "zero risk-free", ("C16",)),
]


def defaults_table(ck, an, prop):
    n = 0
    for short, param, want, why, props in DEFAULTS:
        if prop not in props:
            continue
        f = an.prog.func(short)
        d = f.param_default(param)
        n += 1
        try:
            got = ast.literal_eval(d) if d is not None else "<no default>"
        except Exception:
            got = ast.unparse(d)
        same = (got == want) and (type(got) is type(want) or isinstance(got, (int, float)) and isinstance(want, (int, float)) and not isinstance(got, bool) and not isinstance(want, bool))
        ck.check(same, "CONST", "S0.api-default", short, f.loc, f"{short}({param}={want!r}): {why}", f"{short}({param}=...) default is {got!r}, the property's mechanisms rely on {want!r} ({why})", construct=f"{short}({param}=)")
    return n


# built-in contract specifications the accounting rules rely on
CONTRACT_SPECS = {
    "Asset": {"multiplier": 1.0, "cash_requirement": 1.0, "margin_requirement": 0.0},
    "Rate": {"multiplier": 1.0, "cash_requirement": 1.0, "margin_requirement": 0.0},
    "Future": {"cash_requirement": 0.0},
    "FutureChain": {"cash_requirement": 0.0},
}


def contract_spec_table(ck, an):
    for cname, spec in CONTRACT_SPECS.items():
        c = an.prog.cls(cname)
        for attr, want in spec.items():
            v = c.class_attrs.get(attr)
            got = v.value if isinstance(v, ast.Constant) else (ast.unparse(v) if v is not None else None)
            ck.check(got == want, "CONST", "S0.contract-spec", cname, c.loc, f"{cname}.{attr} = {want}", f"{cname}.{attr} = {got}; built-in spot-like contracts are fully paid (cash 1, margin 0, multiplier 1), futures are margined (cash 0)",
                     construct=f"{cname}.{attr}")
        # subclasses do not re-define the spec of spot-like contracts
        if cname in ("Asset",):
            for s in an.prog.subclasses(c):
                over = [a for a in spec if a in s.class_attrs or a in s.methods]
                ck.check(not over, "MRO", "S0.contract-spec-not-overridden", s.name, s.loc, f"{s.name} inherits {cname}'s specification", f"{s.name} overrides {over}", construct=f"{s.name}.{over[0] if over else ''}")
    fc = an.prog.cls("FutureChain")
    for attr in ("multiplier", "margin_requirement"):
        f = fc.methods.get(attr)
        r = ret_canons(an.fa(f)) if f is not None else []
        ck.check(f is not None and r == [_lib.specv(an.fa(f), f"self.contracts[0].{attr}").key()], "ARGFLOW", "S0.chain-spec-delegates", f"FutureChain.{attr}", fc.loc, f"the chain's {attr} is its contracts' {attr}", f"FutureChain.{attr} returns {r}", construct=f"FutureChain.{attr}")


DICT_API = {"__contains__", "__getitem__", "__setitem__", "__delitem__", "__iter__", "__len__", "__eq__", "__ne__", "__hash__", "get", "items", "keys", "values", "copy", "pop", "popitem", "update", "setdefault", "clear", "fromkeys", "__missing__",
            "__or__", "__ior__", "__reversed__", "__bool__"}


def allocation_not_shadowed(ck, an, prefix):
    """_Allocation and its subclasses are plain dicts: nothing of the dict API the mechanisms use is overridden."""
    base = an.prog.cls("_Allocation")
    for c in [base] + an.prog.subclasses(base):
        over = sorted((set(c.methods) | set(c.class_attrs)) & DICT_API)
        ck.check(not over, "MRO", f"{prefix}.allocation-is-a-plain-dict", c.name, c.loc, f"{c.name} does not override dict behaviour",
                 f"{c.name} overrides {over}: membership tests, lookups and iteration in make_trades / __sub__ no longer mean what they say", construct=f"{c.name}.{over[0] if over else ''}")
    ck.check(base.ext_bases == ["dict"] or base.ext_bases == ["builtins.dict"], "MRO", f"{prefix}.allocation-base", "_Allocation", base.loc, "_Allocation subclasses dict", f"_Allocation bases: {base.ext_bases}", construct="class _Allocation(dict)")


# ---------------------------------------------------------------------------
# Reviewed state: the data attributes whose value may influence a mechanism.
# A data attribute that is read somewhere in the package but is not listed here
# is new state (a memo, a cache, a flag) that the rules have not reviewed.
# ---------------------------------------------------------------------------
REVIEWED_STATE = {
    "Broker": ({"_epsilon", "_holdings_margins", "_holdings_quantity", "_last_accrual", "_last_marking_to_market_price", "base_currency", "exchange", "fees", "track_record", "_initial_deposit"},
               ("C01", "C03", "C05", "C06", "C07", "C09", "C13")),
    "Transmitter": ({"_current_time", "_folds", "_markov_reset", "_partition_latent", "_partition_nonlatent", "_step_nr", "_steps", "_warmup", "events", "timesteps", "_fold_name", "_start_date", "_end_date"},
                    ("C02", "C04", "C08", "C10", "C15")),
    "TradingEnv": ({"_broker_fees", "_done", "_episode_length", "_events_latent", "_events_nonlatent", "_initial_cash", "_last_event", "_now", "_observers", "_queue_actions", "_real_time", "_reward", "_sampling_span",
                    "_steps_delay", "_transmitter", "_verify_state", "_visits", "action_space", "broker", "exchange", "metadata", "observation_space", "state", "_latency", "transformer", "X", "Y", "start", "end"},
                   ("C02", "C04", "C07", "C08", "C09", "C10", "C15", "C17", "C18")),
    "Rebalancing": ({"absolute", "allocation", "context_post", "context_pre", "fractional", "margin", "profit_on_idle_cash", "time", "trades"}, ("C03", "C07", "C11", "C12", "C13", "C17")),
    "FutureChain": ({"_last_trading_dates", "_month", "contracts", "now"}, ("C11", "C14", "C19")),
    "Future": ({"_symbol", "_symbol_short", "exists_since", "exists_until", "expiry", "last_trading_date", "month_codes", "now", "freq", "multiplier", "margin_requirement", "cash_requirement"}, ("C11", "C19")),
    "LimitOrderBook": ({"ask_price", "ask_size", "bid_price", "bid_size", "history", "is_alive", "time"}, ("C01", "C05", "C13", "C14")),
    "Exchange": ({"_books", "last_update"}, ("C01", "C13", "C14", "C11")),
    "TrackRecord": ({"_nr_steps_to_burn", "_rebalancing", "_time", "_trading_started", "benchmark", "name", "risk_free", "fold", "state_history"}, ("C07",)),
    "Trade": ({"acq_price", "contract", "cost_of_cash", "cost_of_commissions", "cost_of_spread", "notional", "quantity", "time", "bid_price", "ask_price"}, ("C01", "C12", "C13")),
    "PortfolioSpace": ({"_as_weights", "_fractional", "_margin", "base_currency", "contracts", "_allocations", "dtype", "high", "low", "shape", "n"}, ("C08", "C12", "C17")),
    "State": ({"history", "last_event", "queue", "stride", "names", "space", "features", "save", "exchange", "broker", "action_space", "last_update", "_cache", "_cache_enabled", "_nr_callbacks", "_transform_features",
               "_verify_features", "_init_args", "_init_kwargs", "_observed_events", "name"}, ("C02", "C10", "C18")),
    "_Allocation": (set(), ("C03", "C12", "C17")),
    "IBrokerFees": ({"interest_rate", "markup", "proportional", "fixed"}, ("C01", "C06")),
    "LogReturn": ({"clip", "risk_aversion", "scale"}, ("C07",)),
}


_OBS_MUTATORS = {"append", "appendleft", "add", "extend", "clear", "update", "insert", "setdefault"}
_PURE_CALLS = {"len", "isinstance", "bool", "float", "int", "str", "tuple", "list", "dict", "set", "abs", "repr", "id", "type", "hasattr", "callable", "min", "max", "sum", "sorted"}


def _bookkeeping_only(an, f, node, new_attrs):
    """The read `node` (an attribute that is not reviewed state) cannot influence anything the rules reviewed: it sits in a
    statement that only writes attributes that are themselves new - `self._n += x`, `self._log.append(Record(...))`, or an
    `if self._log is not None:` whose whole body is such statements - with no control transfer and no call other than pure
    builtins, read-only container methods and constructors of classes new to the inventory. (Write-only bookkeeping: an opt-in
    ledger, a counter, an audit trail.)"""
    new_classes = {c.name for c in an.prog.classes.values() if any(b.split(".")[-1] == "NamedTuple" for b in c.ext_bases)
                   or any("dataclass" in ast.unparse(d) for d in c.node.decorator_list)}      # record types: constructing one has no effect

    def is_new_target(t):
        while isinstance(t, ast.Subscript):
            t = t.value
        return isinstance(t, ast.Attribute) and t.attr in new_attrs

    def calls_ok(expr, allow_mutator_on_new=False):
        for x in ast.walk(expr):
            if isinstance(x, ast.Call):
                fn = x.func
                if isinstance(fn, ast.Name) and (fn.id in _PURE_CALLS or fn.id in new_classes):
                    continue
                if isinstance(fn, ast.Attribute) and fn.attr in ("get", "items", "keys", "values", "copy", "isEnabledFor", "debug", "_asdict", "total_seconds"):
                    continue
                if allow_mutator_on_new and isinstance(fn, ast.Attribute) and fn.attr in _OBS_MUTATORS and is_new_target(fn.value) and x is expr:
                    continue
                return False
            if isinstance(x, (ast.Await, ast.Yield, ast.YieldFrom, ast.NamedExpr)):
                return False
        return True

    locals_written = set()

    def confined(s):
        if isinstance(s, ast.Pass):
            return True
        if isinstance(s, ast.AugAssign):
            return is_new_target(s.target) and calls_ok(s.value)
        if isinstance(s, ast.AnnAssign):
            return s.value is None or (is_new_target(s.target) and calls_ok(s.value))
        if isinstance(s, ast.Assign):
            ok = calls_ok(s.value)
            for t in s.targets:
                if isinstance(t, ast.Name):
                    locals_written.add(t.id)
                elif not is_new_target(t):
                    ok = False
            return ok
        if isinstance(s, ast.Expr):
            v = s.value
            if isinstance(v, ast.Constant):
                return True
            if isinstance(v, ast.Call):
                return calls_ok(v, allow_mutator_on_new=True) and all(calls_ok(a) for a in list(v.args) + [k.value for k in v.keywords])
            return False
        if isinstance(s, ast.If):
            return calls_ok(s.test) and all(confined(b) for b in s.body + s.orelse)
        return False

    stmt = enclosing_stmt(node)
    good = None
    for c in [stmt] + [p for p in parents(stmt) if isinstance(p, ast.If)]:      # innermost first
        locals_written.clear()
        if confined(c):
            good = c
            break
    if good is None:
        return False
    # locals assigned inside the confined region are read only inside it
    inside = {id(x) for x in ast.walk(good)}
    for x in walk_function(f.node):
        if isinstance(x, ast.Name) and isinstance(x.ctx, ast.Load) and x.id in locals_written and id(x) not in inside:
            return False
    return True


def state_dependencies(ck, an, prop):
    n = 0
    new_api = _lib.new_api_functions(an)
    for cname, (reviewed, props) in REVIEWED_STATE.items():
        if prop not in props:
            continue
        c = an.prog.cls(cname)
        fam = [c] + an.prog.subclasses(c)
        known = set(reviewed)
        for k in fam + an.prog.mro(c):
            known |= set(k.methods) | set(k.class_attrs) | set(k.class_annots)
        for f in an.functions():
            for e in an.fa(f).effects():
                if e.kind != "R" or e.attr.startswith("__"):
                    continue
                par = getattr(e.node, "_parent", None)
                if isinstance(par, ast.Call) and par.func is e.node:
                    continue        # a method call (possibly inherited from an external base), not a data attribute
                owners = [o.replace("class:", "") for o in e.owner.split("|")]
                if not any(o in {k.name for k in fam} for o in owners):
                    continue
                n += 1
                if e.attr not in known:
                    if f.qual in new_api:
                        ck.ok("DEP", "S0.new-state-dependency", f.short, e.loc, f"{cname}.{e.attr} is read by {f.short}, an accessor new to the inventory that no reviewed function reaches", construct=stmt_text(e.node))
                        continue
                    fam_attrs = {e2.attr for g in an.functions() for e2 in an.fa(g).effects() if e2.attr not in known and not e2.attr.startswith("__")
                                 and any(o.replace("class:", "") in {k.name for k in fam} for o in e2.owner.split("|"))}
                    if _bookkeeping_only(an, f, e.node, fam_attrs):
                        ck.ok("DEP", "S0.new-state-dependency", f.short, e.loc, f"{cname}.{e.attr} is read only to update write-only bookkeeping ({stmt_text(enclosing_stmt(e.node))[:60]})", construct=stmt_text(e.node))
                        continue
                    ck.fail("DEP", "S0.new-state-dependency", f.short, e.loc,
                            f"{f.short} reads {cname}.{e.attr}, a data attribute that is not part of the reviewed state of {cname}: a memo / cache / flag now influences the result "
                            f"(reviewed: {sorted(reviewed)[:12]}...)", construct=stmt_text(e.node))
    if n:
        ck.ok("DEP", "S0.new-state-dependency", "package", "tradingenv/", f"{n} attribute reads of the mechanism classes stay within the reviewed state", construct="reviewed state")
    return n
