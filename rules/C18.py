"""C18 — The tabular environment serves the data it was given (structural part)."""
import ast
import re
from sa.lib import *
from sa.forward import Forward
from sa.dataflow import Poly, cmp_key
from sa.resolve import walk_function

TECHNIQUE = "static analysis (ast): value-id comparison of the tabular environment's data path and parent configuration with a reference implementation (same normaliser, pandas in-place calls as redefinitions), polynomial check of quote-from-price, CFG / typestate rules for the observation queue"
EXPLANATION = (
    "Decides necessary structural clauses of C18, far from sufficient for the contents served: (S1) Transmitter.add_prices emits, for every price of every column with only the "
    "missing ones (NaN) dropped, a quote with ask - bid = price x spread and (ask + bid) / 2 = price, stamped with the row's time and the column's contract, and never stores into / edits in place the table it was given (labels, times, cells); _make_transmitter adds "
    "each price column with the configured spread and the rate frame with none; (S2) the table published as self.X is, by value id, the very table handed to the transmitter "
    "(likewise Y; pandas in-place calls count as redefinitions); observation events are built from every row of X; (S3) _make_timesteps derives the steps from Y's index on the "
    "common valid range, minus the exchange calendar's holidays, skipping the first `window` dates; (S4) State declares shape (window or ceil(window/stride), n), keeps a "
    "deque(maxlen=window) that is pre-filled to capacity on the first event, and parse concatenates it and thins it from the most recent row backwards; (S5/S6) the data path of "
    "TradingEnvXY.__init__ equals, value id by value id, a reference implementation kept with the rule: start / end clamped to the price table, re-index on the union of dates, "
    "transform up to `end`, forward fill, zero fill, symmetric clip, warm-up trimming to window - 1 rows, Y and the rate restricted to [start, end], and every argument of the parent "
    "constructor (action space, State(n, window, stride, max_=5), reward, transmitter, fee schedule ...); Transmitter(timesteps, folds, markov reset iff window == 1, warm-up 3 + 2 x "
    "window days); the history / per-step batches handed out are the filed events in time order (C04 clauses)."
)
DECIDED = ["S1 quotes are the given prices widened by the spread", "S2 the served feature table is the published one", "S3 steps only on non-holiday price dates after a full window",
           "S4 declared shape = served shape", "S5 forward-fill only, symmetric clip", "S6 warm-up horizon covers the window / configuration plumbing"]
NOT_DECIDED = ["the contents of observations and quotes at each step (data)", "index-range corner cases of the start / warm-up arithmetic", "behaviour when clip exceeds the hard-coded observation bound 5",
               "third-party transformer / calendar behaviour"]
ASSUMPTIONS = ["pandas iterrows yields every row in index order; DataFrame.drop(labels).index removes exactly those labels; numpy x[::-s][::-1] keeps every s-th row counted from the last one"]


def run(ck, an, tier):
    s1(ck, an)
    s2(ck, an)
    s3(ck, an)
    s4(ck, an)
    verified(ck, an)
    xy_init(ck, an)
    s6(ck, an)
    from rules import C04
    from sa.report import Renamed
    C04.nxt(Renamed(ck, "C04:"), an)      # with window > 1 the first observation is assembled from the warm-up history: the batches handed out (history and per step) are the filed events, in time order, unaltered


def s1(ck, an):
    fa = an.fa("Transmitter.add_prices")
    subj = fa.f.short
    evs = [c for c in walk_function(fa.f.node) if isinstance(c, ast.Call) and fa.sym.canon(c.func) == "EventNBBO"]
    ck.floor("EventNBBO constructions in add_prices", len(evs), 1)
    # the table of prices itself (labels included) is served as given: nothing re-labels, re-indexes or edits it on the way to
    # the rows the quotes are made from (the value ids of the rows are over `prices`: a store INTO it would not show in them)
    pp_ = fa.f.params[1]
    tables = {pp_} | {d.var for d in fa.rd.defs if d.kind in ("assign", "ann") and d.value is not None and re.search(r"\b%s\b" % re.escape(pp_), fa.sym.canon(d.value, d.node)) is not None}
    edits = []
    for n in walk_function(fa.f.node):
        tg = None
        if isinstance(n, (ast.Attribute, ast.Subscript)) and isinstance(n.ctx, (ast.Store, ast.Del)):
            root = n
            while isinstance(root, (ast.Attribute, ast.Subscript)):
                root = root.value
            if isinstance(root, ast.Name) and root.id in tables:
                tg = n
        elif isinstance(n, ast.Call) and isinstance(n.func, ast.Attribute) and any(k.arg == "inplace" and const_value(k.value) is True for k in n.keywords):
            root = n.func.value
            while isinstance(root, (ast.Attribute, ast.Subscript)):
                root = root.value
            if isinstance(root, ast.Name) and root.id in tables and n.func.attr != "dropna":
                tg = n
        if tg is not None:
            edits.append(tg)
    for tg in edits:
        ck.fail("EFFECT", "S1.prices-table-untouched", subj, fa.loc(tg), f"add_prices edits the table it was given ({ast.unparse(tg)[:60]}): labels / times / values of the quotes no longer are the ones given", construct=stmt_text(tg))
    if not edits:
        ck.ok("EFFECT", "S1.prices-table-untouched", subj, fa.f.loc, "add_prices does not store into the given table (index, columns, cells) nor edit it in place; only missing prices are dropped", construct="prices table")
    info = {}

    def on_stmt(s, fw):
        for c in evs:
            if any(c is x for x in ast.walk(s)) and isinstance(s, (ast.Assign, ast.Expr)):
                kw = {k.arg: fw.ev(k.value) for k in c.keywords}
                ctor = an.prog.func("EventNBBO.__init__")
                for i, a in enumerate(c.args):
                    kw[ctor.params[1 + i]] = fw.ev(a)
                info[id(c)] = (kw, fw.st.copy(), fw)
    Forward(an, fa, on_stmt=on_stmt, call_effects=False).run()
    for c in evs:
        if id(c) not in info:
            ck.fail("LIN", "S1.quote-from-price", subj, fa.loc(c), "EventNBBO is not built in a plain statement", construct=stmt_text(c))
            continue
        kw, st, fw = info[id(c)]
        loops = [p for p in parents(c) if isinstance(p, ast.For)]
        inner = loops[0] if loops else None
        tn = [e.id for e in inner.target.elts] if inner is not None and isinstance(inner.target, ast.Tuple) else ["time", "price"]
        price = st.locals.get(tn[1])
        spread = Poly.atom(fa.f.params[2])
        bid, ask = kw.get("bid_price"), kw.get("ask_price")
        ok = bid is not None and ask is not None and price is not None and ask - bid == price * spread and (ask + bid) == price + price
        ck.check(ok, "LIN", "S1.quote-from-price", subj, fa.loc(c), "ask - bid = price x spread and (ask + bid)/2 = price",
                 f"bid = {bid.key() if bid is not None else '?'}, ask = {ask.key() if ask is not None else '?'} for price {price.key() if price is not None else '?'}", construct=stmt_text(c))
        t = kw.get("time")
        ck.check(t is not None and st.locals.get(tn[0]) is not None and t == st.locals[tn[0]], "ARGFLOW", "S1.quote-time", subj, fa.loc(c), "the quote is stamped with the row's time", f"quote time is {t.key() if t is not None else '?'}",
                 construct=stmt_text(c))
        ct = kw.get("contract")
        outer = loops[-1] if loops else None
        ck.check(ct is not None and outer is not None and isinstance(outer.target, ast.Name) and ct == st.locals.get(outer.target.id), "ARGFLOW", "S1.quote-contract", subj, fa.loc(c), "the quote is for the column's contract",
                 f"quote contract is {ct.key() if ct is not None else '?'}", construct=stmt_text(c))
        if inner is not None:
            it = fa.sym.canon(inner.iter)
            pp = fa.f.params[1]
            cv = outer.target.id if outer is not None and isinstance(outer.target, ast.Name) else "None"
            at_i = fa.cfg.entry.id
            rows = []
            for col in (f"{pp}.astype(float)[{{c}}]", f"{pp}[{{c}}].astype(float)"):
                for drop in (".dropna(inplace=True)", ".dropna()"):
                    rows.append(col + drop + ".items()")
                    rows.append(f"zip({col + drop}.index, {col + drop})")        # a Series iterates over its values: the same (label, value) pairs
            # the column's rows, by value id: the given prices as floats, with ONLY the missing ones dropped (a zero or any other price is a quote)
            cn = loop_item(fa, outer).key() if outer is not None and outer is not inner and isinstance(outer.target, ast.Name) else "?"
            wants = [fa.sym.canon(ast.parse(t.format(c="__col__"), mode="eval").body, at_i).replace("__col__", cn) for t in rows]
            ck.check(it in wants and not any(isinstance(x, (ast.If, ast.Continue, ast.Break)) for x in ast.walk(inner)), "ARGFLOW", "S1.every-price-row", subj, fa.loc(inner),
                     "every (time, price) of the column yields a quote; only missing prices (NaN) are dropped",
                     f"the row loop ranges over {it[:160]} or filters rows; specified {wants[0][:160]}", construct=stmt_text(inner))
        if outer is not None and outer is not inner:
            ck.check(fa.sym.canon(outer.iter).endswith(".columns") and not any(isinstance(x, (ast.Continue, ast.Break)) for x in ast.walk(outer)), "ARGFLOW", "S1.every-price-column", subj, fa.loc(outer), "every column yields quotes",
                     "the column loop skips columns", construct=stmt_text(outer))
    apps = [c for c in fa.calls_named("append") if ast.unparse(c.func.value) == "self.events"]
    ck.check(len(apps) == 1 and len(evs) == 1, "PATHCOUNT", "S1.quote-recorded", subj, fa.f.loc, "each quote built is appended to the event list once", f"{len(apps)} appends for {len(evs)} quotes", construct="self.events.append(event)")
    d = fa.f.param_default(fa.f.params[2])
    ck.check(const_value(d) == 0, "CONST", "S1.spread-default-zero", subj, fa.f.loc, "add_prices applies no spread by default", f"default spread is {ast.unparse(d) if d else None}", construct="spread=0")
    # _make_transmitter plumbing
    fm = an.fa("TradingEnvXY._make_transmitter")
    aps = [c for c in fm.calls_named("add_prices")]
    y_ok = r_ok = False
    for c in aps:
        at_c = fm.node_of(c).id
        a0 = fm.sym.canon(c.args[0], at_c) if c.args else ""
        rest = [fm.sym.canon(a, at_c) for a in c.args[1:]] + [f"{k.arg}={fm.sym.canon(k.value, at_c)}" for k in c.keywords]
        lp = next((p for p in parents(c) if isinstance(p, ast.For)), None)
        if lp is not None and fm.sym.canon(lp.iter) == "Y.columns" and isinstance(lp.target, ast.Name) and a0 == specv(fm, f"Y[[{lp.target.id}]]", at_c).key() and rest in (["spread"], ["spread=spread"]):
            y_ok = True
        if a0 == "rate.to_frame()" and not rest and lp is None:
            r_ok = True
    ck.check(y_ok, "ARGFLOW", "S1.prices-with-configured-spread", fm.f.short, fm.f.loc, "each price column is added with the configured spread", "price columns are not added as add_prices(Y[[name]], spread) for every column",
             construct="transmitter.add_prices(Y[[name]], spread)")
    ck.check(r_ok, "ARGFLOW", "S1.rate-without-spread", fm.f.short, fm.f.loc, "the reference rate is added as given, with no spread", "the rate frame is not added as add_prices(rate.to_frame())", construct="transmitter.add_prices(rate.to_frame())")



# Reference implementation of the data path of TradingEnvXY.__init__ (what is transformed, filled, clipped, trimmed and
# handed to the parent constructor). Compared with the code through value ids: both texts go through the same normaliser, so
# local names, temporaries, `if/else` vs conditional expressions, `x op= e` vs `x = x op e`, mirrored comparisons and inverted
# branches do not matter; pandas in-place calls (`X.ffill(inplace=True)`) count as a redefinition of the table.
REF_XY_INIT = """
def __init__({sig}):
    if isinstance(start, str):
        start = pd.to_datetime(start)
    start = start or Y.first_valid_index()
    start = max(start, Y.first_valid_index())
    if isinstance(end, str):
        end = pd.to_datetime(end)
    end = end or Y.last_valid_index()
    end = min(end, Y.last_valid_index())
    transformer_end = transformer_end or end
    if reward == 'logret':
        scale = np.log(pd.DataFrame(Y).loc[:transformer_end]).diff().std().mean().item()
        reward = LogReturn(scale=float(scale), clip=reward_clipping, risk_aversion=risk_aversion)
    else:
        raise NotImplementedError()
    X = X.reindex(X.index.union(Y.index), fill_value=np.nan)
    X = self.transformer.transform(X.loc[:end])
    X.ffill(inplace=True)
    X.fillna(0., inplace=True)
    X.clip(-clip, clip, inplace=True)
    t0 = X.loc[start:end].first_valid_index()
    t0_idx = X.index.get_loc(t0)
    t0_warmup_idx = t0_idx - window + 1
    if t0_warmup_idx >= 0:
        pass
    else:
        start = Y.loc[start:end].iloc[abs(t0_warmup_idx):].first_valid_index()
        t0 = X.loc[start:end].first_valid_index()
        t0_idx = X.index.get_loc(t0)
        t0_warmup_idx = t0_idx - window + 1
    X = X.iloc[t0_warmup_idx:]
    Y = pd.DataFrame(Y).loc[start:end]
    if rate is None:
        rate = pd.Series(name='Zero Rate', dtype=float)
    rate = rate.squeeze().loc[start:end]
    super().__init__(
        action_space=BoxPortfolio(Y.columns, max_short, max_long, margin=margin),
        state=State(X.columns.size, window, stride, max_=5),
        reward=reward,
        transmitter=self._make_transmitter(X, Y, calendar, spread, rate, folds, window),
        broker_fees=BrokerFees(markup, rate.name, fee, fixed),
        initial_cash=cash, latency=latency, steps_delay=steps_delay, episode_length=episode_length, sampling_span=sampling_span)
    self.X = X
    self.Y = Y
"""


def _super_init_call(fa):
    cs = [c for c in walk_function(fa.f.node) if isinstance(c, ast.Call) and ast.unparse(c.func) == "super().__init__"]
    return cs[0] if len(cs) == 1 else None


def xy_init(ck, an):
    fi = an.fa("TradingEnvXY.__init__")
    subj = fi.f.short
    ref = reference(fi, REF_XY_INIT.format(sig=ast.unparse(fi.f.node.args)))
    ca, cb = _super_init_call(fi), _super_init_call(ref)
    if ca is None:
        ck.fail("ARGFLOW", "S6.env-config", subj, fi.f.loc, "TradingEnvXY does not call super().__init__ once", construct="super().__init__(...)")
        return
    ka = {k.arg: fi.sym.canon(k.value, fi.node_of(ca).id) for k in ca.keywords}
    kb = {k.arg: ref.sym.canon(k.value, ref.node_of(cb).id) for k in cb.keywords}
    ck.check(not ca.args and set(ka) == set(kb), "ARGFLOW", "S6.env-config", subj, fi.loc(ca), "the parent environment is configured through the same keyword arguments", f"super().__init__ receives {sorted(ka)}; specified {sorted(kb)}",
             construct="super().__init__(...)")
    names = {"transmitter": ("S1.transmitter-arguments", "the transmitter is built from the served X, the given Y restricted to [start, end], the calendar, the configured spread, the given rate, folds and window"),
             "state": ("S5.state-arguments", "State(n features, window, stride, max_=5)")}
    for k, w in kb.items():
        name, what = names.get(k, (f"S6.env-config-{k}", f"{k} is built from the given arguments"))
        g = ka.get(k)
        ck.check(g == w, "ARGFLOW", name, subj, fi.loc(ca), what, f"{k} = {str(g)[:300]}; specified {w[:300]}", construct=f"{k}=...", witness=[f"got       {g}", f"specified {w}"])
    # the tables published are the ones specified, and the very ones served
    mt = [c for c in fi.calls_named("_make_transmitter")]
    for i_, tbl in enumerate(("X", "Y")):
        pub, want = stored_attr_under(fi, tbl), stored_attr_under(ref, tbl)
        clause = "S5.feature-pipeline" if tbl == "X" else "S6.price-range"
        what = ("features: re-indexed on the union of both date indices, transformed up to `end`, forward filled, zero filled, clipped to [-clip, +clip], trimmed to window - 1 rows before the first served date"
                if tbl == "X" else "prices are the given prices restricted to [start, end] (start postponed until a full window of features exists)")
        ck.check(pub is not None and pub == want, "LIN", clause, subj, fi.f.loc, what, f"self.{tbl} = {str(pub)[:300]}; specified {str(want)[:300]}", construct=f"self.{tbl} = {tbl}",
                 witness=[f"got       {pub}", f"specified {want}"])
        served = fi.sym.canon(mt[0].args[i_], fi.node_of(mt[0]).id) if len(mt) == 1 and len(mt[0].args) > i_ else None
        ck.check(pub is not None and pub == served, "ARGFLOW", f"S2.published-{tbl}-is-served-{tbl}", subj, fi.f.loc, f"self.{tbl} is the very table the transmitter was built from (same value, nothing applied in between)",
                 f"self.{tbl} differs from the table served", construct=f"self.{tbl} = {tbl}", witness=[f"published {pub}", f"served    {served}"])
    # attribute stores on the local tables (not part of a value id): the contracts
    for tgt, text, name, what in (("Y.columns", "[Asset(c) for c in Y.columns]", "S6.one-asset-per-column", "each price column becomes an Asset contract"),
                                  ("rate.name", "Rate(rate.name)", "S6.rate-contract", "the rate series is keyed by a Rate contract (the one the fee schedule reads)")):
        st_ = [x for x in all_stmts(fi) if isinstance(x, ast.Assign) and len(x.targets) == 1 and ast.unparse(x.targets[0]) == tgt]
        ok = len(st_) == 1 and fi.sym.canon(st_[0].value, fi.node_of(st_[0]).id) == specv(fi, text, fi.node_of(st_[0]).id).key() and not fi.syntactic_guards(st_[0])
        ck.check(ok, "ARGFLOW", name, subj, fi.f.loc, what, f"{tgt} is not {text}", construct=f"{tgt} = {text}")
        if ok and ca is not None:
            ord_before(ck, fi, name + "-before-use", st_, [ca], f"the store of {tgt}", "building the environment")
    d = fi.f.param_default("clip")
    ck.check(const_value(d) == 5.0, "CONST", "S5.clip-default-within-bound", subj, fi.f.loc, "default clip (5) equals the declared observation bound", f"default clip is {ast.unparse(d) if d else None}", construct="clip=5.")


def s2(ck, an):
    fm = an.fa("TradingEnvXY._make_transmitter")
    # by value id: some add_events call receives exactly one EventNewObservation(t, row) per row of X (comprehension, loop, starmap, temporaries alike)
    ok = False
    xp = fm.f.params[1]
    for c in fm.calls_named("add_events"):
        if not c.args:
            continue
        at_ = fm.node_of(c).id
        got_ = fm.sym.canon(c.args[0], at_)
        want_ = fm.sym.canon(ast.parse(f"[EventNewObservation(t, x) for t, x in {xp}.iterrows()]", mode="eval").body, at_)
        if got_ == want_:
            ok = True
    ck.check(ok, "ARGFLOW", "S2.one-observation-per-row", fm.f.short, fm.f.loc, "one EventNewObservation(t, row) per row of X, all added to the transmitter", "observation events are not built from every row of X",
             construct="events = [EventNewObservation(t, x) for t, x in X.iterrows()]")


def s3(ck, an):
    fa = an.fa("TradingEnvXY._make_timesteps")
    subj = fa.f.short
    rets = returns_in(fa)
    k = fa.sym.canon(rets[0].value) if len(rets) == 1 else "?"
    want = fa.sym.canon(ast.parse("Y.loc[max(X.first_valid_index(), Y.first_valid_index()):min(X.last_valid_index(), Y.last_valid_index())].drop([t for t in pandas_market_calendars.get_calendar(calendar).holidays().holidays "
                                   "if t in Y.loc[max(X.first_valid_index(), Y.first_valid_index()):min(X.last_valid_index(), Y.last_valid_index())].index]).index[window:]", mode="eval").body, fa.cfg.entry.id) if rets else "?"
    ck.check(k == want, "DEP", "S3.steps-from-price-dates-minus-holidays", subj, fa.f.loc,
             "steps = index of Y restricted to the common valid range, minus the calendar's holidays present in it, skipping the first `window` dates",
             f"_make_timesteps returns {k[:260]}; specified {want[:260]}", construct="_make_timesteps")
    fm = an.fa("TradingEnvXY._make_transmitter")
    ts = [c for c in fm.calls_named("_make_timesteps")]
    ok = len(ts) == 1 and [ast.unparse(a) for a in ts[0].args] == ["X", "Y", "calendar", "window"]
    ck.check(ok, "ARGFLOW", "S3.timesteps-arguments", fm.f.short, fm.f.loc, "timesteps are computed from X, Y, the calendar and the window", "the arguments of _make_timesteps changed", construct="self._make_timesteps(X, Y, calendar, window)")
    tr = [c for c in walk_function(fm.f.node) if isinstance(c, ast.Call) and fm.sym.canon(c.func) == "Transmitter"]
    ok = len(tr) == 1 and [fm.sym.canon(a) for a in tr[0].args][:1] == [fm.sym.canon(ts[0])] if ts else False
    ck.check(ok, "ARGFLOW", "S3.transmitter-on-those-steps", fm.f.short, fm.f.loc, "the transmitter's grid is exactly those timesteps", "the transmitter is not built on the computed timesteps", construct="Transmitter(timesteps, ...)")


REF_STATE_INIT = """
def __init__({sig}):
    try:
        list(features)
    except TypeError:
        n = features
    else:
        n = len(features)
    m = window if stride is None else math.ceil(window / stride)
    self.space = gymnasium.spaces.Box(-max_, max_, (m, n), float)
    self.queue = deque(maxlen=window)
    self.stride = stride
"""


def s4(ck, an):
    fi = an.fa("State.__init__")
    subj = fi.f.short
    ref = reference(fi, REF_STATE_INIT.format(sig=ast.unparse(fi.f.node.args)))
    for attr, name, what in (("space", "S4.declared-shape", "declared space is Box(-max_, max_, (window or ceil(window / stride), number of features))"),
                             ("queue", "S4.queue-capacity-window", "the window queue is deque(maxlen=window)"), ("stride", "S4.stride-config", "stride is the configured stride")):
        got, want = stored_attr_under(fi, attr), stored_attr_under(ref, attr)
        ck.check(got is not None and got == want, "LIN", name, subj, fi.f.loc, what, f"self.{attr} = {str(got)[:200]}; specified {str(want)[:200]}", construct=f"self.{attr} = ...")
    fp = an.fa("State.process_EventNewObservation")
    ev = fp.f.params[1]
    pre = [n for n in walk_function(fp.f.node) if isinstance(n, ast.For)]
    ok = False
    for lp in pre:
        sg = fp.syntactic_guards(lp.body[0]) if lp.body else []
        if fp.sym.canon(lp.iter) == "range(self.queue.maxlen)" and any(p[0] == "is" and "None" in (p[1], p[2]) and "self.last_event" in (p[1], p[2]) and p[3] for p in sg):
            # the loop body appends the event's row (possibly via a temporary) and does nothing else to the queue
            apps_ = [c for c in ast.walk(lp) if isinstance(c, ast.Call) and isinstance(c.func, ast.Attribute) and c.func.attr == "append" and fp.sym.canon(c.func.value) == "self.queue"]
            others_ = [b for b in lp.body if not isinstance(b, (ast.Assign, ast.Pass)) and not (isinstance(b, ast.Expr) and any(b.value is c for c in apps_))]
            ok = len(apps_) == 1 and not others_ and len(apps_[0].args) == 1 and fp.sym.canon(apps_[0].args[0]) == specv(fp, f"[{ev}.to_list()]").key()
    ck.check(ok, "PATHCOUNT", "S4.prefill-on-first-event", fp.f.short, fp.f.loc, "on the first observation the queue is filled to capacity with that observation (a full window is always served)",
             "the queue is not pre-filled to maxlen on the first observation", construct="if self.last_event is None: for _ in range(self.queue.maxlen): self.queue.append([...])")
    le = [s for s in assigns_to_attr(fp, "last_event")]
    ck.check(bool(le) and all(isinstance(s, ast.Assign) and fp.sym.canon(s.value) == ev and not fp.syntactic_guards(s) for s in le), "ARGFLOW", "S4.last-event-tracked", fp.f.short, fp.f.loc, "last_event is set on every observation",
             "last_event is not set unconditionally", construct="self.last_event = event")
    fq = an.fa("State.parse")
    rets = returns_in(fq)
    STRIDE = ("truthy", "self.stride", True)
    tabp = decision_table(fq, [STRIDE], lambda fw_, events: sorted({v.key() for r_, v, st_ in fw_.returns if v is not None}))      # the stride test may be written either way round
    with_stride, no_stride = tabp[(True,)], tabp[(False,)]
    ck.check(no_stride == ["np.concatenate(self.queue)"], "LIN", "S4.serves-whole-window", fq.f.short, fq.f.loc, "without stride the observation is the concatenated window, oldest first", f"parse returns {no_stride}", construct="x = np.concatenate(self.queue)")
    ck.check(with_stride == ["(np.concatenate(self.queue)[::-self.stride])[::-1]"] or with_stride == ["np.concatenate(self.queue)[::-self.stride][::-1]"], "LIN", "S4.stride-from-most-recent", fq.f.short, fq.f.loc,
             "with stride the window is thinned from the most recent row backwards and flipped back: [::-stride][::-1]", f"parse (stride) returns {with_stride}", construct="x = x[::-self.stride][::-1]")
    fe = an.fa("EventNewObservation.to_list")
    r = [fe.sym.canon(x.value) for x in returns_in(fe)]
    ck.check(r == ["list(self.data.values())"], "ARGFLOW", "S4.row-values-in-column-order", fe.f.short, fe.f.loc, "an observation row is the list of the event's values in column order", f"to_list returns {r}", construct="return list(self.data.values())")


def verified(ck, an):
    """Observations are checked against the declared space before they are returned."""
    fc = an.fa("IState.__call__")
    ok = False
    for r in raises_in(fc):
        sg = fc.syntactic_guards(r)
        if any(p[0] == "in" and p[2] == "self.space" and not p[3] for p in sg) and any(p[0] == "truthy" and p[1] == fc.f.params[1] and p[2] for p in sg):
            ok = True
    ck.check(ok, "GUARD", "S4.observation-verified-against-space", fc.f.short, fc.f.loc, "with verify=True an observation outside the declared space raises", "IState.__call__ no longer rejects observations outside the declared space",
             construct="if verify and self.space is not None: if state not in self.space: raise")
    d = fc.f.param_default(fc.f.params[1])
    ck.check(const_value(d) is True, "CONST", "S4.verify-default", fc.f.short, fc.f.loc, "verification is on by default", f"verify default is {ast.unparse(d) if d else None}", construct="verify=True")
    fe = an.fa("TradingEnv.__init__")
    vs = [s_ for s_ in assigns_to_attr(fe, "_verify_state")]
    on = [s_ for s_ in vs if isinstance(s_, ast.Assign) and const_value(s_.value) is True and not fe.syntactic_guards(s_)]
    off = [s_ for s_ in vs if isinstance(s_, ast.Assign) and const_value(s_.value) is not True]
    ck.check(bool(on) and all(any(p[0] == "truthy" and p[1] == "fit_transformers" and p[2] for p in fe.syntactic_guards(s_)) for s_ in off), "GUARD", "S4.env-verifies-state", fe.f.short, fe.f.loc,
             "the environment verifies states unless transformers were fitted", "state verification is switched off outside the fit_transformers branch", construct="self._verify_state = True")
    for short in ("TradingEnv.reset", "TradingEnv.step"):
        f2 = an.fa(short)
        cs = [c for c in f2.calls_to("IState.__call__") if isinstance(c, ast.Call)]
        ck.check(bool(cs) and all([f2.sym.canon(a) for a in c.args] == ["self._verify_state"] for c in cs), "ARGFLOW", "S4.state-called-with-verify-flag", f2.f.short, f2.f.loc, "the state is produced with the environment's verify flag",
                 "state() is not called with self._verify_state", construct="self.state(self._verify_state)")


REF_MAKE_TRANSMITTER = """
def _make_transmitter({sig}):
    markov_reset = window == 1
    warmup = None if markov_reset else timedelta(days=3 + window * 2)
    timesteps = self._make_timesteps(X, Y, calendar, window)
    transmitter = Transmitter(timesteps, folds, markov_reset, warmup)
"""


def s6(ck, an):
    fm = an.fa("TradingEnvXY._make_transmitter")
    ref = reference(fm, REF_MAKE_TRANSMITTER.format(sig=ast.unparse(fm.f.node.args)))

    def ctor(fa):
        cs = [c for c in walk_function(fa.f.node) if isinstance(c, ast.Call) and fa.sym.canon(c.func) == "Transmitter"]
        return fa.sym.canon(cs[0], fa.node_of(cs[0]).id) if len(cs) == 1 else None
    got, want = ctor(fm), ctor(ref)
    ck.check(got is not None and got == want, "LIN", "S6.transmitter-config", fm.f.short, fm.f.loc,
             "Transmitter(the computed timesteps, folds, markov reset iff window == 1, warm-up horizon = 3 + 2 x window days or None under markov reset)",
             f"the transmitter is built as {str(got)[:300]}; specified {str(want)[:300]}", construct="Transmitter(timesteps, folds, markov_reset, warmup)", witness=[f"got       {got}", f"specified {want}"])
