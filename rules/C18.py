"""C18 — The tabular environment serves the data it was given (structural part)."""
import ast
from sa.lib import *
from sa.forward import Forward
from sa.dataflow import Poly, cmp_key
from sa.resolve import walk_function

EXPLANATION = (
    "Decides necessary structural clauses of C18, far from sufficient for the contents served: (S1) Transmitter.add_prices emits, for every non-missing price, a "
    "quote with ask - bid = price x spread and (ask + bid) / 2 = price, stamped with the row's time and the column's contract; _make_transmitter adds each price "
    "column with the configured spread and the rate frame with none; (S2) the feature table handed to the transmitter is the very table published as self.X (same "
    "definition, no statement in between), likewise Y; observation events are built from every row of X; (S3) _make_timesteps derives the steps from Y's index, minus "
    "the exchange calendar's holidays, skipping the first `window` dates; (S4) State declares shape (window or ceil(window/stride), n), keeps a deque(maxlen=window) that "
    "is pre-filled to capacity on the first event, and parse concatenates it and thins it from the most recent row backwards ([::-stride][::-1]); (S5) transform, then "
    "forward fill, then zero fill, then a symmetric clip(-clip, +clip); the observation bound is the constant 5; (S6) warm-up horizon 3 + 2 x window days unless "
    "window == 1 (markov reset); the action space, fee schedule and rate contract are built from the given arguments."
)
DECIDED = ["S1 quotes are the given prices widened by the spread", "S2 the served feature table is the published one", "S3 steps only on non-holiday price dates after a full window",
           "S4 declared shape = served shape", "S5 forward-fill only, symmetric clip", "S6 warm-up horizon covers the window / configuration plumbing"]
NOT_DECIDED = ["the contents of observations and quotes at each step (data)", "index-range corner cases of the start / warm-up arithmetic", "behaviour when clip exceeds the hard-coded observation bound 5",
               "third-party transformer / calendar behaviour"]
ASSUMPTIONS = ["pandas iterrows yields every row in index order; DataFrame.drop(labels).index removes exactly those labels; numpy x[::-s][::-1] keeps every s-th row counted from the last one"]


def run(ck, an, tier):
    s1(ck, an)
    s2(ck, an)
    s3(ck, an)
    s4(ck, an)
    verified(ck, an)
    s5(ck, an)
    s6(ck, an)


def s1(ck, an):
    fa = an.fa("Transmitter.add_prices")
    subj = fa.f.short
    evs = [c for c in walk_function(fa.f.node) if isinstance(c, ast.Call) and fa.sym.canon(c.func) == "EventNBBO"]
    ck.floor("EventNBBO constructions in add_prices", len(evs), 1)
    info = {}

    def on_stmt(s, fw):
        for c in evs:
            if any(c is x for x in ast.walk(s)) and isinstance(s, (ast.Assign, ast.Expr)):
                kw = {k.arg: fw.ev(k.value) for k in c.keywords}
                ctor = an.prog.func("EventNBBO.__init__")
                for i, a in enumerate(c.args):
                    kw[ctor.params[1 + i]] = fw.ev(a)
                info[id(c)] = (kw, fw.st.copy(), fw)
    Forward(an, fa, on_stmt=on_stmt, call_effects=False).run()
    for c in evs:
        if id(c) not in info:
            ck.fail("LIN", "S1.quote-from-price", subj, fa.loc(c), "EventNBBO is not built in a plain statement", construct=stmt_text(c))
            continue
        kw, st, fw = info[id(c)]
        loops = [p for p in parents(c) if isinstance(p, ast.For)]
        inner = loops[0] if loops else None
        tn = [e.id for e in inner.target.elts] if inner is not None and isinstance(inner.target, ast.Tuple) else ["time", "price"]
        price = st.locals.get(tn[1])
        spread = Poly.atom(fa.f.params[2])
        bid, ask = kw.get("bid_price"), kw.get("ask_price")
        ok = bid is not None and ask is not None and price is not None and ask - bid == price * spread and (ask + bid) == price + price
        ck.check(ok, "LIN", "S1.quote-from-price", subj, fa.loc(c), "ask - bid = price x spread and (ask + bid)/2 = price",
                 f"bid = {bid.key() if bid is not None else '?'}, ask = {ask.key() if ask is not None else '?'} for price {price.key() if price is not None else '?'}", construct=stmt_text(c))
        t = kw.get("time")
        ck.check(t is not None and st.locals.get(tn[0]) is not None and t == st.locals[tn[0]], "ARGFLOW", "S1.quote-time", subj, fa.loc(c), "the quote is stamped with the row's time", f"quote time is {t.key() if t is not None else '?'}",
                 construct=stmt_text(c))
        ct = kw.get("contract")
        outer = loops[-1] if loops else None
        ck.check(ct is not None and outer is not None and isinstance(outer.target, ast.Name) and ct == st.locals.get(outer.target.id), "ARGFLOW", "S1.quote-contract", subj, fa.loc(c), "the quote is for the column's contract",
                 f"quote contract is {ct.key() if ct is not None else '?'}", construct=stmt_text(c))
        if inner is not None:
            it = fw.canon(inner.iter) if False else fa.sym.canon(inner.iter)
            ck.check(it.endswith(".items()") and not any(isinstance(x, (ast.If, ast.Continue, ast.Break)) for x in ast.walk(inner)), "ARGFLOW", "S1.every-price-row", subj, fa.loc(inner), "every (time, price) of the column yields a quote",
                     f"the row loop ranges over {it[:60]} or filters rows", construct=stmt_text(inner))
        if outer is not None and outer is not inner:
            ck.check(fa.sym.canon(outer.iter).endswith(".columns") and not any(isinstance(x, (ast.Continue, ast.Break)) for x in ast.walk(outer)), "ARGFLOW", "S1.every-price-column", subj, fa.loc(outer), "every column yields quotes",
                     "the column loop skips columns", construct=stmt_text(outer))
    apps = [c for c in fa.calls_named("append") if ast.unparse(c.func.value) == "self.events"]
    ck.check(len(apps) == 1 and len(evs) == 1, "PATHCOUNT", "S1.quote-recorded", subj, fa.f.loc, "each quote built is appended to the event list once", f"{len(apps)} appends for {len(evs)} quotes", construct="self.events.append(event)")
    d = fa.f.param_default(fa.f.params[2])
    ck.check(const_value(d) == 0, "CONST", "S1.spread-default-zero", subj, fa.f.loc, "add_prices applies no spread by default", f"default spread is {ast.unparse(d) if d else None}", construct="spread=0")
    # _make_transmitter plumbing
    fm = an.fa("TradingEnvXY._make_transmitter")
    aps = [c for c in fm.calls_named("add_prices")]
    y_ok = r_ok = False
    for c in aps:
        a0 = ast.unparse(c.args[0]) if c.args else ""
        rest = [ast.unparse(a) for a in c.args[1:]] + [f"{k.arg}={ast.unparse(k.value)}" for k in c.keywords]
        lp = next((p for p in parents(c) if isinstance(p, ast.For)), None)
        if lp is not None and ast.unparse(lp.iter) == "Y.columns" and a0 == f"Y[[{lp.target.id}]]" and rest in (["spread"], ["spread=spread"]):
            y_ok = True
        if a0 == "rate.to_frame()" and not rest and lp is None:
            r_ok = True
    ck.check(y_ok, "ARGFLOW", "S1.prices-with-configured-spread", fm.f.short, fm.f.loc, "each price column is added with the configured spread", "price columns are not added as add_prices(Y[[name]], spread) for every column",
             construct="transmitter.add_prices(Y[[name]], spread)")
    ck.check(r_ok, "ARGFLOW", "S1.rate-without-spread", fm.f.short, fm.f.loc, "the reference rate is added as given, with no spread", "the rate frame is not added as add_prices(rate.to_frame())", construct="transmitter.add_prices(rate.to_frame())")
    fi = an.fa("TradingEnvXY.__init__")
    mt = [c for c in fi.calls_named("_make_transmitter")]
    for c in mt:
        args = [ast.unparse(a) for a in c.args]
        ck.check(args == ["X", "Y", "calendar", "spread", "rate", "folds", "window"], "ARGFLOW", "S1.transmitter-arguments", fi.f.short, fi.loc(c), "the transmitter is built from X, Y, calendar, spread, rate, folds, window",
                 f"_make_transmitter({', '.join(args)})", construct=stmt_text(c))


def s2(ck, an):
    fi = an.fa("TradingEnvXY.__init__")
    subj = fi.f.short
    mt = [c for c in fi.calls_named("_make_transmitter")]
    for tbl in ("X", "Y"):
        pub = [s for s in assigns_to_attr(fi, tbl)]
        ok = False
        detail = "not published"
        if len(pub) == 1 and isinstance(pub[0], ast.Assign) and isinstance(pub[0].value, ast.Name) and pub[0].value.id == tbl and mt:
            used = next((a for a in mt[0].args if isinstance(a, ast.Name) and a.id == tbl), None)
            if used is not None:
                d1 = {d.node for d in fi.rd.reaching(tbl, fi.node_of(used).id)}
                d2 = {d.node for d in fi.rd.reaching(tbl, fi.node_of(pub[0]).id)}
                ok = d1 == d2 and len(d1) == 1
                detail = f"definitions reaching the transmitter: {sorted(d1)}, reaching self.{tbl}: {sorted(d2)}"
                # no in-place mutation of the table between the two uses
                for n in walk_function(fi.f.node):
                    if isinstance(n, ast.Call) and isinstance(n.func, ast.Attribute) and isinstance(n.func.value, ast.Name) and n.func.value.id == tbl:
                        inplace = any(k.arg == "inplace" and const_value(k.value) is True for k in n.keywords)
                        if inplace and fi.reachable_from(mt[0], n):
                            ok = False
                            detail = f"{tbl} is mutated in place after the transmitter was built"
        ck.check(ok, "ARGFLOW", f"S2.published-{tbl}-is-served-{tbl}", subj, fi.f.loc, f"self.{tbl} is the very table the transmitter was built from", f"self.{tbl} differs from the table served: {detail}",
                 construct=f"self.{tbl} = {tbl}")
    fm = an.fa("TradingEnvXY._make_transmitter")
    evs = [d for d in fm.rd.defs if d.kind == "assign" and isinstance(d.value, ast.ListComp) and "EventNewObservation" in ast.unparse(d.value)]
    ok = False
    for d in evs:
        lc = d.value
        g = lc.generators[0]
        if ast.unparse(g.iter) == "X.iterrows()" and not g.ifs and isinstance(g.target, ast.Tuple) and [ast.unparse(a) for a in lc.elt.args] == [e.id for e in g.target.elts]:
            ae = [c for c in fm.calls_named("add_events") if c.args and ast.unparse(c.args[0]) == d.var]
            ok = bool(ae)
    ck.check(ok, "ARGFLOW", "S2.one-observation-per-row", fm.f.short, fm.f.loc, "one EventNewObservation(t, row) per row of X, all added to the transmitter", "observation events are not built from every row of X",
             construct="events = [EventNewObservation(t, x) for t, x in X.iterrows()]")


def s3(ck, an):
    fa = an.fa("TradingEnvXY._make_timesteps")
    subj = fa.f.short
    rets = returns_in(fa)
    k = fa.sym.canon(rets[0].value) if len(rets) == 1 else "?"
    want = fa.sym.canon(ast.parse("Y.loc[max(X.first_valid_index(), Y.first_valid_index()):min(X.last_valid_index(), Y.last_valid_index())].drop([t for t in pandas_market_calendars.get_calendar(calendar).holidays().holidays "
                                   "if t in Y.loc[max(X.first_valid_index(), Y.first_valid_index()):min(X.last_valid_index(), Y.last_valid_index())].index]).index[window:]", mode="eval").body, fa.cfg.entry.id) if rets else "?"
    ck.check(k == want, "DEP", "S3.steps-from-price-dates-minus-holidays", subj, fa.f.loc,
             "steps = index of Y restricted to the common valid range, minus the calendar's holidays present in it, skipping the first `window` dates",
             f"_make_timesteps returns {k[:260]}; specified {want[:260]}", construct="_make_timesteps")
    fm = an.fa("TradingEnvXY._make_transmitter")
    ts = [c for c in fm.calls_named("_make_timesteps")]
    ok = len(ts) == 1 and [ast.unparse(a) for a in ts[0].args] == ["X", "Y", "calendar", "window"]
    ck.check(ok, "ARGFLOW", "S3.timesteps-arguments", fm.f.short, fm.f.loc, "timesteps are computed from X, Y, the calendar and the window", "the arguments of _make_timesteps changed", construct="self._make_timesteps(X, Y, calendar, window)")
    tr = [c for c in walk_function(fm.f.node) if isinstance(c, ast.Call) and fm.sym.canon(c.func) == "Transmitter"]
    ok = len(tr) == 1 and [fm.sym.canon(a) for a in tr[0].args][:1] == [fm.sym.canon(ts[0])] if ts else False
    ck.check(ok, "ARGFLOW", "S3.transmitter-on-those-steps", fm.f.short, fm.f.loc, "the transmitter's grid is exactly those timesteps", "the transmitter is not built on the computed timesteps", construct="Transmitter(timesteps, ...)")


def s4(ck, an):
    fi = an.fa("State.__init__")
    subj = fi.f.short
    sp = [s for s in assigns_to_attr(fi, "space")]
    ok = False
    detail = "space not assigned"
    if len(sp) == 1 and isinstance(sp[0], ast.Assign) and isinstance(sp[0].value, ast.Call):
        c = sp[0].value
        at = fi.node_of(sp[0]).id
        args = [fi.sym.canon(a, at) for a in c.args]
        detail = f"Box({', '.join(args)})"
        want_shape = fi.sym.canon(ast.parse("(window if stride is None else math.ceil(window / stride), n)", mode="eval").body, at)
        ok = len(args) >= 3 and args[0] == "-max_" and args[1] == "max_" and args[2] == want_shape
    ck.check(ok, "LIN", "S4.declared-shape", subj, fi.f.loc, "declared space is Box(-max_, max_, (window or ceil(window / stride), n))", f"declared space is {detail[:160]}", construct="self.space = gymnasium.spaces.Box(...)")
    q = [s for s in assigns_to_attr(fi, "queue")]
    ck.check(len(q) == 1 and isinstance(q[0], ast.Assign) and ast.unparse(q[0].value) in ("deque(maxlen=window)", "collections.deque(maxlen=window)"), "IDIOM", "S4.queue-capacity-window", subj, fi.f.loc, "the window queue is deque(maxlen=window)",
             f"queue = {[ast.unparse(s.value) for s in q if isinstance(s, ast.Assign)]}", construct="self.queue = deque(maxlen=window)")
    st = [s for s in assigns_to_attr(fi, "stride")]
    ck.check(len(st) == 1 and isinstance(st[0], ast.Assign) and ast.unparse(st[0].value) == "stride", "ARGFLOW", "S4.stride-config", subj, fi.f.loc, "stride is the configured stride", "stride is not stored as given", construct="self.stride = stride")
    fp = an.fa("State.process_EventNewObservation")
    ev = fp.f.params[1]
    pre = [n for n in walk_function(fp.f.node) if isinstance(n, ast.For)]
    ok = False
    for lp in pre:
        sg = fp.syntactic_guards(lp.body[0]) if lp.body else []
        if ast.unparse(lp.iter) == "range(self.queue.maxlen)" and any(p[0] == "is" and "None" in (p[1], p[2]) and "self.last_event" in (p[1], p[2]) and p[3] for p in sg):
            body = [ast.unparse(b) for b in lp.body]
            ok = body == [f"self.queue.append([{ev}.to_list()])"]
    ck.check(ok, "PATHCOUNT", "S4.prefill-on-first-event", fp.f.short, fp.f.loc, "on the first observation the queue is filled to capacity with that observation (a full window is always served)",
             "the queue is not pre-filled to maxlen on the first observation", construct="if self.last_event is None: for _ in range(self.queue.maxlen): self.queue.append([...])")
    le = [s for s in assigns_to_attr(fp, "last_event")]
    ck.check(bool(le) and all(isinstance(s, ast.Assign) and ast.unparse(s.value) == ev and not fp.syntactic_guards(s) for s in le), "ARGFLOW", "S4.last-event-tracked", fp.f.short, fp.f.loc, "last_event is set on every observation",
             "last_event is not set unconditionally", construct="self.last_event = event")
    fq = an.fa("State.parse")
    rets = returns_in(fq)
    fw = Forward(an, fq, assume=lambda s, f: True if "stride" in ast.unparse(s.test) else None, call_effects=False).run()
    with_stride = [v.key() for r, v, st in fw.returns if v is not None]
    fw2 = Forward(an, fq, assume=lambda s, f: False if "stride" in ast.unparse(s.test) else None, call_effects=False).run()
    no_stride = [v.key() for r, v, st in fw2.returns if v is not None]
    ck.check(no_stride == ["np.concatenate(self.queue)"], "LIN", "S4.serves-whole-window", fq.f.short, fq.f.loc, "without stride the observation is the concatenated window, oldest first", f"parse returns {no_stride}", construct="x = np.concatenate(self.queue)")
    ck.check(with_stride == ["(np.concatenate(self.queue)[::-self.stride])[::-1]"] or with_stride == ["np.concatenate(self.queue)[::-self.stride][::-1]"], "LIN", "S4.stride-from-most-recent", fq.f.short, fq.f.loc,
             "with stride the window is thinned from the most recent row backwards and flipped back: [::-stride][::-1]", f"parse (stride) returns {with_stride}", construct="x = x[::-self.stride][::-1]")
    fe = an.fa("EventNewObservation.to_list")
    r = [fe.sym.canon(x.value) for x in returns_in(fe)]
    ck.check(r == ["list(self.data.values())"], "ARGFLOW", "S4.row-values-in-column-order", fe.f.short, fe.f.loc, "an observation row is the list of the event's values in column order", f"to_list returns {r}", construct="return list(self.data.values())")


def verified(ck, an):
    """Observations are checked against the declared space before they are returned."""
    fc = an.fa("IState.__call__")
    ok = False
    for r in raises_in(fc):
        sg = fc.syntactic_guards(r)
        if any(p[0] == "in" and p[2] == "self.space" and not p[3] for p in sg) and any(p[0] == "truthy" and p[1] == fc.f.params[1] and p[2] for p in sg):
            ok = True
    ck.check(ok, "GUARD", "S4.observation-verified-against-space", fc.f.short, fc.f.loc, "with verify=True an observation outside the declared space raises", "IState.__call__ no longer rejects observations outside the declared space",
             construct="if verify and self.space is not None: if state not in self.space: raise")
    d = fc.f.param_default(fc.f.params[1])
    ck.check(const_value(d) is True, "CONST", "S4.verify-default", fc.f.short, fc.f.loc, "verification is on by default", f"verify default is {ast.unparse(d) if d else None}", construct="verify=True")
    fe = an.fa("TradingEnv.__init__")
    vs = [s_ for s_ in assigns_to_attr(fe, "_verify_state")]
    on = [s_ for s_ in vs if isinstance(s_, ast.Assign) and const_value(s_.value) is True and not fe.syntactic_guards(s_)]
    off = [s_ for s_ in vs if isinstance(s_, ast.Assign) and const_value(s_.value) is not True]
    ck.check(bool(on) and all(any(p[0] == "truthy" and p[1] == "fit_transformers" and p[2] for p in fe.syntactic_guards(s_)) for s_ in off), "GUARD", "S4.env-verifies-state", fe.f.short, fe.f.loc,
             "the environment verifies states unless transformers were fitted", "state verification is switched off outside the fit_transformers branch", construct="self._verify_state = True")
    for short in ("TradingEnv.reset", "TradingEnv.step"):
        f2 = an.fa(short)
        cs = [c for c in f2.calls_to("IState.__call__") if isinstance(c, ast.Call)]
        ck.check(bool(cs) and all([ast.unparse(a) for a in c.args] == ["self._verify_state"] for c in cs), "ARGFLOW", "S4.state-called-with-verify-flag", f2.f.short, f2.f.loc, "the state is produced with the environment's verify flag",
                 "state() is not called with self._verify_state", construct="self.state(self._verify_state)")


def s5(ck, an):
    fi = an.fa("TradingEnvXY.__init__")
    subj = fi.f.short
    tr = [c for c in fi.calls_named("transform")]
    ff = [c for c in fi.calls_named("ffill")]
    fz = [c for c in fi.calls_named("fillna")]
    cl = [c for c in fi.calls_named("clip") if isinstance(c.func.value, ast.Name) and c.func.value.id == "X"]
    if tr and ff:
        ord_before(ck, fi, "S5.transform-before-fill", tr, ff, "transform", "ffill")
    if ff and fz:
        ord_before(ck, fi, "S5.ffill-before-zero-fill", ff, fz, "ffill", "fillna(0)")
    if fz and cl:
        ord_before(ck, fi, "S5.fill-before-clip", fz, cl, "fillna(0)", "clip")
    ck.check(len(cl) == 1 and [ast.unparse(a) for a in cl[0].args] == ["-clip", "clip"], "LIN", "S5.symmetric-clip", subj, fi.f.loc, "features are clipped to [-clip, +clip]", f"clip arguments: {[ast.unparse(a) for c in cl for a in c.args]}",
             construct="X.clip(-clip, clip, inplace=True)")
    for c in fz:
        ck.check(c.args and const_value(c.args[0]) in (0, 0.0) and not any(k.arg == "method" for k in c.keywords), "CONST", "S5.zero-fill", subj, fi.loc(c), "values missing before the first observation are filled with 0", f"fillna({ast.unparse(c)[:40]})",
                 construct=stmt_text(c))
    st = [c for c in walk_function(fi.f.node) if isinstance(c, ast.Call) and fi.sym.canon(c.func) == "State"]
    ok = len(st) == 1 and [ast.unparse(a) for a in st[0].args] == ["X.columns.size", "window", "stride"] and {k.arg: ast.unparse(k.value) for k in st[0].keywords} == {"max_": "5"}
    ck.check(ok, "ARGFLOW", "S5.state-arguments", subj, fi.f.loc, "State(n features, window, stride, max_=5)", f"State({ast.unparse(st[0])[:80] if st else ''})", construct="State(X.columns.size, window, stride, max_=5)")
    d = fi.f.param_default("clip")
    ck.check(const_value(d) == 5.0, "CONST", "S5.clip-default-within-bound", subj, fi.f.loc, "default clip (5) equals the declared observation bound", f"default clip is {ast.unparse(d) if d else None}", construct="clip=5.")
    # reindex on the union of both indices so that every price date has a (filled) feature row
    rx = [c for c in fi.calls_named("reindex")]
    ok = any(ast.unparse(c.args[0]) == "X.index.union(Y.index)" for c in rx if c.args)
    ck.check(ok, "ARGFLOW", "S5.reindex-union", subj, fi.f.loc, "X is re-indexed on the union of the X and Y dates before filling", "X is not re-indexed on X.index.union(Y.index)", construct="X = X.reindex(X.index.union(Y.index), ...)")
    # warm-up trimming keeps window - 1 rows before the first step
    defs = [d for d in fi.rd.defs if d.var == "t0_warmup_idx" and d.kind == "assign"]
    ok = bool(defs) and all(fi.sym.ev(d.value, d.node) == fi.sym.ev(ast.parse("t0_idx - window + 1", mode="eval").body, d.node) for d in defs)
    ck.check(ok, "LIN", "S5.warmup-rows", subj, fi.f.loc, "the table keeps window - 1 rows before the first served date", "t0_warmup_idx is not t0_idx - window + 1", construct="t0_warmup_idx = t0_idx - window + 1")
    tx = [s for s in all_stmts(fi) if isinstance(s, ast.Assign) and ast.unparse(s.targets[0]) == "X" and "iloc[t0_warmup_idx:]" in ast.unparse(s.value)]
    ck.check(len(tx) == 1 and ast.unparse(tx[0].value) == "X.iloc[t0_warmup_idx:]", "LIN", "S5.trim-from-warmup-row", subj, fi.f.loc, "X is trimmed from the warm-up row onwards", "X is not trimmed as X.iloc[t0_warmup_idx:]", construct="X = X.iloc[t0_warmup_idx:]")


def s6(ck, an):
    fm = an.fa("TradingEnvXY._make_transmitter")
    mk = [d for d in fm.rd.defs if d.var == "markov_reset" and d.kind == "assign"]
    c = fm.sym.cmp(mk[0].value, mk[0].node) if mk else None
    ck.check(c is not None and c[0] == "rel" and c[1] == "==" and c[4] in (Poly.atom("window") - Poly.const(1), Poly.const(1) - Poly.atom("window")), "CMP", "S6.markov-iff-window-1", fm.f.short, fm.f.loc, "markov reset iff window == 1",
             f"markov_reset = {cmp_key(c) if c else '?'}", construct="markov_reset = window == 1")
    wu = [d for d in fm.rd.defs if d.var == "warmup" and d.kind == "assign"]
    k = fm.sym.canon(wu[0].value, wu[0].node) if wu else "?"
    want = fm.sym.canon(ast.parse("None if window == 1 else timedelta(days=3 + window * 2)", mode="eval").body, wu[0].node) if wu else "?"
    ck.check(k == want, "LIN", "S6.warmup-covers-window", fm.f.short, fm.f.loc, "warm-up horizon = 3 + 2 x window days (None under markov reset)", f"warmup = {k}", construct="warmup = None if markov_reset else timedelta(days=3 + window * 2)")
    tr = [c for c in walk_function(fm.f.node) if isinstance(c, ast.Call) and fm.sym.canon(c.func) == "Transmitter"]
    ok = len(tr) == 1 and [ast.unparse(a) for a in tr[0].args][1:] == ["folds", "markov_reset", "warmup"]
    ck.check(ok, "ARGFLOW", "S6.transmitter-config", fm.f.short, fm.f.loc, "Transmitter(timesteps, folds, markov_reset, warmup)", f"Transmitter({ast.unparse(tr[0])[:80] if tr else ''})", construct="Transmitter(timesteps, folds, markov_reset, warmup)")
    fi = an.fa("TradingEnvXY.__init__")
    sup = [c for c in fi.calls_named("__init__") if ast.unparse(c.func).startswith("super()")]
    if len(sup) != 1:
        ck.fail("ARGFLOW", "S6.env-config", fi.f.short, fi.f.loc, "TradingEnvXY does not call super().__init__ once", construct="super().__init__(...)")
        return
    kw = {k.arg: ast.unparse(k.value) for k in sup[0].keywords}
    want = {"action_space": "BoxPortfolio(Y.columns, max_short, max_long, margin=margin)", "broker_fees": "BrokerFees(markup, rate.name, fee, fixed)", "initial_cash": "cash", "latency": "latency", "steps_delay": "steps_delay",
            "episode_length": "episode_length", "sampling_span": "sampling_span", "reward": "reward"}
    for k, w in want.items():
        ck.check(kw.get(k) == w, "ARGFLOW", f"S6.env-config-{k}", fi.f.short, fi.loc(sup[0]), f"{k} = {w}", f"{k} = {kw.get(k)}; expected {w}", construct=f"{k}={kw.get(k)}")
    cols = [s for s in all_stmts(fi) if isinstance(s, ast.Assign) and ast.unparse(s.targets[0]) == "Y.columns"]
    ck.check(len(cols) == 1 and ast.unparse(cols[0].value) == "[Asset(col) for col in Y.columns]", "ARGFLOW", "S6.one-asset-per-column", fi.f.short, fi.f.loc, "each price column becomes an Asset contract",
             "price columns are not mapped one-to-one to Asset contracts", construct="Y.columns = [Asset(col) for col in Y.columns]")
    rn = [s for s in all_stmts(fi) if isinstance(s, ast.Assign) and ast.unparse(s.targets[0]) == "rate.name"]
    ck.check(len(rn) == 1 and ast.unparse(rn[0].value) == "Rate(rate.name)", "ARGFLOW", "S6.rate-contract", fi.f.short, fi.f.loc, "the rate series is keyed by a Rate contract (the one the fee schedule reads)", "rate.name is not Rate(rate.name)",
             construct="rate.name = Rate(rate.name)")
    rr = [s for s in all_stmts(fi) if isinstance(s, ast.Assign) and ast.unparse(s.targets[0]) == "rate" and "loc" in ast.unparse(s.value)]
    ck.check(any(ast.unparse(s.value) == "rate.squeeze().loc[start:end]" for s in rr), "ARGFLOW", "S6.rate-range", fi.f.short, fi.f.loc, "the given rate is used on [start, end]", "the rate is not restricted as rate.squeeze().loc[start:end]",
             construct="rate = rate.squeeze().loc[start:end]")
    yy = [s for s in all_stmts(fi) if isinstance(s, ast.Assign) and ast.unparse(s.targets[0]) == "Y" and "loc[start:end]" in ast.unparse(s.value)]
    ck.check(any(ast.unparse(s.value) == "pd.DataFrame(Y).loc[start:end]" for s in yy), "ARGFLOW", "S6.price-range", fi.f.short, fi.f.loc, "prices are the given prices on [start, end]", "Y is not restricted as pd.DataFrame(Y).loc[start:end]",
             construct="Y = pd.DataFrame(Y).loc[start:end]")
