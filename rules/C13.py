"""C13 — Missing prices fail loudly; a rebalance is all-or-nothing."""
import ast
from sa.lib import *
from sa.dataflow import cmp_key, cmp_atoms
from sa.resolve import walk_function
from rules.C12 import enclosing_if

TECHNIQUE = "static analysis (ast): guard rules on the CFG (NaN test dominates every use of the price, flat positions read no book), exception discipline (what may be caught around make_trades / transact), build-all-before-execute ordering, sign tables of the book's price selectors by evaluation under sign assumptions"
EXPLANATION = (
    "Decides the structural clauses of C13: (S1) in Broker.holdings_values a NaN liquidation price of a non-zero position raises and "
    "that test dominates every arithmetic use of the price; the price is the liquidation side (bid for long, ask for short); (S2) under "
    "`quantity == 0` no quote is read; (S3) Trade.__init__ rejects NaN bid / ask / quantity, zero quantity and Cash before storing "
    "anything, and LimitOrderBook.acq_price raises for a NaN sign; (S4) make_trades is not a generator and returns the accumulated list; "
    "Broker.rebalance assigns the complete list before the loop that transacts exactly that list; (S5) everything rebalance runs before the "
    "first transact writes at most cash / margins / last-mark / last-accrual - never a non-cash position or the track record - transact is "
    "called from rebalance only, and the checkpoint comes after the loop; (S6) dead books ignore quotes (C14-S3 facts re-checked)."
)
DECIDED = ["S1 non-zero position without liquidation quote raises", "S2 flat positions need no quote", "S3 trades cannot be built on missing data",
           "S4 all trades built before the first is executed", "S5 a failure while computing trades leaves positions and record untouched", "S6 dead books stay silent"]
NOT_DECIDED = ["failures during execution (outside the statement)", "which histories lose quotes (data)"]
ASSUMPTIONS = ["reads of a missing key of a defaultdict ledger insert a 0.0 entry / an empty book; they never change a balance and are not counted as writes"]


def run(ck, an, tier):
    s1_s2(ck, an)
    s3(ck, an)
    s4(ck, an)
    s5(ck, an)
    s6(ck, an)
    from rules import C14 as _c14
    from sa.report import Renamed as _R
    _c14.s3(_R(ck, "C14:"), an)      # a discontinued book stays dead and blank (what "discontinued" means for valuation and rolling)
    from rules import C03 as _c03
    _c03.s2(_R(ck, "C03:"), an)      # the imbalance keeps every entry of target - holdings: a NaN size (missing quote) survives to the guards that reject it, nothing filters it on the way
    _c14.s4(_R(ck, "C14:"), an)      # the book's own price selectors: liq_price(q) is acq_price(-q), NaN for a blank side - never a remembered price
    from rules import C12 as _c12, ledger as _l
    # a NaN imbalance weight (missing quote) is never "below the margin": the threshold test is the reviewed strict comparison on the weight as computed, so the leg reaches the Trade guards that reject it
    _c12.run(_l._Only(_R(ck, "C12:"), {"threshold-strict", "no-other-skip", "no-skip-before-the-loop", "no-loop-exit"}), an, "quick")
    _c14.s1(_R(ck, "C14:"), an)      # a quote that arrives with a missing side blanks that side of the book (the book holds the last quote as given)


def s1_s2(ck, an):
    fa = an.fa("Broker.holdings_values")
    subj = fa.f.short
    # the loop over positions
    loops = [n for n in walk_function(fa.f.node) if isinstance(n, ast.For) and "_holdings_quantity" in ast.unparse(n.iter)]
    if not loops:
        ck.fail("GUARD", "S1.position-loop", subj, fa.f.loc, "holdings_values does not iterate the positions", construct="missing:for contract, quantity in self._holdings_quantity.items()")
        return
    loop = loops[0]
    tn = [e.id for e in loop.target.elts] if isinstance(loop.target, ast.Tuple) else ["?", "?"]
    cvar, qvar = tn[0], tn[1]
    Cn, Q = loop_item(fa, loop, 0), loop_item(fa, loop, 1)      # the position's contract and quantity, by value id
    # NaN raise
    nan_tests = []
    price_var = None
    for r in raises_in(fa):
        sg = fa.syntactic_guards(r)
        for p in sg:
            if p[0] == "truthy" and p[2] and "isnan(" in p[1]:
                iff = enclosing_if(r)
                nan_tests.append(iff.test)
                # which local is tested?
                for n in ast.walk(iff.test):
                    if isinstance(n, ast.Name) and n.id not in ("np", "numpy", "math"):
                        price_var = n.id
    if not nan_tests:
        ck.fail("GUARD", "S1.nan-raises", subj, fa.loc(loop), "no `if isnan(liquidation price): raise` in holdings_values: a missing quote would be valued as NaN", construct="missing:if np.isnan(liq_price): raise")
        return
    ck.ok("GUARD", "S1.nan-raises", subj, fa.loc(nan_tests[0]), "a NaN liquidation price raises", construct="if " + ast.unparse(nan_tests[0]))
    # the NaN raise is not subject to further conditions except quantity != 0
    for r in raises_in(fa):
        sg = fa.syntactic_guards(r)
        if any(p[0] == "truthy" and "isnan(" in p[1] for p in sg):
            extra = [p for p in sg if not (p[0] == "truthy" and "isnan(" in p[1]) and not rel_is(p, "!=", Q)]
            ck.check(not extra, "GUARD", "S1.nan-raise-unconditional", subj, fa.loc(r), "the NaN raise applies to every non-zero position",
                     f"the NaN raise is additionally conditioned on {[cmp_key(p) for p in extra]}", construct=stmt_text(enclosing_if(r)))
    # every other use of the price is dominated by the test
    uses = [n for n in ast.walk(loop) if isinstance(n, ast.Name) and n.id == price_var and isinstance(n.ctx, ast.Load)
            and not any(n is x for t in nan_tests for x in ast.walk(t))]
    ck.floor("uses of the liquidation price in holdings_values", len(uses), 1)
    ord_before(ck, fa, "S1.nan-test-before-use", nan_tests, uses, "the NaN test", "arithmetic on the liquidation price")
    # the tested price is the liquidation side of the position's own book: its value id at the test equals one of the accepted spellings
    at = fa.node_of(nan_tests[0]).id
    price_val = fa.sym.ev(ast.Name(id=price_var, ctx=ast.Load()), at) if price_var else None
    book = f"self.exchange[{cvar}]"
    accepted = [f"{book}.bid_price if {qvar} >= 0 else {book}.ask_price", f"{book}.bid_price if {qvar} > 0 else {book}.ask_price", f"{book}.liq_price({qvar})", f"{book}.acq_price(-{qvar})"]
    good = price_val is not None and any(price_val == specv(fa, t, at) for t in accepted)
    ck.check(good, "SIGN", "S1.liquidation-side", subj, fa.loc(nan_tests[0]), "the price tested and used is the bid for longs and the ask for shorts, of the position's own book",
             f"the liquidation price is {price_val.key()[:200] if price_val is not None else '?'}: not the liquidation side of the position's own book", construct="liq_price = bid if quantity >= 0 else ask")
    for rd_ in [n for n in ast.walk(loop) if isinstance(n, ast.Subscript) and ast.unparse(n.value).endswith("exchange")]:
        k = fa.sym.canon(rd_.slice)
        ck.check(k == Cn.key(), "ARGFLOW", "S1.own-book", subj, fa.loc(rd_), "the quote is read from the position's own book", f"a quote is read from the book of {k[:90]}", construct=stmt_text(rd_))
    if price_val is not None:
        # every book the price's value id mentions is the position's own (also when the read sits in a helper evaluated in place)
        pk = price_val.key()
        others = [seg[:60] for seg in pk.split("self.exchange[")[1:] if not seg.startswith(Cn.key() + "]")]
        ck.check("self.exchange[" in pk and not others, "ARGFLOW", "S1.own-book", subj, fa.loc(nan_tests[0]), "the liquidation price is read from the position's own book",
                 f"the liquidation price reads the book of {others[:2]}", construct="self.exchange[contract]")
    # S2: quote reads only for non-zero positions
    inloop = {id(x) for x in ast.walk(loop)}
    reads = [n for n in ast.walk(loop) if isinstance(n, ast.Subscript) and ast.unparse(n.value).endswith("exchange")]
    reads += [e.node for e in fa.effects() if e.kind == "R" and e.attr == "exchange" and isinstance(e.node, ast.Call) and id(e.node) in inloop]      # reads made by a (new) helper called from the loop
    ck.floor("order-book reads in holdings_values", len(reads), 1)
    for rd in reads:
        preds = fa.guard_predicates(rd)
        nz = any(rel_is(p, "!=", Q) for p in preds)
        ck.check(nz, "GUARD", "S2.flat-needs-no-quote", subj, fa.loc(rd), "order books are read only under quantity != 0",
                 "an order book is read for flat positions too (a discontinued flat contract would fail valuation)", construct=stmt_text(rd))
    # flat positions are valued 0 and stored: read off the state at the end of one loop iteration under `quantity == 0` (any statement form)
    from rules import ledger
    from sa.report import Renamed as _Rn
    ledger.valuation_formulas(ledger._Only(_Rn(ck, "S2:"), {"flat-worth-zero", "unknown-kind-raises"}), an, set())


def s3(ck, an):
    fa = an.fa("Trade.__init__")
    subj = fa.f.short
    stores = sorted([e.node for e in fa.effects() if e.kind == "W" and e.owner == "Trade"], key=lambda n: (n.lineno, n.col_offset))
    ck.floor("attribute stores in Trade.__init__", len(stores), 5)
    want = {
        "nan-bid": lambda p: p[0] == "truthy" and p[2] and p[1].endswith("isnan(bid_price)"),
        "nan-ask": lambda p: p[0] == "truthy" and p[2] and p[1].endswith("isnan(ask_price)"),
        "nan-quantity": lambda p: p[0] == "truthy" and p[2] and p[1].endswith("isnan(quantity)"),
        "zero-quantity": lambda p: p[0] == "rel" and p[1] == "==" and p[2] == "quantity",
        "cash": lambda p: p[0] == "truthy" and p[2] and "isinstance(contract" in p[1] and "Cash" in p[1],
    }
    for name, pred in want.items():
        tests = []
        for r in raises_in(fa):
            preds = fa.syntactic_guards(r)
            if len(preds) == 1 and pred(preds[0]):
                tests.append(enclosing_if(r).test)
        if not tests:
            ck.fail("GUARD", f"S3.trade-rejects-{name}", subj, fa.f.loc, f"Trade.__init__ has no raise guarded by the {name} test", construct=f"missing:{name} guard")
            continue
        first_unguarded = [st for st in stores if not fa.all_paths_to_pass(st, tests)][:1] or stores[:1]
        ord_before(ck, fa, f"S3.trade-rejects-{name}", tests, first_unguarded, f"the {name} rejection", "every attribute store")
    fq = an.fa("LimitOrderBook.acq_price")
    tab = sign_table_or_fail(ck, fq, fq.f.params[1], "S3.execution-side-shape") or {"neg": "?", "pos": "?", "zero": "?", "nan": "?"}
    ck.check(tab["nan"] == "raise", "SIGN", "S3.acq-price-nan-raises", fq.f.short, fq.f.loc, "acq_price raises for a NaN quantity/weight", f"acq_price(NaN) -> {tab['nan']}",
             construct="acq_price nan")
    # the rebalancing path hands the book's current quotes to Trade
    fm = an.fa("Rebalancing.make_trades")
    for c in [c for c in fm.calls_to("Trade.__init__") if isinstance(c, ast.Call)]:
        kw = {k.arg: fm.sym.canon(k.value) for k in c.keywords}
        ctr_src = next((ast.unparse(k.value) for k in c.keywords if k.arg == "contract"), "None")
        for side in ("bid_price", "ask_price"):
            w = specv(fm, f"broker.exchange[{ctr_src}].{side}", fm.node_of(c).id).key()      # the traded contract's own book, spelled with the call's own contract argument
            ck.check(kw.get(side) == w, "ARGFLOW", f"S3.trade-gets-{side}", fm.f.short, fm.loc(c), f"Trade({side}=) is the traded contract's current {side}",
                     f"Trade({side}=) is {kw.get(side)}, expected {w}", construct=f"{side}=" + str(kw.get(side)))


def s4(ck, an):
    fm = an.fa("Rebalancing.make_trades")
    subj = fm.f.short
    ys = [n for n in walk_function(fm.f.node) if isinstance(n, (ast.Yield, ast.YieldFrom))]
    ck.check(not ys, "IDIOM", "S4.not-a-generator", subj, fm.f.loc, "make_trades is not a generator", "make_trades yields trades lazily: a later failure would follow executed trades",
             construct="yield")
    rets = returns_in(fm)
    appended = set()
    for c in fm.calls_named("append"):
        if isinstance(c.func, ast.Attribute) and isinstance(c.func.value, ast.Name):
            appended.add(c.func.value.id)
    good = bool(rets) and all((isinstance(r.value, ast.Name) and r.value.id in appended) or isinstance(r.value, (ast.List, ast.ListComp))
                              or (isinstance(r.value, ast.Call) and ast.unparse(r.value.func) in ("list", "sorted")) for r in rets)
    ck.check(good, "IDIOM", "S4.returns-list", subj, fm.f.loc, "make_trades returns the fully accumulated list", f"make_trades returns {[ast.unparse(r.value)[:40] for r in rets if r.value is not None]}",
             construct="return trades")
    fa = an.fa("Broker.rebalance")
    mk = fa.calls_to("Rebalancing.make_trades")
    tr = fa.calls_to("Broker.transact")
    ord_before(ck, fa, "S4.build-before-execute", mk, tr, "make_trades (all trades built)", "transact")
    for t in tr:
        loop = next((p for p in parents(t) if isinstance(p, ast.For)), None)
        if loop is None:
            ck.fail("ARGFLOW", "S4.executes-built-list", fa.f.short, fa.loc(t), "transact is not inside a loop over the built trades", construct=stmt_text(t))
            continue
        it = fa.sym.canon(loop.iter)
        # the iterable is what make_trades returned (directly or via rebalancing.trades)
        stored = [s for s in all_stmts(fa) if isinstance(s, ast.Assign) and any(fa.sym.canon(s.value) == fa.sym.canon(m) for m in mk)]
        targets = {ast.unparse(tg) for s in stored for tg in s.targets}
        ok = any(it == fa.sym.canon(m) for m in mk) or ast.unparse(loop.iter) in targets
        ck.check(ok, "ARGFLOW", "S4.executes-built-list", fa.f.short, fa.loc(loop), "the loop transacts exactly the list make_trades returned",
                 f"the execution loop ranges over {it[:70]}", construct=stmt_text(loop))
        a = fa.sym.canon(t.args[0]) if t.args else "?"
        ck.check(isinstance(loop.target, ast.Name) and a == loop_item(fa, loop).key(), "ARGFLOW", "S4.transacts-loop-item", fa.f.short, fa.loc(t), "each iteration transacts the loop's trade", f"transact receives {a[:60]}", construct=stmt_text(t))


def s5(ck, an):
    fa = an.fa("Broker.rebalance")
    subj = fa.f.short
    own_callers(ck, an, "S5.transact-callers", "Broker.transact", {"Broker.rebalance"})
    own_callers(ck, an, "S5.checkpoint-callers", "TrackRecord._checkpoint", {"Broker.rebalance"})
    tr = fa.calls_to("Broker.transact")
    cp = fa.calls_to("TrackRecord._checkpoint")
    if not tr or not cp:
        ck.fail("ORD", "S5.checkpoint-last", subj, fa.f.loc, "rebalance lacks transact or _checkpoint", construct="missing")
        return
    first_t = tr[0]
    allowed_q = "base_currency"
    for node, tgs, ext, kind in fa.calls():
        if id(node) in an.res.byname:
            continue
        if any(g.short == "Broker.transact" for g in tgs) or any(g.short == "TrackRecord._checkpoint" for g in tgs):
            continue
        before = fa.reachable_from(node, first_t) and not fa.reachable_from(first_t, node) or (fa.dominates(node, first_t))
        if not before:
            continue
        for g in tgs:
            for e in an.transitive_effects(g):
                if e.kind not in "WMD":
                    continue
                if e.attr == "_holdings_quantity" and an.owner_matches(e.owner, "Broker") and e.sub is not None:
                    ck.check(allowed_q in ast.unparse(e.sub), "EFFECT", "S5.no-position-write-before-trades", subj, e.loc, f"{e.func.short} (before the first transact) writes the cash entry only",
                             f"{e.func.short}, reached from `{ast.unparse(node)[:40]}` before the first transact, writes _holdings_quantity[{ast.unparse(e.sub)}]", construct=stmt_text(e.node))
                elif e.attr in ("_time", "_rebalancing", "_nr_steps_to_burn", "_trading_started") and an.owner_matches(e.owner, "TrackRecord"):
                    ck.fail("EFFECT", "S5.no-record-write-before-trades", subj, e.loc, f"{e.func.short}, reached before the first transact, writes TrackRecord.{e.attr}", construct=stmt_text(e.node))
    # checkpoint after the loop
    for c in cp:
        in_loop = any(isinstance(p, (ast.For, ast.While)) for p in parents(c) if p is not fa.f.node)
        ck.check(not in_loop, "ORD", "S5.checkpoint-after-loop", subj, fa.loc(c), "the checkpoint is outside the execution loop", "the checkpoint is taken inside the execution loop", construct=stmt_text(c))
        loops = [fa.cfg.node_of(next(p for p in parents(t) if isinstance(p, ast.For)).iter) for t in tr if any(isinstance(p, ast.For) for p in parents(t))]
        ok = all(fa.cfg.dominates(l.id, fa.node_of(c).id) for l in loops if l is not None) and all(fa.reachable_from(t, c) and not fa.reachable_from(c, t) for t in tr)
        ck.check(ok, "ORD", "S5.checkpoint-last", subj, fa.loc(c), "the checkpoint follows the execution loop", "the checkpoint can be reached before the trades are executed", construct=stmt_text(c))


def s6(ck, an):
    fi = an.fa("LimitOrderBook.__init__")
    for prm in ("bid_price", "ask_price"):
        d = fi.f.param_default(prm)
        ck.check(d is not None and ast.unparse(d) in ("np.nan", "numpy.nan", "float('nan')", "math.nan"), "CONST", f"S6.never-quoted-is-nan-{prm}", fi.f.short, fi.f.loc, f"a book that was never quoted has {prm} = NaN (no price)",
                 f"default {prm} is {ast.unparse(d) if d is not None else 'missing'}: a never-quoted contract would be valued at that number", construct=f"{prm} default")
        st = assigns_to_attr(fi, prm)
        ck.check(len(st) == 1 and isinstance(st[0], ast.Assign) and ast.unparse(st[0].value) == prm, "ARGFLOW", f"S6.book-stores-{prm}", fi.f.short, fi.f.loc, f"the book stores {prm} as given", f"{prm} = {[ast.unparse(x.value) for x in st if isinstance(x, ast.Assign)]}",
                 construct=f"self.{prm} = {prm}")
    from rules import C14
    from sa.report import Renamed
    C14.s5(Renamed(ck, "C14:"), an)
    # "discontinued" reaches the exchange: each future yields its discontinuation event, and the events an environment adds are (re-)filed on every build
    from rules import C04, C11, ledger
    C11.s5(Renamed(ck, "C11:"), an)
    C04.partitions(ledger._Only(Renamed(ck, "C04:"), {"partitions-always-rebuilt", "create-partitions-callers"}), an)
    fa = an.fa("Exchange.process_EventNBBO")
    for c in fa.calls_to("LimitOrderBook.update"):
        preds = fa.guard_predicates(c)
        ck.check(any(p[0] == "truthy" and p[2] and p[1].endswith(".is_alive") for p in preds), "GUARD", "S6.dead-books-silent", fa.f.short, fa.loc(c),
                 "quotes for discontinued books are ignored", "update is not guarded by is_alive: a discontinued contract would be re-priced", construct=stmt_text(c))
    ft = an.fa("LimitOrderBook.terminate")
    inits = ft.calls_to("LimitOrderBook.__init__")
    ck.check(bool(inits) and all(not c.args and not c.keywords for c in inits), "EFFECT", "S6.terminate-blanks-quotes", ft.f.short, ft.f.loc, "terminate blanks the quotes (re-init with NaN defaults)",
             "terminate does not blank the quotes", construct="self.__init__()")
