"""C04 — Event delivery: complete, exactly-once, on time, ordered."""
import ast
from sa.lib import *
from sa.forward import Forward
from sa.dataflow import Poly, cmp_key, cmp_atoms
from sa.resolve import walk_function

TECHNIQUE = 'static analysis (ast): CFG dominance / post-dominance and acyclic path-count rules for filing, dispatch and the step pointer; comparator normal forms (bisect side, latency split, history bounds); who-may-call / who-may-write rules over the resolved call graph and effect summaries'
EXPLANATION = (
    "Decides the structural clauses of C04: (S1) in Transmitter._create_partitions the partition key is timesteps[bisect_left(timesteps, event.time)] "
    "(unmodified), over timesteps = sorted(set(...)); (S2) each loop iteration appends the event to at most one partition and skips it only through "
    "the after-grid filter; IEvent.notify calls the callback once per subscribed observer, looked up by the event's class name; callbacks are "
    "enumerated over the whole MRO (dir(cls)); partitions are written only by _create_partitions and the batches handed to the environment are never "
    "mutated in place; (S3) filters `e.time <= timesteps[-1]` (inclusive), markov `e.time >= timesteps[0]`, StopIteration at the end of the episode's steps; "
    "(S4) one global stable sort of all events by IEvent.__lt__, which compares time only; (S5) latent iff (event.time - previous timestep).total_seconds() "
    "<= latency (inclusive, exact seconds, no truncation); (S6) latency >= minimum gap raises before partitions are built; (S7) every batch _next returns "
    "is in time order: single-key lists, or history replayed per ascending timestep, latent before non-latent; (S8) TradingEnv.notify sets the clock to the "
    "event's time with nothing that moves the clock between the store and the dispatch; Reset/Step/Done are stamped with now(), NewDate with the previous "
    "event's time; (S9) history replay only on the first step without markov reset, bounded by the warm-up horizon."
    " The partitions are created with the configured latency as given, by value id (S5.configured-latency-reaches-partitions / -stored)."
)
DECIDED = ["S1 first timestep at or after the timestamp", "S2 exactly once", "S3 never after the grid / episode", "S4 time order, ties in insertion order",
           "S5 latent iff within latency (inclusive)", "S6 latency below the minimum gap", "S7 batches dispatched in time order", "S8 clock = event time during dispatch", "S9 warm-up / markov reset"]
NOT_DECIDED = ["completeness as a count over arbitrary grids (needs the data)", "user grids with duplicates beyond sorted(set(...)) dominating all uses", "repeated episodes (structurally C10)"]
ASSUMPTIONS = ["sorted()/list.sort are stable; bisect.bisect_left returns the first index whose element is >= x; timedelta.total_seconds() is exact to the microsecond"]
BISECT_LEFT = {"bisect.bisect_left", "bisect_left"}


def run(ck, an, tier):
    partitions(ck, an)
    latency_plumbing(ck, an)
    custom_events(ck, an)
    from sa.report import Renamed
    from rules import C15
    d15 = Renamed(ck, "C15:")
    C15.s1(d15, an)      # which timesteps an episode consists of (fold window), i.e. what "the episode's first / last timestep" is
    C15.s2(d15, an)
    C15.s3(d15, an)
    dispatch(ck, an)
    nxt(ck, an)
    env_side(ck, an)


# ------------------------------------------------------------------ _create_partitions

def partitions(ck, an):
    fa = an.fa("Transmitter._create_partitions")
    subj = fa.f.short
    lat_p = fa.f.params[1]
    apps = [c for c in fa.calls_named("append") if isinstance(c.func.value, ast.Subscript) and "_partition_" in ast.unparse(c.func.value.value)]
    ck.floor("partition appends in _create_partitions", len(apps), 0)
    if len(apps) < 2:
        ck.fail("PATHCOUNT", "S2.two-partitions", subj, fa.f.loc, f"expected an append to the latent and to the non-latent partition, found {len(apps)}", construct="missing:partition append")
        return
    loop = next((p for p in parents(apps[0]) if isinstance(p, ast.For)), None)
    if loop is None:
        ck.fail("PATHCOUNT", "S2.two-partitions", subj, fa.f.loc, "partition appends are not inside a loop over events", construct="for event in sorted(events)")
        return
    ev = loop.target.id if isinstance(loop.target, ast.Name) else "?"
    # S4: global stable sort: the loop source derives from ALL of self.events through sorted() and pure filters
    state = {"sorted": False, "bad": None}

    def derive(e, at, depth=0):
        if depth > 8:
            state["bad"] = "definition chain too deep"
            return
        if isinstance(e, ast.Call) and isinstance(e.func, ast.Name) and e.func.id == "sorted" and len(e.args) == 1:
            if e.keywords:
                state["bad"] = f"sorted with {[k.arg for k in e.keywords]}"
            state["sorted"] = True
            derive(e.args[0], at, depth + 1)
        elif isinstance(e, ast.Call) and isinstance(e.func, ast.Name) and e.func.id in ("list", "tuple", "iter") and len(e.args) == 1:
            derive(e.args[0], at, depth + 1)
        elif isinstance(e, (ast.GeneratorExp, ast.ListComp)) and len(e.generators) == 1 and isinstance(e.generators[0].target, ast.Name) and isinstance(e.elt, ast.Name) and e.elt.id == e.generators[0].target.id:
            v = e.generators[0].target.id
            for cond in e.generators[0].ifs:
                fa.sym.scope.append({v})
                try:
                    c = fa.sym.cmp(cond, at)
                finally:
                    fa.sym.scope.pop()
                ok_grid = c[0] == "rel" and c[1] == "<=" and c[4] == Poly.atom(f"{v}.time") - Poly.atom("self.timesteps[-1]")
                ok_markov = c[0] == "rel" and c[1] == "<=" and c[4] == Poly.atom("self.timesteps[0]") - Poly.atom(f"{v}.time")
                if not (ok_grid or ok_markov):
                    state["bad"] = f"events are filtered by `{ast.unparse(cond)}` (only `e.time <= timesteps[-1]` and, under markov reset, `e.time >= timesteps[0]` may drop events)"
            derive(e.generators[0].iter, at, depth + 1)
        elif isinstance(e, ast.Name):
            n = fa.cfg.node_of(e)
            defs = fa.rd.reaching(e.id, n.id if n is not None else at)
            if not defs:
                state["bad"] = f"{e.id} undefined"
            for d in defs:
                if d.kind == "assign" and d.value is not None:
                    derive(d.value, d.node, depth + 1)
                else:
                    state["bad"] = f"{e.id} defined by {d.kind}"
        elif isinstance(e, ast.Attribute) and ast.unparse(e) == "self.events":
            pass
        else:
            state["bad"] = f"source {ast.unparse(e)[:50]}"
    derive(loop.iter, fa.cfg.node_of(loop.iter).id)
    outer_sorted = isinstance(loop.iter, ast.Call) and isinstance(loop.iter.func, ast.Name) and loop.iter.func.id == "sorted"
    it = fa.sym.canon(loop.iter)
    ck.check(state["sorted"] and state["bad"] is None, "IDIOM", "S4.global-stable-sort", subj, fa.loc(loop),
             "events are iterated in one globally (stably) sorted sequence derived from all of self.events by sorted() and pure filters",
             f"the partition loop source is not a global stable sort of self.events: {state['bad'] or 'no sorted() in the chain'} ({it[:100]})", construct=stmt_text(loop))
    for name, op in (("__lt__", "<"), ("__le__", "<=")):
        fo = an.fa(f"IEvent.{name}")
        rets = returns_in(fo)
        c = fo.sym.cmp(rets[0].value) if len(rets) == 1 else None
        other = fo.f.params[1]
        ok = c is not None and c[0] == "rel" and c[1] == op and c[4] == Poly.atom("self.time") - Poly.atom(f"{other}.time")
        ck.check(ok, "SIB", f"S4.event-order-{name}", fo.f.short, fo.f.loc, f"IEvent.{name} compares time only ({op})", f"IEvent.{name} returns {cmp_key(c) if c else '?'}", construct=name)
    # S3 filters inside the sorted(...) source and around the loop
    srcs = [n for n in walk_function(fa.f.node) if isinstance(n, (ast.GeneratorExp, ast.ListComp))]
    grid_filter = markov_filter = False
    for g in srcs:
        for gen in g.generators:
            v = gen.target.id if isinstance(gen.target, ast.Name) else None
            for cond in gen.ifs:
                fa.sym.scope.append({v} if v else set())
                try:
                    c = fa.sym.cmp(cond, fa.node_of(g).id)
                finally:
                    fa.sym.scope.pop()
                if c[0] == "rel" and c[1] == "<=" and c[4] == Poly.atom(f"{v}.time") - Poly.atom("self.timesteps[-1]"):
                    grid_filter = True
                elif c[0] == "rel" and c[1] == "<" and c[4] == Poly.atom(f"{v}.time") - Poly.atom("self.timesteps[-1]"):
                    ck.fail("CMP", "S3.after-grid-filter", subj, fa.loc(g), "events stamped exactly at the last timestep are dropped (strict <)", construct=ast.unparse(g))
                    grid_filter = None
                elif c[0] == "rel" and c[1] == "<=" and c[4] == Poly.atom("self.timesteps[0]") - Poly.atom(f"{v}.time"):
                    preds = fa.guard_predicates(g)
                    if any(p[0] == "truthy" and p[1] == "self._markov_reset" and p[2] for p in preds):
                        markov_filter = True
    loop_grid = False
    for n in ast.walk(loop):
        if isinstance(n, ast.If):
            c = fa.sym.cmp(n.test)
            if c[0] == "rel" and c[1] == "<=" and "self.timesteps[-1]" in c[2] and ".time" in c[2]:
                loop_grid = True
    if grid_filter is not None:
        ck.check(bool(grid_filter) or loop_grid, "CMP", "S3.after-grid-filter", subj, fa.loc(loop), "events with time <= timesteps[-1] (inclusive) are kept, later ones never delivered",
                 "no filter `e.time <= self.timesteps[-1]`: events after the grid would raise or be mis-filed", construct="e.time <= self.timesteps[-1]")
    ck.check(markov_filter, "CMP", "S3.markov-filter", subj, fa.f.loc, "under markov reset events before the first timestep are dropped (e.time >= timesteps[0] kept)",
             "no `e.time >= self.timesteps[0]` filter under self._markov_reset", construct="if self._markov_reset: events = [e for e in events if e.time >= self.timesteps[0]]")
    # S1 key + S5 split, read at the appends
    info = {}

    def on_stmt(s, fw):
        for c in apps:
            if any(c is x for x in ast.walk(s)) and isinstance(s, ast.Expr):
                wants = [fw.canon(ast.parse(f"self.timesteps[{b}(self.timesteps, {ev}.time)]", mode="eval").body) for b in ("bisect.bisect_left", "np.searchsorted")]
                info[id(c)] = (fw.canon(c.func.value.slice), fw.canon(c.args[0]) if c.args else "?", wants, fw.canon(ast.Name(id=ev, ctx=ast.Load())))
    fw = Forward(an, fa, on_stmt=on_stmt, call_effects=False).run()
    fe = Forward(an, fa, call_effects=False)
    fe.st.locals[ev] = fw_loopvar(fa, loop, ev)
    for c in apps:
        if id(c) not in info:
            ck.fail("IDIOM", "S1.slot-is-bisect-left", subj, fa.loc(c), "partition append is not a plain statement", construct=stmt_text(c))
            continue
        key, arg, wants, item = info[id(c)]
        ok = key in wants
        ck.check(ok, "IDIOM", "S1.slot-is-bisect-left", subj, fa.loc(c), "the event is filed under timesteps[bisect_left(timesteps, event.time)]: the first timestep >= its time",
                 f"partition key is {key}", construct=stmt_text(c))
        ck.check(arg == item, "ARGFLOW", "S2.appends-the-event", subj, fa.loc(c), "the loop's event itself is appended", f"appended value is {arg}", construct=stmt_text(c))
    # sorted(set(timesteps)) dominates the loop
    norm = [s for s in assigns_to_attr(fa, "timesteps")]
    good_norm = [s for s in norm if isinstance(s, ast.Assign) and fa.sym.canon(s.value) == "sorted(set(self.timesteps))"]
    if not good_norm:
        ck.fail("ORD", "S1.grid-sorted-unique", subj, fa.f.loc, "timesteps are not normalised with sorted(set(...)) before use", construct="self.timesteps = sorted(set(self.timesteps))")
    else:
        ord_before(ck, fa, "S1.grid-sorted-unique", good_norm, [loop.iter], "self.timesteps = sorted(set(self.timesteps))", "the partition loop")
    # S5 latency split
    lat_app = [c for c in apps if "_partition_latent" in ast.unparse(c.func.value.value)]
    non_app = [c for c in apps if "_partition_nonlatent" in ast.unparse(c.func.value.value)]
    ck.check(len(lat_app) == 1 and len(non_app) == 1, "PATHCOUNT", "S2.two-partitions", subj, fa.loc(loop), "one append site per partition", f"{len(lat_app)} latent and {len(non_app)} non-latent append sites",
             construct="partition appends")
    if len(lat_app) == 1 and len(non_app) == 1:
        gl = [p for p in fa.syntactic_guards(lat_app[0]) if p[0] == "rel" and lat_p in p[2]]
        gn = [p for p in fa.syntactic_guards(non_app[0]) if p[0] == "rel" and lat_p in p[2]]
        ok = False
        detail = f"latent under {[cmp_key(p) for p in gl]}, non-latent under {[cmp_key(p) for p in gn]}"
        if len(gl) == 1 and len(gn) == 1:
            a, b = gl[0], gn[0]
            el = [t for t in a[4].atoms() if "total_seconds()" in t]
            # latent:  elapsed - latency <= 0 ; non-latent: latency - elapsed < 0
            if a[1] == "<=" and b[1] == "<" and a[4] == -b[4] and poly_mentions(a[4], lat_p, sign=-1) and len(el) == 1 and len(a[4].t) == 2:
                want_el = f"(-self.timesteps[-1 + {_bl(fa, ev)}] + ({_evk(fa, loop, ev)}).time).total_seconds()"
                ok = True
                prevk = el[0]
                ck.check(".total_seconds()" in prevk and "//" not in prevk and "FloorDiv" not in prevk and ".seconds" not in prevk.replace("total_seconds", ""), "IDIOM", "S5.exact-elapsed-seconds", subj, fa.loc(lat_app[0]),
                         "elapsed time is exact (timedelta.total_seconds())", f"elapsed time is computed as {prevk}", construct="sec_since_timestep = ...")
                at_ = fa.node_of(lat_app[0]).id
                okp = False
                # the slot index: one of the bisect_left-family searches S1 accepts (by value id, whatever local carries it)
                for idx_txt in (f"bisect.bisect_left(self.timesteps, {ev}.time)", f"np.searchsorted(self.timesteps, {ev}.time)"):
                    for sent in ("datetime(1800, 1, 1)", "datetime.min", "pd.Timestamp.min"):
                        spec = fa.sym.canon(ast.parse(f"({ev}.time - (self.timesteps[({idx_txt}) - 1] if ({idx_txt}) - 1 >= 0 else {sent})).total_seconds()", mode="eval").body, at_)
                        if prevk == spec:
                            okp = True
                ck.check(okp, "ARGFLOW", "S5.elapsed-since-previous-timestep", subj, fa.loc(lat_app[0]),
                         "elapsed time is measured from timesteps[index - 1] when index - 1 >= 0, from a far-past sentinel otherwise", f"elapsed time is {prevk[:200]}", construct="timestep_previous = self.timesteps[index - 1] if index - 1 >= 0 else <far past>")
            elif a[1] == "<" and poly_mentions(a[4], lat_p, sign=-1):
                detail = "latent requires elapsed < latency (strict): an event exactly at the latency bound is applied after the execution"
        if not ok:
            # elapsed derived without total_seconds (e.g. floor division by a timedelta)
            pass
        ck.check(ok, "CMP", "S5.latent-iff-within-latency", subj, fa.loc(lat_app[0]), "latent iff elapsed seconds since the previous timestep <= latency (inclusive), non-latent otherwise",
                 f"latency split is wrong: {detail}", construct="if sec_since_timestep <= latency")
    # S2 path count per iteration
    head = fa.cfg.node_of(loop.iter)
    anodes = {}
    for c in apps:
        anodes[fa.node_of(c).id] = anodes.get(fa.node_of(c).id, 0) + 1
    ends = {a for (a, b) in fa.cfg.back_edges() if b == head.id}
    hi = 0
    lo = 10 ** 6
    for e in ends:
        pc = fa.cfg.path_count(lambda n: anodes.get(n.id, 0), start=head.id, ends=[e])
        if e in pc:
            lo, hi = min(lo, pc[e][0]), max(hi, pc[e][1])
    ck.check(hi == 1, "PATHCOUNT", "S2.at-most-one-partition", subj, fa.loc(loop), "an event is appended to at most one partition", f"an event can be appended {hi} times", construct=stmt_text(loop))
    # every skip inside the loop is the after-grid filter
    allowed_continues, kinds_of = set(), {}

    def _files_or_skips(n_):
        # a branch decides whether / where an event is filed only if it appends, skips or raises; one that merely computes a local does not
        return any(isinstance(x, (ast.Continue, ast.Break, ast.Raise, ast.Return)) or (isinstance(x, ast.Call) and isinstance(x.func, ast.Attribute) and x.func.attr in ("append", "appendleft", "extend", "insert"))
                   for b_ in n_.body + n_.orelse for x in ast.walk(b_))
    for n in ast.walk(loop):
        if isinstance(n, ast.If) and _files_or_skips(n):
            guard_clause = len(n.body) == 1 and isinstance(n.body[0], ast.Continue) and not n.orelse      # `if not keep: continue` is `if keep: <rest of the body>`
            c = fa.sym.cmp(n.test, neg=guard_clause)
            if guard_clause:
                allowed_continues.add(id(n.body[0]))
            kind = None
            evk = fa.sym.canon(ast.Name(id=ev, ctx=ast.Load()), fa.cfg.node_of(n.test).id)
            grid_ = specv(fa, f"{ev}.time - self.timesteps[-1]", fa.cfg.node_of(n.test).id)
            if c[0] == "rel" and c[1] == "<=" and c[4] == grid_:
                kind = "grid"
            elif c[0] == "rel" and lat_p in c[2]:
                kind = "latency"
            elif any(isinstance(b, ast.Raise) for b in n.body):
                kind = "sanity-raise"
            if guard_clause:
                kinds_of[id(n.body[0])] = kind
            ck.check(kind is not None, "GUARD", "S2.no-other-filter", subj, fa.loc(n), f"branch in the partition loop is the {kind} test", f"an additional condition `{ast.unparse(n.test)[:60]}` decides whether events are filed",
                     construct="if " + ast.unparse(n.test))
        if isinstance(n, (ast.Continue, ast.Break)) and not (id(n) in allowed_continues and kinds_of.get(id(n)) == "grid"):
            ck.fail("GUARD", "S2.no-other-filter", subj, fa.loc(n), "the partition loop skips events with continue/break", construct=stmt_text(n))
    # S6 latency bound
    tests = []
    for r in raises_in(fa):
        sg = fa.syntactic_guards(r)
        iff_ = next((p for p in parents(r) if isinstance(p, ast.If)), None)
        gap_ = specv(fa, f"self._min_timesteps_diff() - {lat_p}", fa.node_of(iff_.test).id) if iff_ is not None else None
        if len(sg) == 1 and sg[0][0] == "rel" and gap_ is not None and sg[0][4] in (gap_, -gap_):
            a = sg[0]
            ok = a[1] == "<=" and a[4] == gap_
            ck.check(ok, "CMP", "S6.latency-below-min-gap", subj, fa.loc(r), "latency >= minimum timestep gap raises", f"latency bound test is {cmp_key(a)}", construct=stmt_text(next(p for p in parents(r) if isinstance(p, ast.If))))
            tests.append(next(p for p in parents(r) if isinstance(p, ast.If)).test)
    if not tests:
        ck.fail("GUARD", "S6.latency-below-min-gap", subj, fa.f.loc, "no raise for latency >= minimum gap", construct="missing:if latency >= self._min_timesteps_diff(): raise")
    else:
        builds = [s for s in assigns_to_attr(fa, "_partition_latent") + assigns_to_attr(fa, "_partition_nonlatent")]
        ord_before(ck, fa, "S6.bound-checked-before-building", tests, builds + [loop.iter], "the latency bound check", "building the partitions", rule="GUARD")
    fm = an.fa("Transmitter._min_timesteps_diff")
    rets = [fm.sym.canon(r.value) for r in returns_in(fm)]
    ck.check(len(rets) == 1 and rets[0].startswith("min(") and "total_seconds()" in rets[0] and ("np.diff(self.timesteps)" in rets[0] or "numpy.diff(self.timesteps)" in rets[0]), "LIN", "S6.min-gap", fm.f.short, fm.f.loc,
             "the minimum gap is min over consecutive timestep differences, in seconds", f"_min_timesteps_diff returns {rets}", construct="min gap")
    for attr in ("_partition_latent", "_partition_nonlatent"):
        st = [x for x in assigns_to_attr(fa, attr)]
        vals = [fa.sym.canon(x.value, fa.node_of(x).id) for x in st if isinstance(x, ast.Assign)]
        ck.check(vals in (["defaultdict(list)"], ["collections.defaultdict(list)"]), "IDIOM", "S2.partitions-default-empty", subj, fa.f.loc, f"{attr} is a fresh defaultdict(list): a step without events of that kind yields an empty batch",
                 f"{attr} = {vals}", construct=f"self.{attr} = defaultdict(list)")
    # every call rebuilds the partitions from the current events: no early return before the loop
    builds = [x for x in assigns_to_attr(fa, "_partition_latent") + assigns_to_attr(fa, "_partition_nonlatent")]
    bn = {fa.node_of(x).id for x in builds}
    early = [r for r in returns_in(fa)]
    ck.check(not early and bool(bn) and all(fa.cfg.every_path_from_passes(fa.cfg.entry.id, {fa.node_of(x).id}) for x in builds) and fa.cfg.every_path_from_passes(fa.cfg.entry.id, {head.id}),
             "PATHCOUNT", "S2.partitions-always-rebuilt", subj, fa.loc(early[0]) if early else fa.f.loc, "every (non-raising) call of _create_partitions rebuilds both partitions from self.events",
             "_create_partitions can return without rebuilding the partitions (stale partitions when events or the grid changed)", construct=stmt_text(early[0]) if early else "early return")
    # ownership of the partitions
    for attr in ("_partition_latent", "_partition_nonlatent"):
        own_writers(ck, an, "S2.partitions-written-once", "Transmitter", attr, {"Transmitter._create_partitions", "Transmitter.__init__"}, min_sites=1)
    own_callers(ck, an, "S2.create-partitions-callers", "Transmitter._create_partitions", {"TradingEnv.__init__", "Transmitter._reset"})


def latency_plumbing(ck, an):
    """The latency the environment was configured with is the one the partitions are built with, unchanged (by value id)."""
    fi = an.fa("TradingEnv.__init__")
    calls = [c for c in fi.calls_named("_create_partitions")]
    ck.floor("_create_partitions calls in TradingEnv.__init__", len(calls), 1)
    for c in calls:
        at = fi.node_of(c).id
        got = fi.sym.canon(c.args[0], at) if c.args else (fi.sym.canon(c.keywords[0].value, at) if c.keywords else "<default>")
        ck.check(got in ("latency", "float(latency)"), "ARGFLOW", "S5.configured-latency-reaches-partitions", fi.f.short, fi.loc(c), "the partitions are built with the configured latency, as given",
                 f"_create_partitions receives {got[:120]}, not the `latency` argument as given (converted / re-scaled / defaulted on the way)", construct=stmt_text(c))
    for s_ in assigns_to_attr(fi, "_latency"):
        if isinstance(s_, ast.Assign):
            got = fi.sym.canon(s_.value, fi.node_of(s_).id)
            ck.check(got in ("latency", "float(latency)"), "ARGFLOW", "S5.configured-latency-stored", fi.f.short, fi.loc(s_), "the environment stores the configured latency as given", f"self._latency = {got[:120]}", construct=stmt_text(s_))


def custom_events(ck, an):
    fa = an.fa("Transmitter.add_custom_events")
    st = [s_ for s_ in all_stmts(fa) if isinstance(s_, ast.Assign) and ast.unparse(s_.targets[0]).endswith(".time")]
    lp = [n for n in walk_function(fa.f.node) if isinstance(n, ast.For) and ast.unparse(n.iter) == "data.iterrows()"]
    idx = lp[0].target.elts[0].id if lp and isinstance(lp[0].target, ast.Tuple) else "index"
    ck.check(len(st) == 1 and ast.unparse(st[0].value) == idx and not fa.syntactic_guards(st[0]), "ARGFLOW", "S1.custom-event-time-is-row-index", fa.f.short, fa.f.loc, "a custom event is stamped with its row's index",
             f"custom event time is {[ast.unparse(s_.value) for s_ in st]}", construct="event.time = index")
    ap = [c for c in fa.calls_named("append") if ast.unparse(c.func.value) == "self.events"]
    ck.check(len(ap) == 1 and lp and any(ap[0] is x for x in ast.walk(lp[0])) and not fa.syntactic_guards(ap[0]), "PATHCOUNT", "S2.custom-event-recorded", fa.f.short, fa.f.loc, "every row yields one event in self.events",
             "custom events are not appended once per row", construct="self.events.append(event)")
    fi = an.fa("Transmitter.__init__")
    ts = assigns_to_attr(fi, "timesteps")
    ck.check(len(ts) == 1 and ast.unparse(ts[0].value) == "list(timesteps)", "ARGFLOW", "S1.grid-copied", fi.f.short, fi.f.loc, "the transmitter keeps its own copy of the grid", f"timesteps = {[ast.unparse(x.value) for x in ts]}",
             construct="self.timesteps = list(timesteps)")
    ev = assigns_to_attr(fi, "events")
    ck.check(len(ev) == 1 and ast.unparse(ev[0].value) in ("list()", "[]"), "ARGFLOW", "S2.events-start-empty", fi.f.short, fi.f.loc, "each transmitter starts with its own empty event list", f"events = {[ast.unparse(x.value) for x in ev]}",
             construct="self.events = list()")


def fw_loopvar(fa, loop, ev):
    return Poly.atom(ev)


def _bl(fa, ev):
    return ""


def _evk(fa, loop, ev):
    return ""


# ------------------------------------------------------------------ dispatch

def dispatch(ck, an):
    fa = an.fa("IEvent.notify")
    subj = fa.f.short
    loops = [n for n in walk_function(fa.f.node) if isinstance(n, ast.For)]
    if len(loops) != 1:
        ck.fail("PATHCOUNT", "S2.dispatch-loop", subj, fa.f.loc, "IEvent.notify does not loop once over the observers", construct="for observer in observers")
        return
    loop = loops[0]
    obs = loop.target.id
    # (a `continue` can only skip an observer under the subscription test: that is S2.only-subscribed, read off the path guards)
    ck.check(fa.sym.canon(loop.iter) == fa.f.params[1] and not any(isinstance(n, (ast.Break, ast.Return)) for n in ast.walk(loop)), "ARGFLOW", "S2.all-observers", subj, fa.loc(loop),
             "every observer passed in is visited", "the dispatch loop skips observers or stops early", construct=stmt_text(loop))
    cb_calls = []
    for c in ast.walk(loop):
        if isinstance(c, ast.Call) and isinstance(c.func, ast.Name) and c.args and fa.sym.canon(c.args[0]) == "self":
            k = fa.sym.canon(c.func)
            if k.startswith("getattr("):
                cb_calls.append((c, k))
        elif isinstance(c, ast.Call) and isinstance(c.func, ast.Call) and fa.sym.canon(c.func).startswith("getattr(") and c.args and fa.sym.canon(c.args[0]) == "self":
            cb_calls.append((c, fa.sym.canon(c.func)))
    ck.check(len(cb_calls) == 1, "PATHCOUNT", "S2.one-callback-per-observer", subj, fa.loc(loop), "one callback invocation site per observer", f"{len(cb_calls)} callback invocation sites", construct="callback(self)")
    for c, k in cb_calls:
        oatom = loop_item(fa, loop).key()
        want = f"getattr({oatom}, ({oatom})._observed_events[type(self).__name__])"
        want2 = f"getattr({oatom}, {oatom}._observed_events[type(self).__name__])"
        ck.check(k in (want, want2), "ARGFLOW", "S2.callback-by-class-name", subj, fa.loc(c), "the callback is the observer's method registered under the event's class name",
                 f"callback is {k}", construct=stmt_text(c))
        sg = fa.path_guards(c)
        ok = len(sg) == 1 and sg[0][0] == "in" and sg[0][3] and sg[0][1] == "type(self).__name__" and sg[0][2].endswith("._observed_events")
        ck.check(ok, "GUARD", "S2.only-subscribed", subj, fa.loc(c), "the callback runs iff the observer subscribes to this event type", f"callback guarded by {[cmp_key(p) for p in sg]}", construct=stmt_text(c))
        head = fa.cfg.node_of(loop.iter)
        cn = fa.node_of(c).id
        ends = {a for (a, b) in fa.cfg.back_edges() if b == head.id}
        hi = 0
        for e in ends:
            pc = fa.cfg.path_count(lambda n: 1 if n.id == cn else 0, start=head.id, ends=[e])
            if e in pc:
                hi = max(hi, pc[e][1])
        ck.check(hi == 1, "PATHCOUNT", "S2.callback-once", subj, fa.loc(c), "the callback is invoked at most once per observer and event", f"callback can run {hi} times", construct=stmt_text(c))
    # after the callback: last_update, callback counter and the observer's own post-hook, once each
    for what, pred in (("last_update", lambda x: isinstance(x, ast.Assign) and ast.unparse(x.targets[0]).endswith(".last_update")),
                       ("_nr_callbacks", lambda x: _is_increment(fa, x, "_nr_callbacks")),
                       ("observer()", lambda x: isinstance(x, ast.Expr) and isinstance(x.value, ast.Call) and ast.unparse(x.value) == f"{obs}()")):
        sites = [x for x in ast.walk(loop) if pred(x)]
        okp = len(sites) == 1 and cb_calls and fa.reachable_from(cb_calls[0][0], sites[0]) and [cmp_key(p) for p in fa.path_guards(sites[0])] == [cmp_key(p) for p in fa.path_guards(cb_calls[0][0])]
        ck.check(bool(okp), "PATHCOUNT", f"S2.dispatch-protocol-{what}", subj, fa.loc(loop), f"after each callback {what} is updated / invoked exactly once, under the same subscription test",
                 f"dispatch protocol step `{what}` is missing, duplicated or differently guarded ({len(sites)} sites)", construct=what)
    # last_update stamped with the event's time
    for s in ast.walk(loop):
        if isinstance(s, ast.Assign) and ast.unparse(s.targets[0]).endswith(".last_update"):
            ck.check(fa.sym.canon(s.value) == "self.time", "ARGFLOW", "S8.observer-last-update", subj, fa.loc(s), "observer.last_update is the event's time", f"last_update = {fa.sym.canon(s.value)}", construct=stmt_text(s))
    # subscription covers inherited callbacks
    fg = an.fa("Observer._get_observed_events")
    lp = [n for n in walk_function(fg.f.node) if isinstance(n, ast.For)]
    it = fg.sym.canon(lp[0].iter) if lp else "?"
    ck.check(it in ("dir(self.__class__)", "dir(type(self))", "dir(self)"), "IDIOM", "S2.subscriptions-cover-mro", fg.f.short, fg.f.loc, "process_* callbacks are discovered over the whole class hierarchy (dir)",
             f"callbacks are discovered from {it} (inherited callbacks would be missed)", construct="for attr_name in dir(self.__class__)")
    pref = [c for c in fg.calls_named("startswith") if c.args and const_value(c.args[0]) == "process_"]
    ck.check(bool(pref), "IDIOM", "S2.subscriptions-prefix", fg.f.short, fg.f.loc, "callbacks are the attributes starting with process_", "no startswith('process_') test", construct="attr_name.startswith('process_')")
    st = [s for s in ast.walk(fg.f.node) if isinstance(s, ast.Assign) and isinstance(s.targets[0], ast.Subscript)]
    ok = any(fg.sym.canon(s.targets[0].slice).endswith(".replace('process_', '')") and fg.sym.canon(s.value).startswith("attr_name") or
             (fg.sym.canon(s.targets[0].slice).count("process_") == 1 and "replace" in fg.sym.canon(s.targets[0].slice)) for s in st)
    ck.check(ok, "ARGFLOW", "S2.subscription-map", fg.f.short, fg.f.loc, "event name -> callback name map strips the process_ prefix", "subscription map is not {EventName: process_EventName}", construct="observed_events[event_name] = attr_name")


def _is_increment(fa, x, attr):
    """`o.attr += 1` or `o.attr = o.attr + 1` (the same increment)"""
    if isinstance(x, ast.AugAssign):
        return isinstance(x.target, ast.Attribute) and x.target.attr == attr and isinstance(x.op, ast.Add) and const_value(x.value) == 1
    if isinstance(x, ast.Assign) and len(x.targets) == 1 and isinstance(x.targets[0], ast.Attribute) and x.targets[0].attr == attr:
        at = fa.node_of(x).id
        t = x.targets[0]
        return fa.sym.ev(x.value, at) == fa.sym.ev(ast.Attribute(value=t.value, attr=attr, ctx=ast.Load()), at) + Poly.const(1)
    return False


def partition_reads(ck, an, name="S5.partition-reads-do-not-insert"):
    """The partitions are defaultdicts: `partition[k]` INSERTS k when it is absent, and Transmitter._reset derives an episode's
    steps from the partitions' keys. Outside _create_partitions a partition is therefore subscripted only with the current
    step (itself one of those keys); any other key is read with .get(k, default)."""
    n = 0
    for f in an.functions():
        if f.short == "Transmitter._create_partitions":
            continue
        if expanded_helper(an, f):
            continue          # analysed where it was expanded, with the key it is really given
        fa = an.fa(f)
        for node in walk_function(f.node):
            if isinstance(node, ast.Subscript) and isinstance(node.value, ast.Attribute) and node.value.attr in ("_partition_latent", "_partition_nonlatent"):
                n += 1
                k = fa.sym.canon(node.slice)
                ok = isinstance(node.ctx, ast.Load) and k in ("self._current_time", "self._steps[self._step_nr]")
                ck.check(ok, "ALIAS", name, f.short, f"{f.module.relpath}:{node.lineno}", "the partition is subscripted with the current step only (a key it already has)",
                         f"`{ast.unparse(node)[:70]}` subscripts a defaultdict partition with {k[:80]}: an absent key is inserted and becomes a step of later episodes (or the partition is written outside _create_partitions)",
                         construct="partition subscript with a key other than the current step")
    ck.floor("partition subscripts outside _create_partitions", n, 2)


# ------------------------------------------------------------------ _next

def nxt(ck, an):
    fa = an.fa("Transmitter._next")
    subj = fa.f.short
    # step pointer
    incs, other_w = attr_increments(fa, "_step_nr", 1)
    pc = fa.cfg.path_count(lambda n: sum(1 for s in incs if fa.node_of(s).id == n.id), ends=[fa.cfg.exit.id])
    lo, hi = pc.get(fa.cfg.exit.id, (0, 0))
    ck.check((lo, hi) == (1, 1) and not other_w, "PATHCOUNT", "S2.step-pointer-advances-once", subj, fa.f.loc,
             "the step pointer advances by exactly 1 per batch", f"_step_nr advances {lo}..{hi} times per call", construct="self._step_nr += 1")
    cur = [s for s in assigns_to_attr(fa, "_current_time")]
    ok = len(cur) == 1 and isinstance(cur[0], ast.Assign) and fa.sym.canon(cur[0].value) == "self._steps[self._step_nr]"
    ck.check(ok, "ARGFLOW", "S2.current-time-is-step", subj, fa.f.loc, "_current_time = _steps[_step_nr]", f"_current_time = {[ast.unparse(s.value) for s in cur if isinstance(s, ast.Assign)]}", construct="self._current_time = self._steps[self._step_nr]")
    if cur and incs:
        ord_before(ck, fa, "S2.read-before-advance", cur, incs, "reading the current step", "advancing the pointer")
    # StopIteration on IndexError
    stop = [r for r in raises_in(fa, "StopIteration")]
    ok = False
    for r in stop:
        for p in parents(r):
            if isinstance(p, ast.ExceptHandler) and p.type is not None and "IndexError" in ast.unparse(p.type):
                ok = True
    ck.check(ok, "GUARD", "S3.stop-at-episode-end", subj, fa.f.loc, "running past the episode's last step raises StopIteration", "no `except IndexError: raise StopIteration`", construct="except IndexError: raise StopIteration()")
    # S7 / S9: what _next hands out, as a decision table over (first batch of the episode?, markov reset?): the function is
    # evaluated abstractly under each assignment and the returned pair compared, as value ids, with its specification. The
    # statement form (if/else, early return for regular steps, temporaries, renamed locals) is immaterial.
    FIRST = ("rel", "==", "self._step_nr", False, Poly.atom("self._step_nr"))        # the pointer was 0 before this call: the first batch
    MARKOV = ("truthy", "self._markov_reset", True)

    ORIGIN = "((self._current_time - self._warmup) if self._warmup else datetime.min)"
    HIST = []
    for union in ("set(self._partition_latent) | set(self._partition_nonlatent)", "set(self._partition_nonlatent) | set(self._partition_latent)"):
        for empty in ("list()", "[]"):
            for sel in (f"sorted(t for t in {union} if {ORIGIN} <= t <= self._current_time)", f"sorted([t for t in {union} if {ORIGIN} <= t <= self._current_time])"):
                for dflt in ("[]", "()", "list()", "tuple()"):      # the default only has to be an empty iterable
                    flat = "[e for t in {sel} for e in self._partition_latent.get(t, {d}) + self._partition_nonlatent.get(t, {d})]"
                    HIST.append(ast.parse(f"({empty}, {flat.format(sel=sel, d=dflt)})", mode="eval").body)
    REG = [ast.parse("(self._partition_latent[self._current_time], self._partition_nonlatent[self._current_time])", mode="eval").body]

    def returned(fw_, events):
        """for every live return: (value id, is the specified history pair, is the specified regular pair) - the specifications
        are evaluated in the state of that very return, by the same evaluator"""
        out = []
        for r_, v, st_ in fw_.returns:
            if v is None:
                continue
            fw_.st = st_
            hs = {fw_.canon(x) for x in HIST}
            rs = {fw_.canon(x) for x in REG}
            out.append((v.key(), v.key() in hs, v.key() in rs, sorted(hs)[0]))
        return out
    tab = decision_table(fa, [FIRST, MARKOV], returned)
    for (first, markov), got in tab.items():
        want_hist = first and not markov
        regime = f"first batch={first}, markov reset={markov}"
        keys = sorted({g[0] for g in got})
        if want_hist:
            ok = len(keys) == 1 and all(g[1] for g in got)
            ck.check(ok, "IDIOM", "S7.history-batch-ordered", subj, fa.f.loc,
                     "the first batch (markov reset off) is ([], history): for each event-bearing timestep t of either partition with origin <= t <= current time, in ascending order, its latent events then its "
                     "non-latent events; origin = current time - warm-up horizon, or the beginning of time",
                     f"{regime}: _next returns {[k[:300] for k in keys]}", construct="history branch of _next", witness=[f"got       {k}" for k in keys] + [f"specified {got[0][3] if got else '?'}"])
        else:
            ok = len(keys) == 1 and all(g[2] for g in got)
            ck.check(ok, "ARGFLOW", "S7.step-batch-is-own-partitions" if not first else "S9.history-on-first-step-only", subj, fa.f.loc,
                     "a regular step (and the first one under markov reset) hands out (latent[current], nonlatent[current])", f"{regime}: _next returns {[k[:200] for k in keys]}",
                     construct="return events_latent, events_nonlatent (step)")
    if incs:
        tests_ = [n_.test for n_ in ast.walk(fa.f.node) if isinstance(n_, ast.If) and any(isinstance(x, ast.Attribute) and x.attr == "_step_nr" for x in ast.walk(n_.test))]
        if tests_:
            ord_before(ck, fa, "S9.first-step-test-after-advance", incs, tests_, "the pointer advance", "the first-step test (_step_nr == 1)")
    partition_reads(ck, an)
    own_callers(ck, an, "S2.next-callers", "Transmitter._next", {"TradingEnv.reset", "TradingEnv._process_nonlatent_events"})
    # _reset rewinds the pointer
    fr = an.fa("Transmitter._reset")
    z = [s for s in assigns_to_attr(fr, "_step_nr") if isinstance(s, ast.Assign) and const_value(s.value) == 0]
    ck.check(bool(z) and fr.cfg.every_path_from_passes(fr.cfg.entry.id, {fr.node_of(s).id for s in z}), "RESET", "S2.reset-rewinds-pointer", fr.f.short, fr.f.loc, "_reset sets _step_nr = 0 on every path",
             "_reset does not always rewind the step pointer", construct="self._step_nr = 0")


def _pair_stored(an, fa):
    """Some assignment (directly or through a temporary) stores element 0 of the transmitter's _next() pair as the latent
    batch and element 1 as the non-latent one: read off the value ids of the two stores."""
    import re as _re
    vals = {"_events_latent": set(), "_events_nonlatent": set()}

    def on_stmt(s, fw):
        if isinstance(s, ast.Assign):
            tg = s.targets[0]
            pairs = list(zip(tg.elts, range(len(tg.elts)))) if isinstance(tg, (ast.Tuple, ast.List)) else [(tg, None)]
            v = fw.ev(s.value)
            for t, i in pairs:
                if isinstance(t, ast.Attribute) and t.attr in vals:
                    vals[t.attr].add(f"({v.key()})[{i}]" if i is not None else v.key())
    Forward(an, fa, on_stmt=on_stmt, call_effects=False).run()
    a = [m.group(1) for x in vals["_events_latent"] for m in [_re.match(r"^\((.*_next\(\).*)\)\[0\]$", x)] if m]
    b = [m.group(1) for x in vals["_events_nonlatent"] for m in [_re.match(r"^\((.*_next\(\).*)\)\[1\]$", x)] if m]
    swapped = any(x.endswith(")[1]") and "_next()" in x for x in vals["_events_latent"])
    return bool(a) and bool(b) and set(a) == set(b) and not swapped, {k: sorted(v)[:3] for k, v in vals.items()}


# ------------------------------------------------------------------ env side

def env_side(ck, an):
    # notify
    fa = an.fa("TradingEnv.notify")
    subj = fa.f.short
    ev = fa.f.params[1]
    disp = [c for c in fa.calls_to("IEvent.notify") if isinstance(c, ast.Call)]
    ck.check(len(disp) == 1, "PATHCOUNT", "S2.one-dispatch-per-notify", subj, fa.f.loc, "notify dispatches the event once", f"{len(disp)} dispatch sites", construct="event.notify(self._observers)")
    clock_stores = [s for s in all_stmts(fa) if isinstance(s, ast.Assign) and ast.unparse(s.targets[0]) in ("self._now", "AbstractContract.now")]
    ck.check(len([s for s in clock_stores if ast.unparse(s.targets[0]) == "self._now"]) >= 1, "EFFECT", "S8.clock-set", subj, fa.f.loc, "notify sets the environment clock", "notify never sets self._now", construct="self._now = event.time")
    for s in clock_stores:
        ck.check(fa.sym.canon(s.value) == f"{ev}.time", "ARGFLOW", "S8.clock-is-event-time", subj, fa.loc(s), "the clock is set to the event's time", f"clock set to {fa.sym.canon(s.value)}", construct=stmt_text(s))
    for attr_txt in ("self._now", "AbstractContract.now"):
        stores_a = [x for x in clock_stores if ast.unparse(x.targets[0]) == attr_txt]
        ck.check(len(stores_a) >= 1, "EFFECT", "S8.both-clocks-set", subj, fa.f.loc, f"notify sets {attr_txt} (the clock {'contracts' if 'Abstract' in attr_txt else 'the environment'} read)", f"notify never sets {attr_txt}",
                 construct=f"{attr_txt} = event.time")
        if disp and stores_a:
            ord_before(ck, fa, "S8.each-clock-before-dispatch", stores_a, [disp[0]], f"the store of {attr_txt}", "the dispatch")
    if disp:
        d = disp[0]
        ck.check(fa.sym.canon(d.func.value) == ev and d.args and fa.sym.canon(d.args[0]) == "self._observers", "ARGFLOW", "S2.dispatch-to-all-observers", subj, fa.loc(d),
                 "the event is dispatched to the environment's observers", f"dispatch is {ast.unparse(d)}", construct=stmt_text(d))
        ord_before(ck, fa, "S8.clock-before-dispatch", clock_stores, [d], "the clock store", "the dispatch")
        # nothing that moves the clock between the last clock store and the dispatch
        writers = set()
        for f in an.functions():
            if any(e.kind == "W" and e.attr in ("_now", "now") and (e.owner in ("TradingEnv", "class:AbstractContract") or e.owner.endswith("AbstractContract")) for e in an.fa(f).effects()):
                writers.add(f.qual)
        for node, tgs, ext, kind in fa.calls():
            if node is d or id(node) in an.res.byname:
                continue
            moves = [g for g in tgs if an.reach(g.qual) & writers]
            if not moves:
                continue
            # is there a path  clock store -> node -> dispatch  without another clock store after node?
            for s in clock_stores:
                if fa.reachable_from(s, node) and fa.reachable_from(node, d):
                    later = [t for t in clock_stores if fa.reachable_from(node, t) and fa.all_paths_to_pass(d, [t]) and not fa.reachable_from(t, node)]
                    ck.check(bool(later), "ORD", "S8.no-clock-move-before-dispatch", subj, fa.loc(node),
                             "a call that moves the clock is followed by a fresh clock store before the dispatch",
                             f"`{ast.unparse(node)[:60]}` (which sets the clock) runs between the clock store and the dispatch: observers see a stale time", construct=stmt_text(node))
                    break
        # last event recorded after dispatch
        le = [s for s in assigns_to_attr(fa, "_last_event")]
        ck.check(bool(le) and all(isinstance(s, ast.Assign) and fa.sym.canon(s.value) == ev and fa.reachable_from(d, s) for s in le), "ORD", "S8.last-event-after-dispatch", subj, fa.f.loc,
                 "the event becomes _last_event after it has been dispatched", "_last_event is not set to the event after the dispatch", construct="self._last_event = event")
    # new-date notification
    nd = [c for c in walk_function(fa.f.node) if isinstance(c, ast.Call) and fa.sym.canon(c.func) == "EventNewDate"]
    # notify(...) calls whose argument is (through temporaries) one of those constructions
    sent_pairs = []
    for nc in walk_function(fa.f.node):
        if isinstance(nc, ast.Call) and nc.args and any(g.short == "TradingEnv.notify" for g in an.res.resolve_call(nc, fa.f)[0]):
            ctor = deref(fa, nc.args[0])[0]
            if any(ctor is c for c in nd):
                sent_pairs.append((ctor, nc))
    sent = [c for c, _ in sent_pairs]
    notify_of = {id(c): n_ for c, n_ in sent_pairs}
    ck.check(len(sent) == 1, "PATHCOUNT", "S8.newdate-notified", subj, fa.f.loc, "a date change is announced with one EventNewDate through notify", f"{len(sent)} EventNewDate notifications in notify", construct="self.notify(EventNewDate(...))")
    if sent and disp:
        okn = fa.reachable_from(notify_of[id(sent[0])], disp[0]) and not fa.reachable_from(disp[0], notify_of[id(sent[0])])
        ck.check(okn, "ORD", "S8.newdate-before-event", subj, fa.loc(sent[0]), "the new-date notification precedes the dispatch of the first event of the new date", "EventNewDate is sent after the event", construct=stmt_text(sent[0]))
    for c in nd:
        a0 = fa.sym.canon(c.args[0]) if c.args else "?"
        ck.check(a0 == "self._last_event.time", "ARGFLOW", "S8.newdate-stamp", subj, fa.loc(c), "EventNewDate is stamped with the previous event's time", f"EventNewDate stamped {a0}", construct=stmt_text(c))
        iff = next((p for p in parents(c) if isinstance(p, ast.If)), None)
        okg = iff is not None and isinstance(iff.test, ast.Call) and any(g.short == "TradingEnv._is_new_date" for g in an.res.resolve_call(iff.test, fa.f)[0]) \
            and iff.test.args and fa.sym.canon(iff.test.args[0]) == f"{ev}.time"
        ck.check(okg, "GUARD", "S8.newdate-guard", subj, fa.loc(c), "EventNewDate is sent only when the event's date differs from the previous event's", "EventNewDate is not guarded by _is_new_date(event.time)", construct=stmt_text(c))
    # own notifications stamped with now()
    for short in ("TradingEnv.reset", "TradingEnv.step"):
        f2 = an.fa(short)
        for c in walk_function(f2.f.node):
            if isinstance(c, ast.Call) and f2.sym.canon(c.func) in ("EventReset", "EventStep", "EventDone"):
                t = c.args[0] if c.args else None
                is_now = isinstance(t, ast.Call) and any(g.short == "TradingEnv.now" for g in an.res.resolve_call(t, f2.f)[0])
                ck.check(is_now, "ARGFLOW", "S8.own-events-stamped-now", f2.f.short, f2.loc(c), f"{f2.sym.canon(c.func)} is stamped with self.now()", f"{ast.unparse(c)[:70]} is not stamped with self.now()",
                         construct=stmt_text(c))
    # latent / nonlatent processing
    fl = an.fa("TradingEnv._process_latent_events")
    _notify_loop(ck, an, fl, "_events_latent")
    # batches are never mutated in place (they are the transmitter's own lists)
    for f in an.functions():
        for e in an.fa(f).effects():
            if e.attr in ("_events_latent", "_events_nonlatent") and e.kind in "MD":
                ck.fail("OWN", "S2.batches-not-mutated", f.short, e.loc, f"{f.short} mutates the batch {e.attr} in place: the list belongs to the transmitter's partitions and is replayed in the next episode",
                        construct=stmt_text(e.node))
    rebind = [s for s in assigns_to_attr(fl, "_events_latent")]
    ck.check(bool(rebind) and all(isinstance(s, ast.Assign) and ast.unparse(s.value) in ("list()", "[]", "()", "tuple()") for s in rebind), "EFFECT", "S2.latent-batch-consumed", fl.f.short, fl.f.loc,
             "after processing, the latent batch is replaced by a fresh empty list (not processed twice)", "the latent batch is not cleared by rebinding to a fresh list", construct="self._events_latent = list()")
    fn = an.fa("TradingEnv._process_nonlatent_events")
    lp = _notify_loop(ck, an, fn, "_events_nonlatent")
    nx = fn.calls_to("Transmitter._next", "AbstractTransmitter._next")
    if lp is not None and nx:
        ok = all(fn.reachable_from(lp.iter, c) and not fn.reachable_from(c, lp.iter) for c in nx)
        ck.check(ok, "ORD", "S2.prefetch-after-dispatch", fn.f.short, fn.loc(nx[0]), "the next batch is fetched after the current one was dispatched", "the next batch is fetched before the current one is dispatched",
                 construct=stmt_text(nx[0]))
    ck.check(len(nx) == 1, "PATHCOUNT", "S2.one-prefetch", fn.f.short, fn.f.loc, "one batch is pre-fetched per step", f"{len(nx)} _next() calls", construct="self._transmitter._next()")
    for c in nx:
        ok, how = _pair_stored(an, fn)
        ck.check(ok, "ARGFLOW", "S7.batch-order-latent-first", fn.f.short, fn.loc(c), "_next()'s pair is stored as (latent, non-latent)", f"_next() result stored as {how}", construct=stmt_text(c))
    own_callers(ck, an, "S2.latent-processing-callers", "TradingEnv._process_latent_events", {"TradingEnv.reset", "TradingEnv.step"})
    own_callers(ck, an, "S2.nonlatent-processing-callers", "TradingEnv._process_nonlatent_events", {"TradingEnv.reset", "TradingEnv.step"})
    # reset order
    fr = an.fa("TradingEnv.reset")
    seq = [fr.calls_to("Transmitter._reset", "AbstractTransmitter._reset"), fr.calls_to("Transmitter._next", "AbstractTransmitter._next"), fr.calls_to("TradingEnv._process_latent_events"),
           fr.calls_to("TradingEnv._process_nonlatent_events"), [c for c in walk_function(fr.f.node) if isinstance(c, ast.Call) and fr.sym.canon(c.func) == "EventReset"]]
    names = ["transmitter._reset", "transmitter._next", "_process_latent_events", "_process_nonlatent_events", "EventReset"]
    for i in range(len(seq) - 1):
        ord_before(ck, fr, f"S7.reset-order-{i}", seq[i], seq[i + 1], names[i], names[i + 1])
    for c in seq[1]:
        ok, how = _pair_stored(an, fr)
        ck.check(ok, "ARGFLOW", "S7.batch-order-latent-first", fr.f.short, fr.loc(c), "_next()'s pair is stored as (latent, non-latent)", f"_next() result stored as {how}", construct=stmt_text(c))


def _notify_loop(ck, an, fa, attr):
    loops = [n for n in walk_function(fa.f.node) if isinstance(n, ast.For) and ast.unparse(n.iter) in (f"self.{attr}", f"list(self.{attr})", f"tuple(self.{attr})")]
    if len(loops) != 1:
        ck.fail("PATHCOUNT", f"S2.notify-loop-{attr}", fa.f.short, fa.f.loc, f"expected one loop over self.{attr}, found {len(loops)}", construct=f"for event in self.{attr}")
        return None
    lp = loops[0]
    calls = [c for c in ast.walk(lp) if isinstance(c, ast.Call) and any(g.short == "TradingEnv.notify" for g in an.res.resolve_call(c, fa.f)[0])]
    ok = len(calls) == 1 and isinstance(lp.target, ast.Name) and ast.unparse(calls[0].args[0]) == lp.target.id and not any(isinstance(x, (ast.If, ast.Continue, ast.Break)) for x in ast.walk(lp))
    ck.check(ok, "PATHCOUNT", f"S2.notify-loop-{attr}", fa.f.short, fa.loc(lp), f"every event of self.{attr} is notified exactly once, in list order",
             f"the loop over self.{attr} does not notify each event exactly once", construct=stmt_text(lp))
    return lp
