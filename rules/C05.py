"""C05 — Margin account invariant and NLV decomposition."""
import ast
from sa.lib import *
from rules import ledger

TECHNIQUE = "static analysis (ast): forward abstract interpretation of the margin / cash / reference ledgers to polynomials compared with the margin invariant and the sweep's zero-sum equation; valuation formulas by evaluation under assumptions (kind, non-flat); guard and ordering rules on the CFG"
EXPLANATION = (
    "Decides the structural clauses of C05 with symbolic ledger equations (value-id / polynomial domain, no execution): (S1) the margin left "
    "by marking_to_market equals liquidation price x |position| x multiplier x margin requirement, and the margin left by transact equals "
    "execution price x |post-trade position| x multiplier x margin requirement (the final re-mark brings it to the liquidation price); (S2) the "
    "formula contains abs() and the negative-margin sanity raise follows the sweep; (S3) the sweep is zero-sum: cash + margin change only by "
    "the variation margin; (S4) contracts with margin_requirement == 0 are skipped before any write; (S5) valuation marks all contracts first; "
    "(S6) liquidation value = cash requirement x position x price x multiplier + posted margin, NLV is their sum, weight = notional / NLV."
)
DECIDED = ["S1 posted margin formula", "S2 never negative / zero when flat", "S3 excess and shortfall swept to/from cash", "S4 no margin without a requirement",
           "S5 valuation marks first", "S6 NLV decomposition and weights"]
NOT_DECIDED = ["numeric equality at every observation point over histories", "several margined contracts interacting through float error", "interplay with the known finding F2 (C01)"]
ASSUMPTIONS = ["abs(x) >= 0; margin_requirement, multiplier, prices are non-negative as the quantifier states"]


def run(ck, an, tier):
    from rules import C14
    from sa.report import Renamed
    C14.s5(Renamed(ck, "C14:"), an)      # exchange[contract] is that contract's own book (keys by symbol / static hashing)
    ledger.marking_equations(ck, an, {"equations", "margin", "guards"})
    ledger.transact_equations(ck, an, {"margin", "equations", "order"})
    ledger.valuation_formulas(ck, an, {"nlv", "weights"})
    ledger.ledger_containers(ck, an, "S7")
    from rules.C01 import cash_at_par
    cash_at_par(ck, an)
    # holdings_weights uses one NLV for all holdings and the same valuation as the report
    fa = an.fa("Broker.holdings_weights")
    nl = fa.calls_to("Broker.net_liquidation_value")
    hv = fa.calls_to("Broker.holdings_values")
    ck.check(len(nl) == 1, "ARGFLOW", "S6.single-nlv", fa.f.short, fa.f.loc, "weights divide by one NLV measurement", f"holdings_weights measures NLV {len(nl)} times", construct="nlv = self.net_liquidation_value()")
    # NLV (which marks to market and sweeps cash) is measured before the notional values are read
    ord_before(ck, fa, "S6.nlv-before-values", nl, hv, "net_liquidation_value() (marks and sweeps)", "holdings_values() used for the weights")
    for c in nl:
        rb = [k for k in c.keywords if k.arg == "raise_if_broke"] + list(c.args)
        ck.check(not rb, "ARGFLOW", "S6.weights-nlv-default", fa.f.short, fa.loc(c), "weights use the default (raising) NLV", "holdings_weights passes raise_if_broke", construct=stmt_text(c))
    # the book liquidation price is LIQ kind: checked in C01-S3 / C14-S4; re-check the side table here
    fl = an.fa("LimitOrderBook.liq_price")
    rets = returns_in(fl)
    ok = len(rets) == 1 and fl.sym.canon(rets[0].value) == f"self.acq_price(-{fl.f.params[1]})"
    if not ok:
        try:
            t2 = sign_table_func(fl, fl.f.params[1])
            ok = t2["pos"] == "self.bid_price" and t2["neg"] == "self.ask_price"
        except AnalysisError:
            ok = False
    ck.check(ok, "SIGN", "S1.liquidation-side", fl.f.short, fl.f.loc, "liq_price: longs at the bid, shorts at the ask", "liq_price is not acq_price of the opposite sign", construct="liq_price")
    fq = an.fa("LimitOrderBook.acq_price")
    tab = sign_table_or_fail(ck, fq, fq.f.params[1], "S3.execution-side-shape") or {"neg": "?", "pos": "?", "zero": "?", "nan": "?"}
    ck.check(tab["neg"] == "self.bid_price" and tab["pos"] == "self.ask_price", "SIGN", "S1.execution-side", fq.f.short, fq.f.loc, "acq_price: sell at bid, buy at ask", f"acq_price table {tab}", construct="acq_price")
