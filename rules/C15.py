"""C15 — Episodes stay inside their fold; episode length and walk-forward are exact."""
import ast
from sa.lib import *
from sa.forward import Forward
from sa.dataflow import Poly, cmp_key, cmp_atoms
from sa.resolve import walk_function

EXPLANATION = (
    "Decides the structural clauses of C15: (S1) Transmitter._reset sorts the candidate steps and keeps `start_date <= step` and `step <= end_date` "
    "(both inclusive) of the selected fold; PartitionTimeRanges rejects folds with end < start; (S2) index algebra (polynomial normal form): the sampled "
    "window steps[i : i+L-1+1] has length L, the candidate starts are steps[: -(L-1)] (all positions where the episode fits), the index is drawn over "
    "range(len(start_dates)) and sampling weights are normalised; (S3) a configured episode_length n becomes n+1 states, reset fetches one batch and each "
    "step one more, StopIteration ends the episode; (S5) walk_forward: test_end - test_start + 1 = test_size, test_start = train_end + 1, stride = test_size, "
    "train_end - train_start + 1 = train_size (sliding)."
)
DECIDED = ["S1 steps lie in the inclusive fold window, in order", "S2 an episode of length L is L consecutive steps starting anywhere it fits", "S3 n decisions <-> n+1 states",
           "S5 walk-forward windows: disjoint, ordered, requested size, test follows own train"]
NOT_DECIDED = ["uniformity of the random draw", "refusal when nothing fits relies on numpy raising for an empty range (assumption)", "reset(episode_length=k) is not incremented like the configured length (outside the statement)"]
ASSUMPTIONS = ["np.random.choice over range(n) with p=None is uniform and raises for n == 0; numpy boolean masks keep order; slicing a[i:j] has j-i elements"]


def run(ck, an, tier):
    s1(ck, an)
    s2(ck, an)
    s3(ck, an)
    s5(ck, an)


def s1(ck, an):
    fa = an.fa("Transmitter._reset")
    subj = fa.f.short
    masks = []
    for s in all_stmts(fa):
        if isinstance(s, ast.Assign) and isinstance(s.value, ast.Subscript) and isinstance(s.value.slice, ast.Compare) and isinstance(s.targets[0], ast.Name):
            c = fa.sym.cmp(s.value.slice, fa.node_of(s).id)
            masks.append((s, c))
    lower = upper = False
    for s, c in masks:
        if c[0] != "rel":
            continue
        p = c[4]
        if c[1] == "<=" and poly_mentions(p, "self._folds[fold_name]", sign=+1) and "[0]" in p.key() and any("steps" in a or "np.sort" in a or "numpy.sort" in a for a in p.atoms()):
            lower = True
        if c[1] == "<=" and poly_mentions(p, "self._folds[fold_name]", sign=-1) and "[1]" in p.key():
            upper = True
        if c[1] == "<" and "self._folds[fold_name]" in p.key():
            ck.fail("CMP", "S1.fold-window-inclusive", subj, fa.loc(s), "a fold boundary is excluded (strict comparison): a step exactly at the fold's start or end is lost", construct=stmt_text(s))
    ck.check(lower, "CMP", "S1.fold-lower-bound", subj, fa.f.loc, "steps satisfy start_date <= step (inclusive)", "no inclusive lower fold bound on the steps", construct="steps = steps[start_date <= steps]")
    ck.check(upper, "CMP", "S1.fold-upper-bound", subj, fa.f.loc, "steps satisfy step <= end_date (inclusive)", "no inclusive upper fold bound on the steps", construct="steps = steps[steps <= end_date]")
    # sorted before filtering; candidate steps are the partition keys
    sdefs = [d for d in fa.rd.defs if d.var == "steps" and d.kind == "assign"]
    first = sdefs[0] if sdefs else None
    k = fa.sym.canon(first.value, first.node) if first else "?"
    ck.check(k.startswith(("np.sort(", "numpy.sort(", "sorted(")) and "_partition_nonlatent" in k and "_partition_latent" in k, "IDIOM", "S1.steps-sorted-event-bearing", subj, fa.loc(first.ast) if first else fa.f.loc,
             "candidate steps are the sorted union of the event-bearing timesteps of both partitions", f"candidate steps are {k[:120]}", construct="steps = np.sort(list(timesteps))")
    # the fold is the one asked for
    fd = [d for d in fa.rd.defs if d.kind == "unpack" and d.var in ("start_date", "end_date")]
    ok = bool(fd) and all(ast.unparse(d.ast.value) == "self._folds[fold_name]" for d in fd if isinstance(d.ast, ast.Assign) and isinstance(d.ast.targets[0], ast.Tuple))
    ck.check(ok, "ARGFLOW", "S1.selected-fold", subj, fa.f.loc, "the window is the requested fold's (start, end)", "start/end do not come from self._folds[fold_name]", construct="start_date, end_date = self._folds[fold_name]")
    # final state
    st = [s for s in assigns_to_attr(fa, "_steps")]
    ck.check(len(st) == 1 and isinstance(st[0], ast.Assign) and ast.unparse(st[0].value) == "steps", "ARGFLOW", "S1.steps-stored", subj, fa.f.loc, "the filtered steps become the episode's steps",
             f"_steps = {[ast.unparse(s.value) for s in st if isinstance(s, ast.Assign)]}", construct="self._steps = steps")
    fv = an.fa("PartitionTimeRanges.verify_start_before_end")
    ok = False
    floops = [n for n in walk_function(fv.f.node) if isinstance(n, ast.For) and fv.sym.canon(n.iter) == "self.folds.items()"]
    for lp in floops:
        # for name, (start, end) in self.folds.items(): the window's two ends, found by their position in the target
        t = lp.target
        if not (isinstance(t, ast.Tuple) and len(t.elts) == 2 and isinstance(t.elts[1], ast.Tuple) and len(t.elts[1].elts) == 2 and all(isinstance(x, ast.Name) for x in t.elts[1].elts)):
            continue
        at = fv.node_of(lp.body[0]).id
        start_v, end_v = (fv.sym.ev(ast.Name(id=x.id, ctx=ast.Load()), at) for x in t.elts[1].elts)
        for r in raises_in(fv):
            sg = fv.syntactic_guards(r)
            if len(sg) == 1 and sg[0][0] == "rel" and sg[0][1] == "<" and sg[0][4] == end_v - start_v:
                ok = True
    ck.check(ok, "CMP", "S1.fold-well-formed", fv.f.short, fv.f.loc, "a fold with end < start is rejected", "verify_start_before_end does not raise for end < start", construct="if end < start: raise")
    fi = an.fa("PartitionTimeRanges.__init__")
    ck.check(bool(fi.calls_to("PartitionTimeRanges.verify_start_before_end")), "ORD", "S1.folds-verified", fi.f.short, fi.f.loc, "folds are verified at construction", "folds are not verified at construction",
             construct="self.verify_start_before_end()")
    defs = [s_ for s_ in all_stmts(fi) if isinstance(s_, ast.Assign) and ast.unparse(s_.targets[0]) == "folds"]
    okd = any(ast.unparse(s_.value) == "{TRAINING_SET: [datetime.min, datetime.max]}" and any(p[0] == "is" and "None" in (p[1], p[2]) and p[3] for p in fi.syntactic_guards(s_)) for s_ in defs)
    ck.check(okd, "CONST", "S1.default-fold-is-everything", fi.f.short, fi.f.loc, "without folds, the single training fold spans [datetime.min, datetime.max]", "the default fold is not {TRAINING_SET: [datetime.min, datetime.max]}",
             construct="folds = {TRAINING_SET: [datetime.min, datetime.max]}")
    fg = an.fa("PartitionTimeRanges.__getitem__")
    r = ret_canons(fg)
    ck.check(r == [specv(fg, f"self.folds[{fg.f.params[1]}]").key()], "ARGFLOW", "S1.fold-lookup", fg.f.short, fg.f.loc, "folds are looked up by name", f"__getitem__ returns {r}", construct="return self.folds[item]")


def s2(ck, an):
    fa = an.fa("Transmitter._reset")
    subj = fa.f.short
    L = Poly.atom("episode_length")
    seen = {}

    def assume(s, fw):
        c = fw.cmp(s.test)
        if c[0] == "is" and "episode_length" in (c[1], c[2]) and "None" in (c[1], c[2]):
            return not c[3] if True else None     # take the branch where episode_length is not None
        if c[0] == "is" and "sampling_span" in (c[1], c[2]):
            return None
        return None

    def on_stmt(s, fw):
        if isinstance(s, ast.Assign) and isinstance(s.targets[0], ast.Name):
            seen[s.targets[0].id + "@" + str(s.lineno)] = (s, fw)
    # read the slices syntactically, the index algebra through the value-id domain
    sd = [d for d in fa.rd.defs if d.var == "start_dates" and d.kind == "assign"]
    ok = False
    detail = "start_dates is not defined"
    for d in sd:
        v = d.value
        if isinstance(v, ast.Subscript) and isinstance(v.slice, ast.Slice) and v.slice.lower is None and v.slice.step is None and v.slice.upper is not None:
            up = fa.sym.ev(v.slice.upper, d.node)
            detail = f"start_dates = steps[:{up.key()}]"
            ok = up == Poly.const(1) - L and isinstance(v.value, ast.Name) and v.value.id == "steps"
    ck.check(ok, "LIN", "S2.candidate-starts", subj, fa.f.loc, "candidate starts are steps[: -(L-1)]: exactly the positions where L consecutive steps fit", f"{detail}; expected steps[:1 + -episode_length]",
             construct="start_dates = steps[: -(episode_length - 1)]")
    ed = [d for d in fa.rd.defs if d.var == "end_date_idx" and d.kind == "assign"]
    sidx = [d for d in fa.rd.defs if d.var == "start_date_idx" and d.kind == "assign"]
    # window slice
    win = None
    for d in fa.rd.defs:
        if d.var == "steps" and d.kind == "assign" and isinstance(d.value, ast.Subscript) and isinstance(d.value.slice, ast.Slice) and d.value.slice.lower is not None and d.value.slice.upper is not None:
            win = d
    if win is None:
        ck.fail("LIN", "S2.window-length", subj, fa.f.loc, "no steps[i:j] window for a configured episode length", construct="steps = steps[start_date_idx : end_date_idx + 1]")
    else:
        lo = fa.sym.ev(win.value.slice.lower, win.node)
        hi = fa.sym.ev(win.value.slice.upper, win.node)
        ck.check(hi - lo == L, "LIN", "S2.window-length", subj, fa.loc(win.ast), "the episode window steps[i : j] has exactly episode_length steps (j - i = L)",
                 f"window length j - i = {(hi - lo).key()}, expected episode_length", construct=ast.unparse(win.ast))
        sg = fa.guard_predicates(win.ast)
        ck.check(any(p[0] == "is" and "episode_length" in (p[1], p[2]) and not p[3] for p in sg), "GUARD", "S2.window-only-when-length-given", subj, fa.loc(win.ast), "the window is cut only when an episode length is given",
                 f"window guarded by {[cmp_key(p) for p in sg]}", construct=ast.unparse(win.ast))
        # the lower index is the sampled start, drawn over every candidate
        ch = [c for c in fa.calls_named("choice")]
        okc = False
        detail = "no np.random.choice draw"
        for c in ch:
            at = fa.node_of(c).id
            a0 = fa.sym.canon(c.args[0], at) if c.args else "?"
            want = fa.sym.canon(ast.parse("range(len(start_dates))", mode="eval").body, at)
            detail = f"draw over {a0[:100]}"
            st_ = enclosing_stmt(c)
            same = isinstance(st_, ast.Assign) and isinstance(st_.targets[0], ast.Name) and fa.sym.ev(ast.Name(id=st_.targets[0].id, ctx=ast.Load()), win.node) == lo
            if a0 == want and same:
                okc = True
            kws = {k.arg: ast.unparse(k.value) for k in c.keywords}
            ck.check(kws.get("p") == "p" and "replace" not in kws and "size" not in kws, "IDIOM", "S2.draw-uses-weights", subj, fa.loc(c), "the draw uses the (optional) sampling weights p and returns one index",
                     f"np.random.choice keywords: {kws}", construct=stmt_text(c))
        ck.check(okc, "ARGFLOW", "S2.start-drawn-over-all-candidates", subj, fa.loc(win.ast), "the window starts at an index drawn by np.random.choice over range(len(start_dates)): any fitting position can be drawn",
                 f"the window start is not a draw over all candidate starts: {detail}", construct="start_date_idx = np.random.choice(range(len(start_dates)), p=p)")
    # weights normalised
    norm = [s for s in all_stmts(fa) if isinstance(s, ast.AugAssign) and isinstance(s.op, ast.Div) and isinstance(s.target, ast.Name) and ast.unparse(s.value) == f"{s.target.id}.sum()"]
    pdefs = [d for d in fa.rd.defs if d.var == "p"]
    ck.check(bool(norm) or all(d.kind == "assign" and const_value(d.value) is None for d in pdefs), "LIN", "S2.weights-normalised", subj, fa.f.loc, "sampling weights are normalised to 1", "sampling weights are not normalised",
             construct="p /= p.sum()")
    for d in pdefs:
        if d.kind == "assign" and isinstance(d.value, ast.BinOp):
            k = fa.sym.canon(d.value, d.node)
            ck.check("np.arange(len(" in k and "[::-1]" in k, "LIN", "S2.weights-cover-candidates", subj, fa.loc(d.ast), "one weight per candidate start, decaying into the past", f"weights are {k[:120]}", construct=ast.unparse(d.ast))


def s3(ck, an):
    fi = an.fa("TradingEnv.__init__")
    incs = [s for s in all_stmts(fi) if isinstance(s, ast.AugAssign) and isinstance(s.target, ast.Name) and s.target.id == "episode_length"]
    ok = len(incs) == 1 and isinstance(incs[0].op, ast.Add) and const_value(incs[0].value) == 1
    if ok:
        sg = fi.syntactic_guards(incs[0])
        ok = len(sg) == 1 and sg[0][0] == "truthy" and sg[0][1] == "episode_length" and sg[0][2]
    ck.check(ok, "LIN", "S3.n-decisions-n-plus-1-states", fi.f.short, fi.f.loc, "a configured episode_length n is turned into n + 1 states (n decisions)", "episode_length is not incremented by exactly 1 when configured",
             construct="if episode_length: episode_length += 1")
    st = [s for s in assigns_to_attr(fi, "_episode_length")]
    if incs and st:
        okb = all(fi.reachable_from(i, x) and not fi.reachable_from(x, i) for i in incs for x in st)
        ck.check(okb, "ORD", "S3.increment-before-store", fi.f.short, fi.loc(st[0]), "the increment happens before the length is stored", "the length is stored before it is incremented", construct=stmt_text(st[0]))
    ck.check(len(st) == 1 and isinstance(st[0], ast.Assign) and ast.unparse(st[0].value) == "episode_length", "ARGFLOW", "S3.length-stored", fi.f.short, fi.f.loc, "_episode_length is the (incremented) configured length",
             f"_episode_length = {[ast.unparse(s.value) for s in st if isinstance(s, ast.Assign)]}", construct="self._episode_length = episode_length")
    own_writers(ck, an, "S3.configured-length-fixed", "TradingEnv", "_episode_length", {"TradingEnv.__init__"}, min_sites=1)
    fr = an.fa("TradingEnv.reset")
    rs = fr.calls_to("Transmitter._reset", "AbstractTransmitter._reset")
    for c in rs:
        args = [fr.sym.canon(a) for a in c.args]
        alts = {fr.sym.canon(ast.parse(t, mode="eval").body, fr.cfg.entry.id) for t in (
            "episode_length or self._episode_length", "episode_length if episode_length else self._episode_length",
            "self._episode_length if episode_length is None else episode_length", "episode_length if episode_length is not None else self._episode_length")}
        ck.check(len(args) >= 2 and args[0] == "fold" and args[1] in alts, "ARGFLOW", "S3.reset-passes-length", fr.f.short, fr.loc(c),
                 "reset hands the fold and the (override or configured) length to the transmitter", f"_reset({', '.join(args)})", construct=stmt_text(c))
    nx = fr.calls_to("Transmitter._next", "AbstractTransmitter._next")
    ck.check(len(nx) == 1, "PATHCOUNT", "S3.reset-fetches-one-batch", fr.f.short, fr.f.loc, "reset fetches exactly one batch (the first state)", f"reset calls _next() {len(nx)} times", construct="self._transmitter._next()")
    fn = an.fa("TradingEnv._process_nonlatent_events")
    nx2 = fn.calls_to("Transmitter._next", "AbstractTransmitter._next")
    ck.check(len(nx2) == 1, "PATHCOUNT", "S3.step-fetches-one-batch", fn.f.short, fn.f.loc, "each step fetches exactly one batch", f"_process_nonlatent_events calls _next() {len(nx2)} times", construct="self._transmitter._next()")
    done = False
    for c in nx2:
        for h in enclosing_try_handlers(c, fn.f.node):
            names = handler_names(h)
            if names and "StopIteration" in names:
                sets = [s for s in h.body if isinstance(s, ast.Assign) and ast.unparse(s.targets[0]) == "self._done" and const_value(s.value) is True]
                done = bool(sets)
    ck.check(done, "GUARD", "S3.exhaustion-ends-episode", fn.f.short, fn.f.loc, "StopIteration from the transmitter sets _done = True", "exhausting the episode's steps does not end the episode", construct="except StopIteration: self._done = True")
    # _done is only ever set to True there (never overwritten with a computed value)
    for s in assigns_to_attr(fn, "_done"):
        ck.check(isinstance(s, ast.Assign) and const_value(s.value) is True, "OWN", "S3.done-only-set-true", fn.f.short, fn.loc(s), "_process_nonlatent_events only ever sets _done = True",
                 f"_process_nonlatent_events stores _done = {ast.unparse(s.value) if isinstance(s, ast.Assign) else '?'}: an episode ended for another reason would be re-opened", construct=stmt_text(s))


def s5(ck, an):
    fa = an.fa("Transmitter.walk_forward")
    subj = fa.f.short
    rets = returns_in(fa)
    if len(rets) != 1 or not isinstance(rets[0].value, ast.Call):
        ck.fail("LIN", "S5.walk-forward", subj, fa.f.loc, "walk_forward does not return Folds(...)", construct="return Folds(...)")
        return
    kw = {k.arg: fa.sym.ev(k.value) for k in rets[0].value.keywords}
    need = ["train_start", "train_end", "test_start", "test_end"]
    if any(n not in kw for n in need):
        ck.fail("LIN", "S5.walk-forward", subj, fa.loc(rets[0]), f"Folds(...) lacks one of {need}", construct=stmt_text(rets[0]))
        return
    ts, tr = Poly.atom("test_size"), Poly.atom("train_size")
    ck.check(kw["test_end"] - kw["test_start"] + Poly.const(1) == ts, "LIN", "S5.test-window-size", subj, fa.loc(rets[0]), "test_end - test_start + 1 = test_size",
             f"test_end - test_start + 1 = {(kw['test_end'] - kw['test_start'] + Poly.const(1)).key()}", construct="test window")
    ck.check(kw["test_start"] - kw["train_end"] == Poly.const(1), "LIN", "S5.test-follows-train", subj, fa.loc(rets[0]), "test_start = train_end + 1", f"test_start - train_end = {(kw['test_start'] - kw['train_end']).key()}",
             construct="test_start")
    # train_start (sliding) and stride
    base_defs = [d for d in fa.rd.defs if d.var == "train_start" and d.kind == "assign"]
    stride_ok = size_ok = False
    detail = ""
    for d in base_defs:
        v = d.value
        if isinstance(v, ast.Subscript) and isinstance(v.slice, ast.Slice):
            step = fa.sym.ev(v.slice.step, d.node) if v.slice.step is not None else Poly.const(1)
            up = fa.sym.ev(v.slice.upper, d.node) if v.slice.upper is not None else None
            lo = v.slice.lower
            detail = f"train_start = count[{ast.unparse(v.slice)}]"
            stride_ok = step == ts and lo is None
            size_ok = up is not None and up == Poly.const(1) - tr - ts
            base = fa.sym.canon(v.value, d.node)
            ck.check(base in ("np.arange(len(self.timesteps))", "numpy.arange(len(self.timesteps))"), "ARGFLOW", "S5.indices-over-grid", subj, fa.loc(d.ast), "fold indices range over the whole grid",
                     f"fold indices range over {base}", construct=ast.unparse(d.ast))
    ck.check(stride_ok, "LIN", "S5.stride-is-test-size", subj, fa.f.loc, "consecutive folds advance by test_size: test windows are adjacent and disjoint", f"stride is not test_size: {detail}", construct="[:: test_size]")
    ck.check(size_ok, "LIN", "S5.last-fold-fits", subj, fa.f.loc, "the last training start leaves room for train_size + test_size steps", f"upper bound of starts: {detail}; expected 1 - train_size - test_size",
             construct="[: -train_size - test_size + 1]")
    t0 = Poly.atom("train_start") if False else None
    # train_end - base + 1 == train_size  (base = the sliced starts)
    if base_defs:
        b = fa.sym.ev(ast.Name(id="train_start", ctx=ast.Load()), fa.node_of(rets[0]).id)
        ck.check(kw["train_end"] - b + Poly.const(1) == tr, "LIN", "S5.train-window-size", subj, fa.loc(rets[0]), "train_end - train_start + 1 = train_size (sliding window)",
                 f"train_end - start + 1 = {(kw['train_end'] - b + Poly.const(1)).key()}", construct="train window")
        sl = kw["train_start"]
        ck.check(sl == b * Poly.atom("int(sliding_window)"), "LIN", "S5.expanding-window-starts-at-zero", subj, fa.loc(rets[0]), "train_start = start x int(sliding_window): expanding windows start at 0",
                 f"train_start = {sl.key()}", construct="train_start=train_start * int(sliding_window)")
    ff = an.fa("Folds.as_time")
    rets = returns_in(ff)
    okm = False
    if len(rets) == 1 and isinstance(rets[0].value, ast.Call):
        kw2 = {k.arg: ast.unparse(k.value) for k in rets[0].value.keywords}
        okm = all(kw2.get(n) == f"timesteps[self.{n}]" for n in need)
    ck.check(okm, "ARGFLOW", "S5.as-time-maps-own-index", ff.f.short, ff.f.loc, "as_time maps each index array to timesteps of the same name", "as_time mixes up the index arrays", construct="Folds.as_time")
