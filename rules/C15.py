"""C15 — Episodes stay inside their fold; episode length and walk-forward are exact."""
import ast
from sa.lib import *
from sa.forward import Forward
from sa.dataflow import Poly, cmp_key, cmp_atoms
from sa.resolve import walk_function

TECHNIQUE = 'static analysis (ast): value-id comparison of the stored episode steps with a reference implementation under each parameter regime (evaluation under assumptions), polynomial index algebra of walk_forward, effect rule for defaultdict reads, CFG path counts of batches per reset / step'
EXPLANATION = (
    "Decides the structural clauses of C15: (S1) the steps Transmitter._reset stores are, by value id, those of a reference implementation kept with the rule: the sorted "
    "event-bearing timesteps of both partitions with fold start <= t <= fold end (both inclusive) of the requested fold; nothing but _create_partitions adds a key to the "
    "(defaultdict) partitions; PartitionTimeRanges keeps each name with its own window and rejects folds with end < start; (S2) with a length L the steps are steps[i : i + L] "
    "with i drawn by np.random.choice over range(len(steps[: -(L - 1)])), optionally weighted by normalised (1 - 1/span) ** age; (S3) a configured episode_length n is stored "
    "as n + 1 states, reset passes the override or the configured length as is, reset fetches one batch and each step one more, StopIteration ends the episode; (S5) walk_forward: "
    "test_end - test_start + 1 = test_size, test_start = train_end + 1, stride = test_size, train_end - train_start + 1 = train_size (sliding), indices over the whole grid."
    " Every way out of Transmitter._reset re-assigns the episode's steps (S1.steps-recomputed-at-every-reset)."
)
DECIDED = ["S1 steps lie in the inclusive fold window, in order", "S2 an episode of length L is L consecutive steps starting anywhere it fits", "S3 n decisions <-> n+1 states",
           "S5 walk-forward windows: disjoint, ordered, requested size, test follows own train"]
NOT_DECIDED = ["uniformity of the random draw", "refusal when nothing fits relies on numpy raising for an empty range (assumption)", "reset(episode_length=k) is not incremented like the configured length (outside the statement)"]
ASSUMPTIONS = ["np.random.choice over range(n) with p=None is uniform and raises for n == 0; numpy boolean masks keep order; slicing a[i:j] has j-i elements"]


def run(ck, an, tier):
    steps_recomputed(ck, an)
    from rules import C10 as _c10
    from sa.report import Renamed as _R10
    _c10.s2(_R10(ck, "C10:"), an)      # the start of a sampled episode is drawn from the process-wide numpy stream: nothing in the package may re-seed or consume it on the way
    s1(ck, an)
    s2(ck, an)
    s3(ck, an)
    s5(ck, an)


# Reference implementation of Transmitter._reset's step selection. It is compared with the code through value ids (the
# evaluator that normalises the code normalises this text too): local names, temporaries, `p /= s` vs `p = p / s`,
# if/else vs conditional expressions and mirrored comparisons (`steps >= lo`) do not matter; which steps are kept does.
REF_RESET = """
def _reset(self, {fold}, {length}, {span}):
    lo, hi = self._folds[{fold}]
    steps = np.sort(list({union}))
    steps = steps[lo <= steps]
    steps = steps[steps <= hi]
    if {length} is not None:
        cands = steps[: -({length} - 1)]
        if {span} is not None:
            w = (1 - (1 / {span})) ** np.arange(len(cands))[::-1]
            w = w / w.sum()
        else:
            w = None
        i = np.random.choice(range(len(cands)), p=w)
        steps = steps[i : i + {length}]
    self._steps = steps
"""
UNIONS = ("set(self._partition_nonlatent) | set(self._partition_latent)", "set(self._partition_latent) | set(self._partition_nonlatent)",
          "set(self._partition_nonlatent).union(self._partition_latent)", "set(self._partition_latent).union(self._partition_nonlatent)")


def _reset_regimes(ck, an, regimes):
    from rules import C04
    C04.partition_reads(ck, an, "S1.event-bearing-keys-only")      # the keys the steps are derived from are the event-bearing timesteps: nothing else may add a key
    fa = an.fa("Transmitter._reset")
    subj = fa.f.short
    ps = fa.f.params
    if len(ps) < 4:
        ck.fail("LIN", "S1.fold-steps", subj, fa.f.loc, "_reset no longer takes (fold_name, episode_length, sampling_span)", construct="_reset signature")
        return
    fold, length, span = ps[1:4]
    refs = [reference(fa, REF_RESET.format(fold=fold, length=length, span=span, union=u)) for u in UNIONS]
    for name, facts, what in regimes:
        facts = [t.format(length=length, span=span) for t in facts]
        got = stored_attr_under(fa, "_steps", facts)
        wants = [stored_attr_under(r, "_steps", facts) for r in refs]
        ck.check(got is not None and got in wants, "LIN", name, subj, fa.f.loc, what,
                 f"the episode's steps are {str(got)[:400]}; specified {str(wants[0])[:400]}", construct="self._steps = steps",
                 witness=[f"got       {got}", f"specified {wants[0]}"])


def steps_recomputed(ck, an):
    """Every way out of Transmitter._reset (other than raising) stores the episode's steps: nothing of the previous episode's
    window (e.g. one cut by an episode length) survives a reset."""
    fa = an.fa("Transmitter._reset")
    st = [s_ for s_ in assigns_to_attr(fa, "_steps")]
    nodes = {fa.node_of(s_).id for s_ in st if fa.node_of(s_) is not None}
    ck.check(bool(nodes) and fa.cfg.every_path_from_passes(fa.cfg.entry.id, nodes), "RESET", "S1.steps-recomputed-at-every-reset", fa.f.short, fa.f.loc,
             "every reset recomputes the episode's steps from the fold (no path returns with the previous episode's steps)",
             "Transmitter._reset can return without re-assigning _steps: the next episode runs over the previous episode's window", construct="self._steps = steps")


def s1(ck, an):
    _reset_regimes(ck, an, [("S1.fold-steps", ["{length} is None"],
                             "without an episode length the steps are the sorted event-bearing timesteps of both partitions with fold start <= t <= fold end (both inclusive), of the requested fold")])
    from rules import C04
    C04.partition_reads(ck, an, "S1.event-bearing-keys-only")      # the keys the steps are derived from are the event-bearing timesteps: nothing else may add a key
    fa = an.fa("Transmitter._reset")
    subj = fa.f.short
    fv = an.fa("PartitionTimeRanges.verify_start_before_end")
    ok = False
    floops = [n for n in walk_function(fv.f.node) if isinstance(n, ast.For) and fv.sym.canon(n.iter) == "self.folds.items()"]
    from sa.dataflow import item_atom
    for lp in floops:
        # the window of a fold is the VALUE of the item (position 1), its ends that value's positions 0 and 1 - however the loop
        # target / a later unpacking names them
        it_k = fv.sym.canon(lp.iter)
        start_v, end_v = Poly.atom(item_atom(it_k, [1, 0])), Poly.atom(item_atom(it_k, [1, 1]))
        for r in raises_in(fv):
            sg = [p for p in fv.guard_predicates(r) if p[0] == "rel"]      # nested under `if end < start:` or after `if not end < start: continue`
            if len(sg) == 1 and sg[0][1] == "<" and sg[0][4] == end_v - start_v:
                ok = True
    ck.check(ok, "CMP", "S1.fold-well-formed", fv.f.short, fv.f.loc, "a fold with end < start is rejected", "verify_start_before_end does not raise for end < start", construct="if end < start: raise")
    fi = an.fa("PartitionTimeRanges.__init__")
    ck.check(bool(fi.calls_to("PartitionTimeRanges.verify_start_before_end")), "ORD", "S1.folds-verified", fi.f.short, fi.f.loc, "folds are verified at construction", "folds are not verified at construction",
             construct="self.verify_start_before_end()")
    # every name keeps its own window: the stored mapping is the given one (or the everything-fold), at most re-ordered as whole (name, window) items
    fp = fi.f.params[1]
    got = stored_attr_under(fi, "folds")
    alts = []
    for wrap in ("OrderedDict({x})", "dict({x})", "collections.OrderedDict({x})", "{x}"):
        for inner in ("sorted({f}.items(), key=lambda x: x[1])", "sorted({f}.items(), key=lambda x: x[1][0])", "sorted({f}.items(), key=lambda kv: (kv[1][0], kv[1][1]))", "{f}.items()", "{f}"):
            alts.append(wrap.format(x=inner))
    dflt = "{TRAINING_SET: [datetime.min, datetime.max]}"
    wants = {specv(fi, a.format(f=f"({dflt} if {fp} is None else {fp})")).key() for a in alts}
    ck.check(got is not None and got in wants, "ARGFLOW", "S1.each-fold-keeps-its-window", fi.f.short, fi.f.loc,
             "the stored folds are the given (name, window) items, at most re-ordered item by item; without folds, the single training fold spans [datetime.min, datetime.max]",
             f"self.folds = {str(got)[:300]}: names and windows may be re-paired, or the default fold changed", construct="self.folds = OrderedDict(sorted(folds.items(), key=lambda x: x[1]))")
    okd = got is not None and specv(fi, dflt).key() in got
    ck.check(okd, "CONST", "S1.default-fold-is-everything", fi.f.short, fi.f.loc, "without folds, the single training fold spans [datetime.min, datetime.max]", "the default fold is not {TRAINING_SET: [datetime.min, datetime.max]}",
             construct="folds = {TRAINING_SET: [datetime.min, datetime.max]}")
    fg = an.fa("PartitionTimeRanges.__getitem__")
    r = ret_canons(fg)
    ck.check(r == [specv(fg, f"self.folds[{fg.f.params[1]}]").key()], "ARGFLOW", "S1.fold-lookup", fg.f.short, fg.f.loc, "folds are looked up by name", f"__getitem__ returns {r}", construct="return self.folds[item]")


def s2(ck, an):
    _reset_regimes(ck, an, [
        ("S2.episode-window", ["{length} is not None", "{span} is None"],
         "with an episode length L the steps are steps[i : i + L] with i drawn by np.random.choice over range(len(steps[: -(L - 1)])): exactly L consecutive steps, starting at any position where they fit"),
        ("S2.sampling-weights", ["{length} is not None", "{span} is not None"],
         "with a sampling span the draw is weighted by (1 - 1/span) ** age, one weight per candidate start, normalised to 1"),
    ])
    fa = an.fa("Transmitter._reset")
    for c in fa.calls_named("choice"):
        kws = {k.arg for k in c.keywords}
        ck.check("replace" not in kws and "size" not in kws and len(c.args) == 1, "IDIOM", "S2.draw-uses-weights", fa.f.short, fa.loc(c), "the draw returns one index", f"np.random.choice is called with {sorted(kws)}", construct=stmt_text(c))


def s3(ck, an):
    fi = an.fa("TradingEnv.__init__")
    # the stored length, by value id over the constructor's parameter: n + 1 when a length is configured, the (falsy) argument itself otherwise
    got = stored_attr_under(fi, "_episode_length")
    want = specv(fi, "episode_length + 1 if episode_length else episode_length").key()
    ck.check(got == want, "LIN", "S3.n-decisions-n-plus-1-states", fi.f.short, fi.f.loc, "a configured episode_length n is stored as n + 1 states (n decisions)",
             f"_episode_length = {got}; specified {want}", construct="if episode_length: episode_length += 1")
    own_writers(ck, an, "S3.configured-length-fixed", "TradingEnv", "_episode_length", {"TradingEnv.__init__"}, min_sites=1)
    fr = an.fa("TradingEnv.reset")
    rs = fr.calls_to("Transmitter._reset", "AbstractTransmitter._reset")
    for c in rs:
        args = [fr.sym.canon(a) for a in c.args]
        alts = {fr.sym.canon(ast.parse(t, mode="eval").body, fr.cfg.entry.id) for t in (
            "episode_length or self._episode_length", "episode_length if episode_length else self._episode_length",
            "self._episode_length if episode_length is None else episode_length", "episode_length if episode_length is not None else self._episode_length")}
        ck.check(len(args) >= 2 and args[0] == "fold" and args[1] in alts, "ARGFLOW", "S3.reset-passes-length", fr.f.short, fr.loc(c),
                 "reset hands the fold and the (override or configured) length to the transmitter", f"_reset({', '.join(args)})", construct=stmt_text(c))
    nx = fr.calls_to("Transmitter._next", "AbstractTransmitter._next")
    ck.check(len(nx) == 1, "PATHCOUNT", "S3.reset-fetches-one-batch", fr.f.short, fr.f.loc, "reset fetches exactly one batch (the first state)", f"reset calls _next() {len(nx)} times", construct="self._transmitter._next()")
    fn = an.fa("TradingEnv._process_nonlatent_events")
    nx2 = fn.calls_to("Transmitter._next", "AbstractTransmitter._next")
    ck.check(len(nx2) == 1, "PATHCOUNT", "S3.step-fetches-one-batch", fn.f.short, fn.f.loc, "each step fetches exactly one batch", f"_process_nonlatent_events calls _next() {len(nx2)} times", construct="self._transmitter._next()")
    done = False
    for c in nx2:
        for h in enclosing_try_handlers(c, fn.f.node):
            names = handler_names(h)
            if names and "StopIteration" in names:
                sets = [s for s in h.body if isinstance(s, ast.Assign) and ast.unparse(s.targets[0]) == "self._done" and const_value(s.value) is True]
                done = bool(sets)
    ck.check(done, "GUARD", "S3.exhaustion-ends-episode", fn.f.short, fn.f.loc, "StopIteration from the transmitter sets _done = True", "exhausting the episode's steps does not end the episode", construct="except StopIteration: self._done = True")
    # _done is only ever set to True there (never overwritten with a computed value)
    for s in assigns_to_attr(fn, "_done"):
        ck.check(isinstance(s, ast.Assign) and const_value(s.value) is True, "OWN", "S3.done-only-set-true", fn.f.short, fn.loc(s), "_process_nonlatent_events only ever sets _done = True",
                 f"_process_nonlatent_events stores _done = {ast.unparse(s.value) if isinstance(s, ast.Assign) else '?'}: an episode ended for another reason would be re-opened", construct=stmt_text(s))


def s5(ck, an):
    fa = an.fa("Transmitter.walk_forward")
    subj = fa.f.short
    rets = returns_in(fa)
    rcall, rat = deref(fa, rets[0].value) if len(rets) == 1 else (None, None)
    if rcall is None or not isinstance(rcall, ast.Call):
        ck.fail("LIN", "S5.walk-forward", subj, fa.f.loc, "walk_forward does not return Folds(...)", construct="return Folds(...)")
        return
    kw = {k.arg: fa.sym.ev(k.value, rat) for k in rcall.keywords}
    need = ["train_start", "train_end", "test_start", "test_end"]
    if any(n not in kw for n in need):
        ck.fail("LIN", "S5.walk-forward", subj, fa.loc(rets[0]), f"Folds(...) lacks one of {need}", construct=stmt_text(rets[0]))
        return
    ts, tr = Poly.atom("test_size"), Poly.atom("train_size")
    ck.check(kw["test_end"] - kw["test_start"] + Poly.const(1) == ts, "LIN", "S5.test-window-size", subj, fa.loc(rets[0]), "test_end - test_start + 1 = test_size",
             f"test_end - test_start + 1 = {(kw['test_end'] - kw['test_start'] + Poly.const(1)).key()}", construct="test window")
    ck.check(kw["test_start"] - kw["train_end"] == Poly.const(1), "LIN", "S5.test-follows-train", subj, fa.loc(rets[0]), "test_start = train_end + 1", f"test_start - train_end = {(kw['test_start'] - kw['train_end']).key()}",
             construct="test_start")
    # train_start (sliding) and stride
    # the sliced fold starts: the value every window is offset from (test_start - train_size), found by value id, not by a variable's name
    B = kw["test_start"] - tr
    class _D:      # (value expression, node id) of the slicing expression whose value id is B
        pass
    base_defs = []
    for n_ in walk_function(fa.f.node):
        if isinstance(n_, ast.Subscript) and isinstance(n_.slice, ast.Slice) and fa.cfg.node_of(n_) is not None and fa.sym.ev(n_, fa.cfg.node_of(n_).id) == B:
            d_ = _D()
            d_.value, d_.node, d_.ast = n_, fa.cfg.node_of(n_).id, n_
            base_defs.append(d_)
    base_defs = base_defs[:1]
    stride_ok = size_ok = False
    detail = f"fold starts = {B.key()[:120]}"
    for d in base_defs:
        v = d.value
        if isinstance(v, ast.Subscript) and isinstance(v.slice, ast.Slice):
            step = fa.sym.ev(v.slice.step, d.node) if v.slice.step is not None else Poly.const(1)
            up = fa.sym.ev(v.slice.upper, d.node) if v.slice.upper is not None else None
            lo = v.slice.lower
            detail = f"train_start = count[{ast.unparse(v.slice)}]"
            stride_ok = step == ts and lo is None
            size_ok = up is not None and up == Poly.const(1) - tr - ts
            base = fa.sym.canon(v.value, d.node)
            ck.check(base in ("np.arange(len(self.timesteps))", "numpy.arange(len(self.timesteps))"), "ARGFLOW", "S5.indices-over-grid", subj, fa.loc(d.ast), "fold indices range over the whole grid",
                     f"fold indices range over {base}", construct="count = np.arange(len(self.timesteps))")
    ck.check(stride_ok, "LIN", "S5.stride-is-test-size", subj, fa.f.loc, "consecutive folds advance by test_size: test windows are adjacent and disjoint", f"stride is not test_size: {detail}", construct="[:: test_size]")
    ck.check(size_ok, "LIN", "S5.last-fold-fits", subj, fa.f.loc, "the last training start leaves room for train_size + test_size steps", f"upper bound of starts: {detail}; expected 1 - train_size - test_size",
             construct="[: -train_size - test_size + 1]")
    t0 = Poly.atom("train_start") if False else None
    # train_end - base + 1 == train_size  (base = the sliced starts)
    if base_defs:
        b = B
        ck.check(kw["train_end"] - b + Poly.const(1) == tr, "LIN", "S5.train-window-size", subj, fa.loc(rets[0]), "train_end - train_start + 1 = train_size (sliding window)",
                 f"train_end - start + 1 = {(kw['train_end'] - b + Poly.const(1)).key()}", construct="train window")
        sl = kw["train_start"]
        ck.check(sl == b * Poly.atom("int(sliding_window)"), "LIN", "S5.expanding-window-starts-at-zero", subj, fa.loc(rets[0]), "train_start = start x int(sliding_window): expanding windows start at 0",
                 f"train_start = {sl.key()}", construct="train_start=train_start * int(sliding_window)")
    ff = an.fa("Folds.as_time")
    rets = returns_in(ff)
    okm = False
    rc2, rat2 = deref(ff, rets[0].value) if len(rets) == 1 else (None, None)
    if rc2 is not None and isinstance(rc2, ast.Call):
        kw2 = {k.arg: ff.sym.canon(k.value, rat2) for k in rc2.keywords}
        okm = all(kw2.get(n) in (specv(ff, f"np.array(self.timesteps)[self.{n}]").key(), specv(ff, f"numpy.array(self.timesteps)[self.{n}]").key(), specv(ff, f"self.timesteps[self.{n}]").key()) for n in need)
    ck.check(okm, "ARGFLOW", "S5.as-time-maps-own-index", ff.f.short, ff.f.loc, "as_time maps each index array to timesteps of the same name", "as_time mixes up the index arrays", construct="Folds.as_time")
