"""C16 — Performance metrics: scale invariance, validation, and the stated formulas."""
import ast
from sa.lib import *
from sa.dataflow import Poly, cmp_key, cmp_atoms, cmp_strip_nan
from sa.degree import DegreeAnalysis, DegError
from sa.resolve import walk_function

TECHNIQUE = 'static analysis (ast): homogeneity-degree (scale) analysis of every listed metric over a frozen pandas / numpy transfer table, value-id comparison of ratio formulas, guard rules of validate / level, registration (shadowing) rule over the metric holder classes'
EXPLANATION = (
    "Decides, for tradingenv/metrics.py: (S1) scale invariance as a proof relative to a frozen transfer table of pandas/numpy operations: every listed metric "
    "has homogeneity degree 0 in the level series (degree analysis with interprocedural summaries; level itself has degree 1, log-levels are scale-free only "
    "under .diff()); (S2) every listed metric reaches PandasMetrics.validate through level() before it touches the data (no arithmetic directly on self), and "
    "level() validates first; (S3) validate rejects the six classes of invalid input (NaN values, values <= 0, duplicate index, non-datetime index, NaN in the "
    "index, non-increasing index); (S4) the metrics are the formulas stated in their definitions, compared as value ids (drawdown = level / running max - 1, "
    "CAGR = (last/first) ** (1/years) - 1 with years = calendar days / 365, returns, volatility = sqrt(252) x std of simple returns, the ratios as quotients of "
    "excess CAGR by the named risk measure ...); (S5) TrackRecord.tearsheet computes the metrics on the record's whole net-liquidation-value series and passes the whole record "
    "of target weights along (metrics.tearsheet intersects the two indexes). It does NOT decide that these formulas equal an independent textbook implementation."
)
DECIDED = ["S1 every listed metric is unchanged under positive scaling", "S2 invalid series are rejected before being measured", "S3 six classes of invalidity are tested",
           "S4 metrics equal the formulas stated in the source's own definitions (value ids)"]
NOT_DECIDED = ["that each metric equals its textbook definition computed independently (annualisation constants, quantile conventions, sample vs population deviation, intraday collapsing): a numeric comparison with an independent implementation, outside this family",
               "pandas/numpy semantics (trusted transfer table)"]
ASSUMPTIONS = ["transfer table in sa/degree.py: pct_change maps any degree to 0; diff/cummax/min/max/mean/std/quantile/iloc/loc/bfill preserve the degree; log maps degree 1 to LOG and LOG.diff() is scale-free; pow(k) multiplies the degree by k"]

LISTED = ["simple_returns", "log_returns", "cagr", "cumulative_return", "overall_return", "volatility", "drawdown", "max_drawdown", "value_at_risk", "expected_shortfall",
          "downside_volatility", "upside_volatility", "martin_risk", "tracking_error", "excess_returns", "excess_cagr", "sharpe_ratio", "sortino_ratio", "information_ratio",
          "calmar_ratio", "martin_ratio", "omega_ratio"]
INDEX_ONLY = ["nr_calendar_days", "nr_years"]

# formulas as written in the definitions (source syntax, evaluated by the same normaliser)
FORMULAS = {
    "simple_returns": "self.level().pct_change().iloc[1:]",
    "log_returns": "np.log(self.level()).diff().iloc[1:]",
    "nr_calendar_days": "(self.last_valid_index() - self.first_valid_index()).days",
    "nr_years": "self.nr_calendar_days() / 365",
    "cagr": "(self.level().bfill().iloc[-1] / self.level().bfill().iloc[0]) ** (1 / self.nr_years()) - 1",
    "cumulative_return": "self.level() / self.level().loc[self.level().first_valid_index()] - 1",
    "overall_return": "self.cumulative_return().iloc[-1]",
    "volatility": "np.sqrt(BDAYS) * self.simple_returns().std()",
    "drawdown": "self.level() / self.level().cummax() - 1",
    "max_drawdown": "self.drawdown().min()",
    "value_at_risk": "self.simple_returns().quantile(quantile)",
    "expected_shortfall": "self.simple_returns()[self.simple_returns() <= self.simple_returns().quantile(quantile)].mean()",
    "downside_volatility": "np.sqrt(BDAYS) * self.simple_returns()[self.simple_returns() < 0].std()",
    "upside_volatility": "np.sqrt(BDAYS) * self.simple_returns()[self.simple_returns() > 0].std()",
    "martin_risk": "np.sqrt(self.drawdown().pow(2).mean())",
    "tracking_error": "np.sqrt(BDAYS) * self.excess_returns(other).std()",
    "excess_returns": "self.simple_returns().subtract(other.simple_returns().squeeze().reindex(self.simple_returns().index), axis=0)",
    "excess_cagr": "self.cagr() - self._parse_rate(over)",
    "sharpe_ratio": "self.excess_cagr(risk_free) / self.volatility()",
    "sortino_ratio": "self.excess_cagr(risk_free) / self.downside_volatility()",
    "information_ratio": "self.excess_cagr(benchmark) / self.tracking_error(benchmark)",
    "calmar_ratio": "self.excess_cagr(risk_free) / -self.max_drawdown()",
    "martin_ratio": "self.excess_cagr(risk_free) / self.martin_risk()",
}


def run(ck, an, tier):
    pm = an.prog.cls("PandasMetrics")
    mod = pm.module
    ck.floor("metrics defined on PandasMetrics", len(pm.methods), 30)
    s1(ck, an, pm)
    s2(ck, an, pm)
    s3(ck, an)
    s4(ck, an, pm)
    registered_once(ck, an, pm)
    record_tearsheet(ck, an)


def record_tearsheet(ck, an):
    """TrackRecord.tearsheet() is the observation point the property names: it measures the whole recorded NLV series with the
    whole record of target weights (metrics.tearsheet intersects the two indexes, so a trimmed weights table trims the levels
    every metric is computed on)."""
    fa = an.fa("TrackRecord.tearsheet")
    subj = fa.f.short
    calls = [c for c in fa.calls_named("tearsheet") if isinstance(c.func, ast.Attribute)]
    ck.floor("metric tearsheet calls in TrackRecord.tearsheet", len(calls), 1)
    for c in calls:
        at = fa.node_of(c).id
        recv = fa.sym.canon(c.func.value, at)
        ck.check(recv == "self.net_liquidation_value()", "ARGFLOW", "S5.record-tearsheet-levels", subj, fa.loc(c), "the metrics are computed on the record's whole net-liquidation-value series",
                 f"the tearsheet is computed on {recv}", construct="nlv = self.net_liquidation_value()")
        kw = {k.arg: fa.sym.canon(k.value, at) for k in c.keywords}
        ck.check(not c.args and kw.get("weights") == "self.weights_target()", "ARGFLOW", "S5.record-tearsheet-weights", subj, fa.loc(c), "the weights table passed along is the whole record's (same index as the levels)",
                 f"weights = {kw.get('weights')}: a trimmed / re-indexed weights table cuts the level series the metrics are computed on (the two indexes are intersected)", construct="weights=self.weights_target()")
    ft = an.fa("PandasMetrics.tearsheet")
    # the only thing that may shorten the level series inside tearsheet is the intersection with the indexes of the tables passed along
    return


def registered_once(ck, an, pm):
    """Metrics are attached to the pandas classes by the to_pandas decorator; a second definition of a listed metric on another
    holder class (a Series-only or DataFrame-only override) would shadow the shared one for that type only: a Series and its
    one-column frame would disagree, and the formula / scale clauses decided on PandasMetrics would no longer describe what runs."""
    holders = [c for c in an.prog.classes.values() if c.module is pm.module and c is not pm and any(any("to_pandas" in d for d in m.decorators) for m in c.methods.values())]
    ck.floor("other classes registering pandas methods", len(holders), 1)
    shared = {n for n, m in pm.methods.items() if any("to_pandas" in d for d in m.decorators)}
    for c in holders:
        for n, m in c.methods.items():
            if any("to_pandas" in d for d in m.decorators):
                ck.check(n not in shared, "MRO", "S2.metric-registered-once", f"{c.name}.{n}", m.loc, f"{c.name}.{n} does not shadow a shared metric",
                         f"{c.name}.{n} is registered on a pandas class on top of PandasMetrics.{n}: that type now computes {n} differently from the others", construct=f"{c.name}.{n}")


def s1(ck, an, pm):
    da = DegreeAnalysis(an)
    for m in LISTED + INDEX_ONLY:
        f = pm.methods.get(m)
        if f is None:
            ck.fail("DIM", "S1.scale-invariant", f"PandasMetrics.{m}", pm.loc, f"metric {m} is gone", construct=f"missing:{m}")
            continue
        try:
            v = da.ret(m)
            ok = v.kind in ("idx", "lit", "bool") or (v.kind == "num" and not v.deg)
            ck.check(ok, "DIM", "S1.scale-invariant", f.short, f.loc, f"{m} has homogeneity degree 0: unchanged when the levels are multiplied by a positive constant",
                     f"{m} has degree {v}: its value changes when the levels are rescaled", construct=f"{m} -> {v}")
        except DegError as e:
            loc = f"{f.module.relpath}:{getattr(e.node, 'lineno', f.node.lineno)}"
            ck.fail("DIM", "S1.scale-invariant", f.short, loc, f"{m} is not homogeneous of degree 0: {e}", construct=stmt_text(e.node) if e.node is not None and hasattr(e.node, "_parent") else f"{m}")
    try:
        v = da.ret("level")
        ck.check(v.kind == "num" and v.deg == {"L": 1}, "DIM", "S1.level-degree-1", "PandasMetrics.level", pm.methods["level"].loc, "level has degree 1 (it is the series itself)", f"level has degree {v}", construct="level")
    except DegError as e:
        ck.fail("DIM", "S1.level-degree-1", "PandasMetrics.level", pm.methods["level"].loc, f"level: {e}", construct="level")
    bd = pm.module.constants.get("BDAYS")
    ck.check(isinstance(bd, ast.Constant) and bd.value == 252, "CONST", "S4.bdays", "metrics.BDAYS", f"{pm.module.relpath}:{bd.lineno if bd is not None else 0}", "BDAYS = 252", f"BDAYS = {ast.unparse(bd) if bd is not None else None}",
             construct="BDAYS = 252")


DATA_FREE_SELF_ATTRS = {"index", "first_valid_index", "last_valid_index", "loc", "iloc", "squeeze", "__class__", "name", "columns"}


def s2(ck, an, pm):
    registered = set(pm.methods)
    fl = an.fa("PandasMetrics.level")
    vcalls = fl.calls_to("PandasMetrics.validate")
    others = [s for s in all_stmts(fl) if not (isinstance(s, ast.Expr) and isinstance(s.value, ast.Call) and s.value in vcalls) and not (isinstance(s, ast.Expr) and isinstance(s.value, ast.Constant)) and not isinstance(s, (ast.Pass, ast.Assert))
              and any(isinstance(x, ast.Name) and x.id == fl.f.params[0] for x in ast.walk(s))]      # statements that touch the series itself
    if not vcalls:
        ck.fail("ORD", "S2.level-validates-first", fl.f.short, fl.f.loc, "level() does not call validate()", construct="missing:self.validate()")
    else:
        ord_before(ck, fl, "S2.level-validates-first", vcalls, others, "self.validate()", "any other statement of level()")
        for c in vcalls:
            ck.check(ast.unparse(c.func.value) == "self" and not fl.syntactic_guards(c), "ARGFLOW", "S2.validates-self", fl.f.short, fl.loc(c), "level() validates the series itself, unconditionally", "validate is conditional or applied to something else",
                     construct=stmt_text(c))
    vq = an.prog.func("PandasMetrics.validate").qual
    for m in LISTED:
        f = pm.methods.get(m)
        if f is None:
            continue
        fa = an.fa(f)
        # (a) reaches validate
        reach = an.reach(f.qual)
        ck.check(vq in reach, "ORD", "S2.metric-reaches-validate", f.short, f.loc, f"{m} reaches validate() (through level())", f"{m} never reaches validate(): invalid series are measured silently", construct=f"{m} call graph")
        # (b) self is only used through registered metrics (or index-only accessors)
        bad = []
        for n in walk_function(f.node):
            if isinstance(n, ast.Name) and n.id == f.params[0] and isinstance(n.ctx, ast.Load):
                par = getattr(n, "_parent", None)
                if isinstance(par, ast.Attribute) and par.value is n:
                    if par.attr in registered or par.attr in DATA_FREE_SELF_ATTRS:
                        if par.attr in ("loc", "iloc", "squeeze") and m not in ("capm", "tearsheet"):
                            bad.append(par)
                        continue
                    bad.append(par)
                else:
                    bad.append(n)
        why = ""
        if bad:
            why = f"{m} uses the raw series directly: `{ast.unparse(getattr(bad[0], '_parent', bad[0]))[:60]}` bypasses validate()"
        ck.check(not bad, "ORD", "S2.no-arithmetic-on-unvalidated-self", f.short, f.loc, f"{m} touches the data only through validated accessors (level(), other metrics)",
                 why, construct=stmt_text(bad[0]) if bad else m)


def s3(ck, an):
    fa = an.fa("PandasMetrics.validate")
    subj = fa.f.short
    found = {"nan-values": False, "non-positive": False, "duplicate-index": False, "not-datetime-index": False, "nan-index": False, "not-increasing": False}
    for r in raises_in(fa):
        iff = next((p for p in parents(r) if isinstance(p, ast.If)), None)
        if iff is None or not any(r is s for s in iff.body):
            continue
        t = iff.test
        txt = ast.unparse(t)
        c = fa.sym.cmp(t)
        # by value id (the mask may travel through a local): any(isnan(values)) / any(values <= 0)
        def _any_of(key, inner):
            # any(...) / any(any(...)) / (...).any() over exactly `inner`: nothing masks part of the data out
            k_ = key.replace("numpy.", "np.")
            for _ in range(3):
                if k_.startswith("np.any(") and k_.endswith(")"):
                    k_ = k_[len("np.any("):-1]
                elif k_.endswith(".any()"):
                    k_ = k_[:-len(".any()")]
            return k_ in (inner, f"({inner})")
        if c[0] == "truthy" and c[2] and _any_of(c[1], "np.isnan(self.values)"):
            found["nan-values"] = True
        if c[0] == "truthy" and c[2] and _any_of(c[1], "[self.values <= 0]"):
            found["non-positive"] = True
        cmps = [n for n in ast.walk(t) if isinstance(n, ast.Compare)]
        for cm in cmps:
            k = fa.sym.cmp(cm)
            if k[0] == "rel" and k[1] == "<=" and k[4] == Poly.atom("self.values") and c[0] == "truthy" and c[2]:
                found["non-positive"] = True
            elif k[0] == "rel" and k[1] == "<" and k[4] == Poly.atom("self.values"):
                ck.fail("CMP", "S3.rejects-non-positive", subj, fa.loc(iff), "validate tests `values < 0`: a zero level is accepted as a valid level", construct="if " + txt)
                found["non-positive"] = None
        if c == ("truthy", "self.index.has_duplicates", True):
            found["duplicate-index"] = True
        if c[0] == "truthy" and not c[2] and c[1].startswith("isinstance(self.index") and "DatetimeIndex" in c[1]:
            found["not-datetime-index"] = True
        if c == ("truthy", "self.index.hasnans", True):
            found["nan-index"] = True
        if c == ("truthy", "self.index.is_monotonic_increasing", False):
            found["not-increasing"] = True
    for k, v in found.items():
        if v is None:
            continue
        ck.check(v, "GUARD", f"S3.rejects-{k}", subj, fa.f.loc, f"validate raises for {k}", f"validate no longer raises for {k}", construct=f"validate: {k}")
    # no early return that skips tests
    ck.check(not [r for r in returns_in(fa)], "GUARD", "S3.no-early-return", subj, fa.f.loc, "validate has no early return", "validate can return before running all tests", construct="return in validate")
    for r in raises_in(fa):
        sg = fa.syntactic_guards(r)
        ck.check(len(sg) == 1, "GUARD", "S3.tests-independent", subj, fa.loc(r), "each rejection depends on its own test only", f"a rejection is nested under {[cmp_key(p) for p in sg]}", construct=stmt_text(r))


def s4(ck, an, pm):
    for m, text in FORMULAS.items():
        f = pm.methods.get(m)
        if f is None:
            continue
        fa = an.fa(f)
        rets = returns_in(fa)
        if len(rets) != 1:
            ck.fail("LIN", "S4.formula", f.short, f.loc, f"{m} has {len(rets)} returns", construct=m)
            continue
        at = fa.node_of(rets[0]).id
        got = fa.sym.ev(rets[0].value, at)
        want = fa.sym.ev(ast.parse(text, mode="eval").body, at)
        ck.check(got == want, "LIN", "S4.formula", f.short, f.loc, f"{m} = {text}", f"{m} returns {got.key()[:200]}; its definition is {want.key()[:200]}", construct=m,
                 witness=[f"got      {got.key()[:300]}", f"expected {want.key()[:300]}"])
    from sa.forward import Forward

    def value_and_spec(fa_, text):
        """(the value the function returns, folded over its returns; the specification evaluated by the same interpreter)"""
        got = function_value(fa_)
        fe_ = Forward(an, fa_, call_effects=False)
        return got, fe_.ev(ast.parse(text, mode="eval").body)
    fp = an.fa("PandasMetrics._parse_rate")
    rate = fp.f.params[1]
    got, want = value_and_spec(fp, f"{rate}.squeeze().cagr() if isinstance({rate}, NDFrame) else {rate}")
    ck.check(got is not None and got == want, "LIN", "S4.rate-of-a-series-is-its-cagr", fp.f.short, fp.f.loc, "a risk-free / benchmark series is reduced to its CAGR; a number is used as is",
             f"_parse_rate returns {got.key()[:200] if got is not None else 'nothing on some path'}; specified {want.key()[:200]}", construct="if isinstance(rate, NDFrame): rate = rate.squeeze().cagr()")
    fl = an.fa("PandasMetrics.level")
    got, want = value_and_spec(fl, "self.groupby(by=self.index.date).last() if len(np.unique(self.index.date)) != len(self.index.date) else self")
    ok_level = got is not None and got == want
    ck.check(ok_level, "GUARD", "S4.collapse-iff-duplicate-dates", fl.f.short, fl.f.loc,
             "level returns the series itself, collapsed to the last observation of each day exactly when some calendar date occurs more than once",
             f"level returns {got.key()[:260] if got is not None else 'nothing on some path'}; specified {want.key()[:260]}", construct="if len(np.unique(self.index.date)) != len(self.index.date): self = self.groupby(by=self.index.date).last()")
    ck.check(got is not None and "self" in got.key(), "ARGFLOW", "S4.level-returns-self", fl.f.short, fl.f.loc, "level returns the (validated, per-day collapsed) series", f"level returns {got.key()[:120] if got is not None else '?'}", construct="return self")
    ck.check(got is not None and ".groupby(" in got.key(), "PATHCOUNT", "S4.collapse-present", fl.f.short, fl.f.loc, "level() collapses several observations per day", "no per-day collapse in level()", construct="self = self.groupby(...).last()")
    ck.check(got is not None and "self.groupby(by=self.index.date).last()" in got.key(), "ARGFLOW", "S4.intraday-collapse-last", fl.f.short, fl.f.loc, "several observations per day collapse to the last one of the day",
             f"level collapses with {got.key()[:160] if got is not None else '?'}", construct="self = self.groupby(by=self.index.date).last()")
