"""C12 — Trade filtering: threshold, liquidations and whole lots."""
import ast
from sa.lib import *
from sa.dataflow import cmp_key, cmp_atoms
from sa.resolve import walk_function
from rules.common import allocation_filters, sub_returns_allocation

TECHNIQUE = 'static analysis (ast): comparator normal form of the threshold test (strict, conjunction with target membership) on value ids, reaching-definition flow of the traded quantity (truncation family, zero skip on every path to Trade), plumbing of margin / fractional from the space to the request'
EXPLANATION = (
    "Decides the structural clauses of C12 in Rebalancing.make_trades: (S1) the only skip conditions inside the trade loop are "
    "`abs(imbalance weight) < margin and contract in <target allocation>` (strict, conjunction) and the sub-lot skip; the Trade is built "
    "exactly when they are false; (S2) the membership operand is the *target* allocation so held-but-untargeted contracts are exempt; "
    "(S3) whole-lot conversion is from the truncation-toward-zero family and applies only under `not fractional`; (S4) every value "
    "reaching Trade(quantity=) is non-zero on every path (NZ dataflow: allocation entries are non-zero, truncation may produce zero and "
    "must be followed by a dominating zero-skip); (S5) _Allocation drops Cash and zero entries and Trade.__init__ rejects both."
)
DECIDED = ["S1 trade iff imbalance non-zero and (|w| >= threshold or untargeted)", "S2 liquidations always go through", "S3 whole lots by truncation toward zero",
           "S4 sub-lot imbalances skipped, never a zero-sized trade", "S5 cash never traded, zero entries never appear"]
NOT_DECIDED = ["float behaviour exactly at the threshold"]
ASSUMPTIONS = ["int / math.trunc / np.trunc / np.fix truncate toward zero; round / floor / ceil do not"]
TRUNC = {"int", "math.trunc", "numpy.trunc", "numpy.fix", "trunc"}


def run(ck, an, tier):
    fa = an.fa("Rebalancing.make_trades")
    subj = fa.f.short
    trades = [c for c in fa.calls_to("Trade.__init__") if isinstance(c, ast.Call)]
    if not trades:
        ck.fail("PATHCOUNT", "S1.trade-built", subj, fa.f.loc, "make_trades builds no Trade", construct="missing:Trade(...)")
        return
    ck.floor("Trade constructions in make_trades", len(trades), 1)
    t = trades[0]
    loop = None
    for p in parents(t):
        if isinstance(p, ast.For):
            loop = p
            break
    if loop is None:
        ck.fail("PATHCOUNT", "S1.trade-built", subj, fa.loc(t), "Trade is not built inside a loop over the imbalance", construct=stmt_text(t))
        return
    it = fa.sym.canon(loop.iter)
    tn = [e.id for e in loop.target.elts] if isinstance(loop.target, ast.Tuple) else []
    ck.check(it.endswith(".items()") and len(tn) == 2, "ARGFLOW", "S1.loop-over-imbalance", subj, fa.loc(loop), "the trade loop ranges over the imbalance items",
             f"the trade loop ranges over {it}", construct=stmt_text(loop))
    cvar, qvar = (tn + ["?", "?"])[:2]
    imb = it[: -len(".items()")]
    if len(tn) != 2:
        return
    Cn = loop_item(fa, loop, 0)           # the loop's contract, by value id
    imb_src = ast.unparse(loop.iter.func.value) if isinstance(loop.iter, ast.Call) and isinstance(loop.iter.func, ast.Attribute) else "?"
    # --- skips
    skips = [n for n in ast.walk(loop) if isinstance(n, (ast.Continue, ast.Break, ast.Return))]
    thr_found = False
    zero_skip = []
    for s in skips:
        preds = fa.syntactic_guards(s)
        atoms = []
        for p in preds:
            atoms += cmp_atoms(p)
        keys = sorted(cmp_key(a) for a in atoms)
        rels = [a for a in atoms if a[0] == "rel"]
        ins = [a for a in atoms if a[0] == "in"]
        frac = [a for a in atoms if a[0] == "truthy" and a[1] == "self.fractional"]
        if isinstance(s, ast.Continue) and ins:
            # threshold skip
            thr_found = True
            at_s = fa.node_of(enclosing_if(s).test).id
            # abs(weight of this contract's imbalance) - self.margin, spelled with the function's own names and normalised by the same evaluator
            thr = specv(fa, f"abs({imb_src}._to_weights(broker)[{cvar}]) - self.margin", at_s)
            r_ok = len(rels) == 1 and rels[0][1] == "<" and len(rels[0][4].t) == 2 and rels[0][4].coeff_of_atom("self.margin") == Poly.const(-1) and any(a.startswith("abs(") and "_to_weights" in a for a in rels[0][4].atoms())
            if len(rels) == 1 and rels[0][1] == "<=" and poly_mentions(rels[0][4], "self.margin", sign=-1):
                ck.fail("CMP", "S1.threshold-strict", subj, fa.loc(s), "the threshold test is `<=`: an imbalance exactly at the threshold is skipped (property: at least the threshold trades)",
                        construct=stmt_text(enclosing_if(s)))
            else:
                ck.check(r_ok, "CMP", "S1.threshold-strict", subj, fa.loc(s), "skip requires abs(imbalance weight) < margin (strict)",
                         f"threshold condition is {[cmp_key(r) for r in rels]}", construct=stmt_text(enclosing_if(s)))
            if r_ok:
                # the weight looked up is the one of the loop's contract, from the imbalance's own weights
                k = rels[0][4].key()
                ck.check(rels[0][4] == thr, "ARGFLOW", "S1.threshold-weight", subj, fa.loc(s), "the weight tested is the imbalance weight of this contract",
                         f"threshold tests {k}", construct=stmt_text(enclosing_if(s)))
            i_ok = len(ins) == 1 and ins[0][3] is True and ins[0][1] == Cn.key() and ins[0][2] == "self.allocation"
            ck.check(i_ok, "GUARD", "S2.exempts-untargeted", subj, fa.loc(s), "skip additionally requires `contract in self.allocation` (the target), so untargeted holdings are liquidated",
                     f"membership condition is {[cmp_key(i) for i in ins]} (expected contract in self.allocation)", construct=stmt_text(enclosing_if(s)))
            ck.check(len(atoms) == 2, "GUARD", "S1.threshold-conjunction", subj, fa.loc(s), "the skip condition is exactly the conjunction of the two tests",
                     f"skip condition atoms: {keys}", construct=stmt_text(enclosing_if(s)))
            # conjunction, not disjunction: guard_predicates splits conjunctions only
            conj = all(p[0] != "or" for p in preds)
            ck.check(conj, "GUARD", "S1.threshold-and", subj, fa.loc(s), "the two tests are joined by `and`", "the two tests are joined by `or`: untargeted or large imbalances are skipped",
                     construct=stmt_text(enclosing_if(s)))
        elif isinstance(s, ast.Continue) and any(rel_is(a, "==", fa.sym.ev(ast.Name(id=qvar, ctx=ast.Load()), fa.node_of(enclosing_if(s).test).id)) for a in atoms):
            zero_skip.append(s)
            extra = [a for a in atoms if not (a[0] == "rel" and a[1] == "==") and not (a[0] == "truthy" and a[1] == "self.fractional")]
            ck.check(not extra, "GUARD", "S4.zero-skip-pure", subj, fa.loc(s), "the sub-lot skip depends only on the quantity being zero",
                     f"sub-lot skip has extra conditions {[cmp_key(a) for a in extra]}", construct=stmt_text(enclosing_if(s)))
        else:
            ck.fail("GUARD", "S1.no-other-skip", subj, fa.loc(s), f"an additional `{type(s).__name__.lower()}` drops trades under {keys}", construct=stmt_text(enclosing_if(s) or s))
    ck.check(thr_found, "GUARD", "S1.threshold-present", subj, fa.loc(loop), "the threshold skip is present", "no threshold skip in the trade loop (margin is ignored)",
             construct="missing:if abs(weights[contract]) < self.margin and contract in self.allocation: continue")
    # the Trade itself is not under any other branch
    own_tests = set()
    for s in skips:
        for n, lab in fa.guards(s):
            own_tests.add(n.id)
    for n, lab in fa.guards(t):
        if n.id in own_tests:
            continue
        if fa.cfg.nodes[n.id].stmt is loop:
            continue
        ck.fail("GUARD", "S1.trade-unconditional", subj, fa.loc(t), f"Trade construction is additionally guarded by `{ast.unparse(n.ast)}` ({lab})", construct="if " + ast.unparse(n.ast))
    # Trade args
    kw = {k.arg: k.value for k in t.keywords}
    ck.check("contract" in kw and fa.sym.canon(kw["contract"]) == Cn.key(), "ARGFLOW", "S1.trade-contract", subj, fa.loc(t), "the trade is for the loop's contract",
             f"Trade(contract={ast.unparse(kw.get('contract')) if 'contract' in kw else '?'})", construct="contract=")
    # --- S3 / S4 quantity flow
    qexpr = kw.get("quantity")
    defs = fa.rd.reaching(qexpr.id, fa.node_of(t).id) if isinstance(qexpr, ast.Name) else []
    if not isinstance(qexpr, ast.Name) or not defs:
        ck.fail("NZ", "S4.quantity-flow", subj, fa.loc(t), f"cannot trace Trade(quantity={ast.unparse(qexpr) if qexpr is not None else '?'}) to the loop", construct="quantity=")
        return
    trunc_defs = []
    for d in defs:
        if d.kind == "for":
            ck.check(fa.cfg.nodes[d.node].stmt is loop, "ARGFLOW", "S3.fractional-quantity-unchanged", subj, fa.loc(t), "in fractional mode the traded quantity is the imbalance itself",
                     "quantity comes from another loop", construct="quantity=")
        elif d.kind == "assign":
            v = d.value
            fname = fa.an.prog.dotted(fa.f.module, v.func) if isinstance(v, ast.Call) else None
            is_trunc = isinstance(v, ast.Call) and fname in TRUNC and len(v.args) == 1 and isinstance(v.args[0], ast.Name) and v.args[0].id == qvar
            ck.check(is_trunc, "IDIOM", "S3.truncation-family", subj, fa.loc(d.ast), "whole lots are obtained by truncation toward zero of the imbalance",
                     f"quantity is converted by `{ast.unparse(v)}` which is not truncation toward zero of the imbalance", construct=ast.unparse(d.ast))
            preds = fa.guard_predicates(d.ast)
            only_nonfrac = len(preds) == 1 and preds[0][0] == "truthy" and preds[0][1] == "self.fractional" and preds[0][2] is False
            ck.check(only_nonfrac, "GUARD", "S3.only-when-not-fractional", subj, fa.loc(d.ast), "truncation applies exactly when fractional is False",
                     f"truncation is guarded by {[cmp_key(p) for p in preds]}", construct=ast.unparse(d.ast))
            trunc_defs.append(d)
        else:
            ck.fail("NZ", "S4.quantity-flow", subj, fa.loc(t), f"quantity has an unexpected definition ({d.kind})", construct="quantity=")
    nonfrac_needed = True
    if not trunc_defs:
        ck.fail("IDIOM", "S3.truncation-family", subj, fa.loc(loop), "no whole-lot conversion under `not self.fractional`", construct="missing:quantity = int(quantity)")
    # NZ: after each truncation, a zero-skip dominates the Trade on the paths through the truncation
    for d in trunc_defs:
        dn = d.node
        ok = False
        for z in zero_skip:
            # the test guarding the continue must lie after the truncation and before the Trade
            for n, lab in fa.guards(z):
                c = fa.sym.cmp(n.ast, n.id)
                if any(a[0] == "rel" and a[1] == "==" for a in cmp_atoms(c)):
                    if fa.cfg.reaches(dn, n.id) and fa.cfg.every_path_to_passes(fa.node_of(t).id, {n.id} | _nodes_avoiding(fa, dn, fa.node_of(t).id)):
                        ok = True
        # simpler and exact: is the Trade reachable from the truncation without passing a zero test?
        ztests = set()
        for z in zero_skip:
            for n, lab in fa.guards(z):
                c = fa.sym.cmp(n.ast, n.id)
                if any(rel_is(a, "==", fa.sym.ev(ast.Name(id=qvar, ctx=ast.Load()), n.id)) for a in cmp_atoms(c)):
                    ztests.add(n.id)
        reach = fa.cfg.reachable(dn, avoid=ztests | {fa.cfg.nodes.index(x) for x in []})
        # do not follow the loop back edge: a later iteration re-defines quantity
        reach_no_back = _reach_no_back(fa, dn, ztests)
        ck.check(fa.node_of(t).id not in reach_no_back, "NZ", "S4.nonzero-into-trade", subj, fa.loc(d.ast),
                 "a truncated quantity reaches Trade only through the zero-skip",
                 "int(quantity) can be 0 and flows into Trade(quantity=) unguarded: sub-lot imbalances raise instead of being skipped", construct=ast.unparse(d.ast))
    # the loop source is an _Allocation (zero-free) : imbalance comes from _to_nr_contracts and -= NrContracts(...)
    ck.check("_to_nr_contracts(broker)" in imb or "phi(" in imb, "ARGFLOW", "S4.imbalance-is-allocation", subj, fa.loc(loop), "the imbalance is an allocation object (zero entries filtered)",
             f"imbalance is {imb}", construct=stmt_text(loop))
    sub_returns_allocation(ck, an, "S4")
    from rules import C03
    from sa.report import Renamed
    d3 = Renamed(ck, "C03:")
    C03.s2(d3, an)      # what the imbalance is (target minus holdings): the quantity the emission rule is about
    C03.s3(d3, an)
    allocation_filters(ck, an, "S5")
    trade_guards(ck, an, "S5")
    plumbing(ck, an)


def _p(s):
    from sa.dataflow import _paren
    return _paren(s)


def _reach_no_back(fa, start, avoid):
    be = fa.cfg.back_edges()
    seen = {start}
    stack = [start]
    while stack:
        x = stack.pop()
        for y, lab in fa.cfg.succ[x]:
            if (x, y) in be or y in avoid or y in seen:
                continue
            seen.add(y)
            stack.append(y)
    return seen


def _nodes_avoiding(fa, a, b):
    return set()


def enclosing_if(node):
    for p in parents(node):
        if isinstance(p, ast.If):
            return p
    return None


def trade_guards(ck, an, prefix):
    """Trade.__init__ rejects zero quantity and Cash before storing anything."""
    fa = an.fa("Trade.__init__")
    subj = fa.f.short
    stores = sorted([e.node for e in fa.effects() if e.kind == "W" and e.owner == "Trade"], key=lambda n: (n.lineno, n.col_offset))
    ck.floor("attribute stores in Trade.__init__", len(stores), 5)
    want = {
        "zero-quantity": lambda p: p[0] == "rel" and p[1] == "==" and p[2] == "quantity",
        "cash": lambda p: p[0] == "truthy" and p[2] and "isinstance(contract" in p[1] and "Cash" in p[1],
    }
    for name, pred in want.items():
        tests = []
        for r in raises_in(fa):
            preds = fa.syntactic_guards(r)
            if len(preds) == 1 and pred(preds[0]):
                tests += [enclosing_if(r).test]
        if not tests:
            ck.fail("GUARD", f"{prefix}.trade-rejects-{name}", subj, fa.f.loc, f"Trade.__init__ has no raise guarded by the {name} test", construct=f"missing:{name} guard")
            continue
        first_unguarded = [st for st in stores if not fa.all_paths_to_pass(st, tests)][:1] or stores[:1]
        ord_before(ck, fa, f"{prefix}.trade-rejects-{name}", tests, first_unguarded, f"the {name} rejection", "every attribute store")


def plumbing(ck, an):
    """The configured threshold / whole-lot flag reach Rebalancing unchanged, for every measure."""
    fa = an.fa("PortfolioSpace.make_rebalancing_request")
    calls = [c for c in fa.calls_to("Rebalancing.__init__") if isinstance(c, ast.Call)]
    for c in calls:
        kw = {k.arg: fa.sym.canon(k.value) for k in c.keywords}
        ck.check(kw.get("margin") == "self._margin", "ARGFLOW", "S1.threshold-reaches-request", fa.f.short, fa.loc(c), "the request carries the space's threshold", f"Rebalancing(margin={kw.get('margin')})", construct="margin=" + str(kw.get("margin")))
        ck.check(kw.get("fractional") == "self._fractional", "ARGFLOW", "S3.lot-mode-reaches-request", fa.f.short, fa.loc(c), "the request carries the space's whole-lot flag", f"Rebalancing(fractional={kw.get('fractional')})",
                 construct="fractional=" + str(kw.get("fractional")))
    if not calls:
        ck.fail("ARGFLOW", "S1.threshold-reaches-request", fa.f.short, fa.f.loc, "no Rebalancing(...) built", construct="missing:Rebalancing")
    fi = an.fa("PortfolioSpace.__init__")
    for attr, src in (("_margin", "margin"), ("_fractional", "fractional"), ("_as_weights", "as_weights")):
        st = assigns_to_attr(fi, attr)
        ck.check(len(st) == 1 and isinstance(st[0], ast.Assign) and fi.sym.canon(st[0].value) == src, "ARGFLOW", f"S1.space-stores-{src}", fi.f.short, fi.f.loc, f"PortfolioSpace.{attr} is the constructor argument {src}",
                 f"PortfolioSpace.{attr} = {[ast.unparse(x.value) for x in st if isinstance(x, ast.Assign)]}", construct=f"self.{attr} = {src}")
        own_writers(ck, an, f"S1.space-{src}-fixed", "PortfolioSpace", attr, {"PortfolioSpace.__init__"}, min_sites=1)
    fr = an.fa("Rebalancing.__init__")
    for attr in ("margin", "fractional"):
        st = assigns_to_attr(fr, attr)
        ck.check(len(st) == 1 and isinstance(st[0], ast.Assign) and fr.sym.canon(st[0].value) == attr, "ARGFLOW", f"S1.request-stores-{attr}", fr.f.short, fr.f.loc, f"Rebalancing.{attr} is the constructor argument",
                 f"Rebalancing.{attr} = {[ast.unparse(x.value) for x in st if isinstance(x, ast.Assign)]}", construct=f"self.{attr} = {attr}")
    subclass_ctor_plumbing(ck, an, "S1")


def subclass_ctor_plumbing(ck, an, prefix):
    """Every concrete space forwards contracts / as_weights / fractional / margin to PortfolioSpace.__init__ under the same name."""
    base = an.prog.func("PortfolioSpace.__init__")
    ps = an.prog.cls("PortfolioSpace")
    for c in an.prog.subclasses(ps):
        if c.module.name.startswith("_fixture") or "__init__" not in c.methods:
            continue
        fa = an.fa(c.methods["__init__"])
        calls = [x for x in fa.calls_named("__init__") if ast.unparse(x.func) in ("PortfolioSpace.__init__", "super().__init__")]
        if not calls:
            ck.fail("ARGFLOW", f"{prefix}.space-ctor-plumbing", fa.f.short, fa.f.loc, f"{c.name}.__init__ does not call PortfolioSpace.__init__", construct="PortfolioSpace.__init__(...)")
            continue
        for x in calls:
            args = list(x.args)
            off = 1 if ast.unparse(x.func) == "PortfolioSpace.__init__" else 0
            bound = {}
            for i, a in enumerate(args[off:]):
                if 1 + i < len(base.params):
                    bound[base.params[1 + i]] = ast.unparse(a)
            for k in x.keywords:
                bound[k.arg] = ast.unparse(k.value)
            bad = {p: v for p, v in bound.items() if v != p}
            ck.check(not bad, "ARGFLOW", f"{prefix}.space-ctor-plumbing", fa.f.short, fa.loc(x), f"{c.name} forwards {sorted(bound)} to PortfolioSpace.__init__ under the same names",
                     f"{c.name}.__init__ binds PortfolioSpace.__init__ parameters to other arguments: {bad}", construct=stmt_text(x))
