"""C12 — Trade filtering: threshold, liquidations and whole lots."""
import ast
from sa.lib import *
from sa.dataflow import cmp_key, cmp_atoms
from sa.resolve import walk_function
from rules.common import allocation_filters, sub_returns_allocation

TECHNIQUE = 'static analysis (ast): comparator normal form of the threshold test (strict, conjunction with target membership) on value ids, reaching-definition flow of the traded quantity (truncation family, zero skip on every path to Trade), plumbing of margin / fractional from the space to the request'
EXPLANATION = (
    "Decides the structural clauses of C12 in Rebalancing.make_trades: (S1) the only skip conditions inside the trade loop are "
    "`abs(imbalance weight) < margin and contract in <target allocation>` (strict, conjunction) and the sub-lot skip; the Trade is built "
    "exactly when they are false; (S2) the membership operand is the *target* allocation so held-but-untargeted contracts are exempt; "
    "(S3) whole-lot conversion is from the truncation-toward-zero family and applies only under `not fractional`; (S4) every value "
    "reaching Trade(quantity=) is non-zero on every path (NZ dataflow: allocation entries are non-zero, truncation may produce zero and "
    "must be followed by a dominating zero-skip); (S5) _Allocation drops Cash and zero entries and Trade.__init__ rejects both."
    " No return is reachable without entering the trade loop unless guarded by an empty imbalance (S1.no-skip-before-the-loop), and no `break` / `return` in the loop body lets one item decide for the items after it (S1.no-loop-exit); the trades executed are the list built for this request (C13.S4 clauses) and a continuous action is the allocation as given (C17.S4)."
)
DECIDED = ["S1 trade iff imbalance non-zero and (|w| >= threshold or untargeted)", "S2 liquidations always go through", "S3 whole lots by truncation toward zero",
           "S4 sub-lot imbalances skipped, never a zero-sized trade", "S5 cash never traded, zero entries never appear"]
NOT_DECIDED = ["float behaviour exactly at the threshold"]
ASSUMPTIONS = ["int / math.trunc / np.trunc / np.fix truncate toward zero; round / floor / ceil do not"]
TRUNC = {"int", "math.trunc", "numpy.trunc", "numpy.fix", "trunc"}


def run(ck, an, tier):
    fa = an.fa("Rebalancing.make_trades")
    subj = fa.f.short
    trades = [c for c in fa.calls_to("Trade.__init__") if isinstance(c, ast.Call)]
    if not trades:
        ck.fail("PATHCOUNT", "S1.trade-built", subj, fa.f.loc, "make_trades builds no Trade", construct="missing:Trade(...)")
        return
    ck.floor("Trade constructions in make_trades", len(trades), 1)
    t = trades[0]
    loop = None
    for p in parents(t):
        if isinstance(p, ast.For):
            loop = p
            break
    if loop is None:
        ck.fail("PATHCOUNT", "S1.trade-built", subj, fa.loc(t), "Trade is not built inside a loop over the imbalance", construct=stmt_text(t))
        return
    it = fa.sym.canon(loop.iter)
    tn = [e.id for e in loop.target.elts] if isinstance(loop.target, ast.Tuple) else []
    ck.check(it.endswith(".items()") and len(tn) == 2, "ARGFLOW", "S1.loop-over-imbalance", subj, fa.loc(loop), "the trade loop ranges over the imbalance items",
             f"the trade loop ranges over {it}", construct=stmt_text(loop))
    cvar, qvar = (tn + ["?", "?"])[:2]
    imb = it[: -len(".items()")]
    if len(tn) != 2:
        return
    Cn = loop_item(fa, loop, 0)           # the loop's contract, by value id
    imb_src = ast.unparse(loop.iter.func.value) if isinstance(loop.iter, ast.Call) and isinstance(loop.iter.func, ast.Attribute) else "?"
    # --- which items become a Trade, and of what size: a decision table over the atomic conditions, obtained by evaluating one
    # loop iteration abstractly under every truth assignment (so nested ifs, guard clauses, boolean temporaries ... are all the same)
    from sa.forward import Forward
    from sa.dataflow import Poly
    at0 = fa.node_of(loop.body[0]).id
    Q = loop_item(fa, loop, 1)
    thr = specv(fa, f"abs({imb_src}._to_weights(broker)[{cvar}]) - self.margin", at0)
    BELOW = ("rel", "<", thr.key(), False, thr)                                   # |imbalance weight| < margin   (strict)
    MEMBER = ("in", Cn.key(), "self.allocation", True)                            # contract in the target allocation
    FRAC = ("truthy", "self.fractional", True)

    qnames = {x.id for k_ in t.keywords for x in ast.walk(k_.value) if isinstance(x, ast.Name)}
    inloop = {id(x) for x in ast.walk(loop)}
    open_conditions = {}

    def _decides_outcome(n_):
        return any(isinstance(x, (ast.Continue, ast.Break, ast.Return, ast.Raise)) or x is t or (isinstance(x, ast.Name) and isinstance(x.ctx, ast.Store) and x.id in qnames) for x in ast.walk(n_))

    def trade_seen(fw_, events):
        """('trade', quantity value id) for every live path that builds the Trade; [] when the item is skipped"""
        for n_, c_ in getattr(fw_, "open_tests", []):
            if id(n_) in inloop and _decides_outcome(n_):
                open_conditions.setdefault(cmp_key(c_), n_)
        out = []
        for st_, state in events:
            if any(x is t for x in ast.walk(st_)):
                fw_.st = state
                kwq = next((k.value for k in t.keywords if k.arg == "quantity"), None)
                out.append(fw_.ev(kwq).key() if kwq is not None else "?")
        return sorted(set(out))
    # the truncated quantity tested for zero: discovered from the whole-lot regime with the zero test left open
    open_tab = decision_table(fa, [FRAC, BELOW, MEMBER], trade_seen)
    lots = [q_ for q_ in open_tab[(False, False, False)] if q_ != Q.key()]
    trunc_ok = len(lots) == 1 and any(lots[0] == f"{fn_}({Q.key()})" for fn_ in ("int", "math.trunc", "np.trunc", "numpy.trunc", "np.fix", "numpy.fix", "trunc"))
    ck.check(trunc_ok, "IDIOM", "S3.truncation-family", subj, fa.loc(loop), "whole lots are obtained by truncation toward zero of the imbalance (int / math.trunc / np.trunc / np.fix)",
             f"without fractional trading the traded quantity is {lots or open_tab[(False, False, False)]}: not a truncation toward zero of the imbalance", construct="quantity = int(quantity)")
    if len(lots) == 1:
        PL = Poly.atom(lots[0])
        ZERO = ("rel", "==", PL.sign_normalised()[0].key(), False, PL.sign_normalised()[0])
        open_conditions.clear()
        tab = decision_table(fa, [FRAC, BELOW, MEMBER, ZERO], trade_seen)
        bad = {"S1.threshold-strict": [], "S2.exempts-untargeted": [], "S3.fractional-quantity-unchanged": [], "S3.only-when-not-fractional": [], "S4.nonzero-into-trade": [], "S1.no-other-skip": []}
        for (frac, below, member, zero), seen in tab.items():
            skip_expected = (below and member) or (not frac and zero)
            want_q = Q.key() if frac else lots[0]
            regime = f"fractional={frac}, |w|<margin={below}, targeted={member}, whole lots==0={zero}"
            if skip_expected:
                if seen:
                    clause = "S4.nonzero-into-trade" if (not frac and zero and not (below and member)) else "S1.threshold-strict"
                    bad[clause].append(f"{regime}: a Trade of {seen} is built, expected none")
            else:
                if not seen:
                    clause = "S2.exempts-untargeted" if (below and not member) else "S1.no-other-skip"
                    bad[clause].append(f"{regime}: no Trade is built, expected one of {want_q}")
                elif seen != [want_q]:
                    clause = "S3.fractional-quantity-unchanged" if frac else "S3.only-when-not-fractional"
                    bad[clause].append(f"{regime}: Trade quantity {seen}, expected {want_q}")
        what = {"S1.threshold-strict": "an imbalance is skipped exactly when |imbalance weight| < margin (strict) and the contract is targeted",
                "S2.exempts-untargeted": "held-but-untargeted contracts are traded (liquidated) however small the imbalance",
                "S3.fractional-quantity-unchanged": "in fractional mode the traded quantity is the imbalance itself",
                "S3.only-when-not-fractional": "whole-lot truncation applies exactly when fractional is False",
                "S4.nonzero-into-trade": "a sub-lot imbalance (whole lots == 0) is skipped, never sent to Trade",
                "S1.no-other-skip": "nothing else prevents the Trade: every other imbalance item becomes one Trade"}
        for key_, n_ in open_conditions.items():
            strictness = key_.replace("<= 0]", "< 0]") == cmp_key(BELOW) or thr.key() in key_
            bad["S1.threshold-strict" if strictness else "S1.no-other-skip"].append(
                f"whether an item is traded also depends on {key_} (`{ast.unparse(n_.test)[:60]}`), which the reviewed conditions do not decide" + (": the threshold test is not the strict `<`" if strictness else ""))
        for clause, msgs in bad.items():
            ck.check(not msgs, "GUARD", clause, subj, fa.loc(loop), what[clause], "; ".join(msgs[:3]), construct="trade loop of make_trades", witness=msgs[:8])
    # nothing outside the loop decides for all items at once: a return that can be reached without passing the trade loop is accepted
    # only when it is guarded by the imbalance being empty (then the loop would have produced nothing anyway)
    if True:
        early = [f"line {r_.lineno}: `{stmt_text(r_)[:50]}` under {gs_[:3]}" for r_, gs_, fine_ in shortcut_returns(fa, loop, extra_empty=[imb]) if not fine_]
        ck.check(not early, "GUARD", "S1.no-skip-before-the-loop", subj, fa.loc(loop), "make_trades reaches the per-item decision for every rebalance (no shortcut return decides for all items at once, "
                 "other than for an empty imbalance)", "make_trades can return without entering the trade loop: " + "; ".join(early[:3]) +
                 " - held-but-untargeted contracts and above-threshold items are then not traded", construct="trade loop of make_trades", witness=early[:8])
    # every item gets its own decision: an item may be skipped (`continue`) or fail loudly (`raise`), but nothing inside one iteration may
    # end the loop for the items that follow it - a `break` of the trade loop or a `return` in its body drops every later imbalance item,
    # among them the held-but-untargeted contracts (the imbalance lists targets first), whatever their size
    def _ends_loop(body):
        out = []
        for st_ in body:
            for x in _walk_same_loop(st_):
                if isinstance(x, (ast.Break, ast.Return)):
                    out.append(x)
        return out

    def _walk_same_loop(n_):
        """nodes below n_ that belong to the trade loop itself: nested loops keep their own `break`s (but not their `return`s), nested
        functions / lambdas keep both"""
        stack = [(n_, False)]
        while stack:
            x, nested = stack.pop()
            if isinstance(x, (ast.FunctionDef, ast.AsyncFunctionDef, ast.Lambda, ast.ClassDef)):
                continue
            if not (nested and isinstance(x, ast.Break)):
                yield x
            inner = nested or isinstance(x, (ast.For, ast.While, ast.AsyncFor))
            for c_ in ast.iter_child_nodes(x):
                # the `else:` of a nested loop is outside that loop as far as `break` goes
                in_else = isinstance(x, (ast.For, ast.While, ast.AsyncFor)) and c_ in getattr(x, "orelse", [])
                stack.append((c_, nested if in_else else inner))
    exits = _ends_loop(loop.body)
    ck.check(not exits, "GUARD", "S1.no-loop-exit", subj, fa.loc(exits[0]) if exits else fa.loc(loop), "one imbalance item never decides for the items after it: the trade loop has no `break` and no `return` in its body "
             "(an item is skipped with `continue` or rejected with `raise`)", "the trade loop can end early: " + "; ".join(f"line {x.lineno}: `{stmt_text(x)[:40]}`" for x in exits[:3]) +
             " - every later imbalance item, held-but-untargeted contracts included, is then not traded", construct="trade loop of make_trades", witness=[f"line {x.lineno}: {stmt_text(x)[:60]}" for x in exits[:8]])
    # Trade args
    kw = {k.arg: k.value for k in t.keywords}
    ck.check("contract" in kw and fa.sym.canon(kw["contract"]) == Cn.key(), "ARGFLOW", "S1.trade-contract", subj, fa.loc(t), "the trade is for the loop's contract",
             f"Trade(contract={ast.unparse(kw.get('contract')) if 'contract' in kw else '?'})", construct="contract=")
    # the loop source is an _Allocation (zero-free) : imbalance comes from _to_nr_contracts and -= NrContracts(...)
    ck.check("_to_nr_contracts(broker)" in imb or "phi(" in imb, "ARGFLOW", "S4.imbalance-is-allocation", subj, fa.loc(loop), "the imbalance is an allocation object (zero entries filtered)",
             f"imbalance is {imb}", construct=stmt_text(loop))
    sub_returns_allocation(ck, an, "S4")
    from rules import C03
    from sa.report import Renamed
    d3 = Renamed(ck, "C03:")
    C03.s2(d3, an)      # what the imbalance is (target minus holdings): the quantity the emission rule is about
    C03.s3(d3, an)
    allocation_filters(ck, an, "S5")
    trade_guards(ck, an, "S5")
    plumbing(ck, an)
    from rules import C13, C17, ledger
    # the trades a rebalance emits are the ones make_trades built for THIS request on the current state (no memo / shortcut in between)
    C13.s4(ledger._Only(Renamed(ck, "C13:"), {"build-before-execute", "executes-built-list", "transacts-loop-item", "not-a-generator"}), an)
    # the target the emission rule sees is the requested one: a continuous action is the allocation itself (no rounding / clipping before the threshold test)
    C17.s4(ledger._Only(Renamed(ck, "C17:"), {"box-allocation-is-action"}), an)


def _p(s):
    from sa.dataflow import _paren
    return _paren(s)


def _reach_no_back(fa, start, avoid):
    be = fa.cfg.back_edges()
    seen = {start}
    stack = [start]
    while stack:
        x = stack.pop()
        for y, lab in fa.cfg.succ[x]:
            if (x, y) in be or y in avoid or y in seen:
                continue
            seen.add(y)
            stack.append(y)
    return seen


def _nodes_avoiding(fa, a, b):
    return set()


def enclosing_if(node):
    for p in parents(node):
        if isinstance(p, ast.If):
            return p
    return None


def trade_guards(ck, an, prefix):
    """Trade.__init__ rejects zero quantity and Cash before storing anything."""
    fa = an.fa("Trade.__init__")
    subj = fa.f.short
    stores = sorted([e.node for e in fa.effects() if e.kind == "W" and e.owner == "Trade"], key=lambda n: (n.lineno, n.col_offset))
    ck.floor("attribute stores in Trade.__init__", len(stores), 5)
    want = {
        "zero-quantity": lambda p: p[0] == "rel" and p[1] == "==" and p[2] == "quantity",
        "cash": lambda p: p[0] == "truthy" and p[2] and "isinstance(contract" in p[1] and "Cash" in p[1],
    }
    for name, pred in want.items():
        tests = []
        for r in raises_in(fa):
            preds = fa.syntactic_guards(r)
            if len(preds) == 1 and pred(preds[0]):
                tests += [enclosing_if(r).test]
        if not tests:
            ck.fail("GUARD", f"{prefix}.trade-rejects-{name}", subj, fa.f.loc, f"Trade.__init__ has no raise guarded by the {name} test", construct=f"missing:{name} guard")
            continue
        first_unguarded = [st for st in stores if not fa.all_paths_to_pass(st, tests)][:1] or stores[:1]
        ord_before(ck, fa, f"{prefix}.trade-rejects-{name}", tests, first_unguarded, f"the {name} rejection", "every attribute store")


def plumbing(ck, an):
    """The configured threshold / whole-lot flag reach Rebalancing unchanged, for every measure."""
    fa = an.fa("PortfolioSpace.make_rebalancing_request")
    calls = [c for c in fa.calls_to("Rebalancing.__init__") if isinstance(c, ast.Call)]
    for c in calls:
        kw = {k.arg: fa.sym.canon(k.value) for k in c.keywords}
        ck.check(kw.get("margin") == "self._margin", "ARGFLOW", "S1.threshold-reaches-request", fa.f.short, fa.loc(c), "the request carries the space's threshold", f"Rebalancing(margin={kw.get('margin')})", construct="margin=" + str(kw.get("margin")))
        ck.check(kw.get("fractional") == "self._fractional", "ARGFLOW", "S3.lot-mode-reaches-request", fa.f.short, fa.loc(c), "the request carries the space's whole-lot flag", f"Rebalancing(fractional={kw.get('fractional')})",
                 construct="fractional=" + str(kw.get("fractional")))
    if not calls:
        ck.fail("ARGFLOW", "S1.threshold-reaches-request", fa.f.short, fa.f.loc, "no Rebalancing(...) built", construct="missing:Rebalancing")
    fi = an.fa("PortfolioSpace.__init__")
    for attr, src in (("_margin", "margin"), ("_fractional", "fractional"), ("_as_weights", "as_weights")):
        st = assigns_to_attr(fi, attr)
        ck.check(len(st) == 1 and isinstance(st[0], ast.Assign) and fi.sym.canon(st[0].value) == src, "ARGFLOW", f"S1.space-stores-{src}", fi.f.short, fi.f.loc, f"PortfolioSpace.{attr} is the constructor argument {src}",
                 f"PortfolioSpace.{attr} = {[ast.unparse(x.value) for x in st if isinstance(x, ast.Assign)]}", construct=f"self.{attr} = {src}")
        own_writers(ck, an, f"S1.space-{src}-fixed", "PortfolioSpace", attr, {"PortfolioSpace.__init__"}, min_sites=1)
    fr = an.fa("Rebalancing.__init__")
    for attr in ("margin", "fractional"):
        st = assigns_to_attr(fr, attr)
        ck.check(len(st) == 1 and isinstance(st[0], ast.Assign) and fr.sym.canon(st[0].value) == attr, "ARGFLOW", f"S1.request-stores-{attr}", fr.f.short, fr.f.loc, f"Rebalancing.{attr} is the constructor argument",
                 f"Rebalancing.{attr} = {[ast.unparse(x.value) for x in st if isinstance(x, ast.Assign)]}", construct=f"self.{attr} = {attr}")
    subclass_ctor_plumbing(ck, an, "S1")


def subclass_ctor_plumbing(ck, an, prefix):
    """Every concrete space forwards contracts / as_weights / fractional / margin to PortfolioSpace.__init__ under the same name."""
    base = an.prog.func("PortfolioSpace.__init__")
    ps = an.prog.cls("PortfolioSpace")
    for c in an.prog.subclasses(ps):
        if c.module.name.startswith("_fixture") or "__init__" not in c.methods:
            continue
        fa = an.fa(c.methods["__init__"])
        calls = [x for x in fa.calls_named("__init__") if ast.unparse(x.func) in ("PortfolioSpace.__init__", "super().__init__")]
        if not calls:
            ck.fail("ARGFLOW", f"{prefix}.space-ctor-plumbing", fa.f.short, fa.f.loc, f"{c.name}.__init__ does not call PortfolioSpace.__init__", construct="PortfolioSpace.__init__(...)")
            continue
        for x in calls:
            args = list(x.args)
            off = 1 if ast.unparse(x.func) == "PortfolioSpace.__init__" else 0
            bound = {}
            for i, a in enumerate(args[off:]):
                if 1 + i < len(base.params):
                    bound[base.params[1 + i]] = ast.unparse(a)
            for k in x.keywords:
                if k.arg is None:
                    continue        # **mapping: judged where the mapping is built (the normaliser spreads literal ones)
                bound[k.arg] = ast.unparse(k.value)
            bad = {p: v for p, v in bound.items() if v != p}
            ck.check(not bad, "ARGFLOW", f"{prefix}.space-ctor-plumbing", fa.f.short, fa.loc(x), f"{c.name} forwards {sorted(bound)} to PortfolioSpace.__init__ under the same names",
                     f"{c.name}.__init__ binds PortfolioSpace.__init__ parameters to other arguments: {bad}", construct=stmt_text(x))
