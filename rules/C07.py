"""C07 — Track record and rewards are a faithful, replayable account."""
import ast
from sa.lib import *
from sa.forward import Forward, attribute_summary
from sa.dataflow import Poly, cmp_key, cmp_atoms
from sa.resolve import walk_function

TECHNIQUE = "static analysis (ast): ordering / exactly-once rules on the CFG of Broker.rebalance and TradingEnv.step, alias rules for the snapshot (copies, not live ledgers), value-id comparison of every reward class's formula (resolved through the MRO) and of the track-record reports"
EXPLANATION = (
    "Decides the structural clauses of C07: (S1) Broker.rebalance reaches TrackRecord._checkpoint exactly once on every normal path, nobody "
    "else calls it, only __init__/_checkpoint write the record's containers and both are extended on the same paths with the same key; "
    "(S2) a duplicate timestamp raises before anything is appended; (S3) the request is stamped with now() read after the latent events of the "
    "step were processed and the checkpoint key is that time; (S4) in rebalance: accrue, pre-trade snapshot, size, execute, post-trade snapshot, "
    "checkpoint - in that order, each stored on the request; (S5) Context is built from copying accessors only; (S6) every reward reads the recorded "
    "pre-trade NLV of the last entry and the current NLV and returns the stated function (difference; ratio - 1; log ratio; log ratio / scale, clipped, "
    "risk-averse); (S7) the reporting methods read the named recorded fields (pre vs post selected by the flag)."
)
DECIDED = ["S1 exactly one entry per executed decision", "S2 entries distinct in time", "S3 stamped with the latest event time before execution",
           "S4 pre/post snapshots bracket the trades", "S5 the record is a copy", "S6 rewards are the stated functions of recorded and current NLV", "S7 aggregates read the recorded fields"]
NOT_DECIDED = ["replay reconciliation of NLV against an independent ledger (numeric)", "compounding of returns over an episode", "correctness of the clock itself (C04)"]
ASSUMPTIONS = ["np.log, np.clip, float have their usual meaning"]


def run(ck, an, tier):
    from rules import C04 as _c04x, ledger as _ledgerx
    from sa.report import Renamed as _Rx
    _c04x.env_side(_ledgerx._Only(_Rx(ck, "C04:"), {"batches-not-mutated", "latent-batch-consumed"}), an)      # every episode is delivered the same quotes: the batches are the transmitter's own lists and are never emptied in place
    from sa.report import Renamed
    from rules import C06, C13
    C06.s7(Renamed(ck, "C06:"), an)       # the interest recorded is the interest actually accrued, once, at the request's time
    C13.s4(Renamed(ck, "C13:"), an)       # the trades recorded are exactly the trades executed
    from rules import ledger
    ledger.transact_equations(Renamed(ck, "C01:"), an, {"equations"})     # ... and executing a recorded trade books exactly that trade (quantity, commission, cash), on every call
    s1_s2(ck, an)
    s3(ck, an)
    s4(ck, an)
    s5(ck, an)
    s6(ck, an)
    s7(ck, an)


def s1_s2(ck, an):
    fa = an.fa("Broker.rebalance")
    subj = fa.f.short
    cps = fa.calls_to("TrackRecord._checkpoint")
    nodes = {fa.node_of(c).id for c in cps}
    pc = fa.cfg.path_count(lambda n: sum(1 for c in cps if fa.node_of(c).id == n.id), ends=[fa.cfg.exit.id])
    lo, hi = pc.get(fa.cfg.exit.id, (0, 0))
    ck.check((lo, hi) == (1, 1), "PATHCOUNT", "S1.one-checkpoint-per-rebalance", subj, fa.f.loc, "every normal path through rebalance takes exactly one checkpoint",
             f"a rebalance takes between {lo} and {hi} checkpoints", construct="self.track_record._checkpoint(rebalancing)")
    for c in cps:
        a = fa.sym.canon(c.args[0]) if c.args else "?"
        ck.check(a == fa.f.params[1], "ARGFLOW", "S1.checkpoint-gets-request", subj, fa.loc(c), "the request executed is the one recorded", f"_checkpoint({a})", construct=stmt_text(c))
        ck.check(fa.sym.canon(c.func.value) == "self.track_record", "ARGFLOW", "S1.checkpoint-own-record", subj, fa.loc(c), "the entry goes to the broker's own record",
                 f"checkpoint on {fa.sym.canon(c.func.value)}", construct=stmt_text(c))
    own_callers(ck, an, "S1.checkpoint-callers", "TrackRecord._checkpoint", {"Broker.rebalance"})
    own_callers(ck, an, "S1.rebalance-callers", "Broker.rebalance", {"TradingEnv.step"})
    fst = an.fa("TradingEnv.step")
    rbs = fst.calls_to("Broker.rebalance")
    pcs = fst.cfg.path_count(lambda n: sum(1 for c in rbs if fst.node_of(c).id == n.id), ends=[fst.cfg.exit.id])
    lo_s, hi_s = pcs.get(fst.cfg.exit.id, (0, 0))
    ck.check((lo_s, hi_s) == (1, 1), "PATHCOUNT", "S1.one-rebalance-per-step", fst.f.short, fst.f.loc, "every step that returns executes exactly one rebalance",
             f"a step executes between {lo_s} and {hi_s} rebalances", construct="self.broker.rebalance(rebalancing)")
    for attr in ("_time", "_rebalancing"):
        own_writers(ck, an, "S1.record-writers", "TrackRecord", attr, {"TrackRecord.__init__", "TrackRecord._checkpoint"}, min_sites=2)
    # track_record attribute of the broker is created once per broker
    own_writers(ck, an, "S1.record-created-once", "Broker", "track_record", {"Broker.__init__"}, kinds="W", min_sites=1)
    fc = an.fa("TrackRecord._checkpoint")
    tapp = [e.node for e in fc.effects() if e.attr == "_time" and e.kind == "M"]
    rset = [e.node for e in fc.effects() if e.attr == "_rebalancing" and e.kind == "W"]
    for name, sites in (("time-list", tapp), ("request-map", rset)):
        pc = fc.cfg.path_count(lambda n: sum(1 for s in sites if fc.node_of(s).id == n.id), ends=[fc.cfg.exit.id])
        lo, hi = pc.get(fc.cfg.exit.id, (0, 0))
        ck.check((lo, hi) == (1, 1), "PATHCOUNT", f"S1.checkpoint-extends-{name}", fc.f.short, fc.f.loc, f"the {name} is extended exactly once per checkpoint",
                 f"the {name} is extended between {lo} and {hi} times per checkpoint", construct=name)
    # same key for both, the request stored is the argument
    keys = set()
    for n in tapp:
        if isinstance(n, ast.Call) and n.args:
            keys.add(fc.sym.canon(n.args[0]))
    for n in rset:
        keys.add(fc.sym.canon(n.slice))
        st = enclosing_stmt(n)
        ck.check(isinstance(st, ast.Assign) and fc.sym.canon(st.value) == fc.f.params[1], "ARGFLOW", "S1.stores-the-request", fc.f.short, fc.loc(n), "the entry stored is the request itself",
                 f"stored value is {fc.sym.canon(st.value) if isinstance(st, ast.Assign) else '?'}", construct=stmt_text(n))
    ck.check(len(keys) == 1, "ARGFLOW", "S1.same-key", fc.f.short, fc.f.loc, "the time list and the map use the same timestamp", f"different keys: {sorted(keys)}", construct="time key")
    # the key is the request's time, converted to a plain datetime when it is a pandas Timestamp (value id; temporaries / helpers immaterial)
    rp = fc.f.params[1]
    want_key = fc.sym.canon(ast.parse(f"{rp}.time.to_pydatetime() if isinstance({rp}.time, pd.Timestamp) else {rp}.time", mode="eval").body, fc.cfg.entry.id)
    for k in sorted(keys):
        ck.check(k in (want_key, f"{rp}.time"), "ARGFLOW", "S3.key-is-request-time", fc.f.short, fc.f.loc, "the entry is keyed by the request's time (possibly converted to datetime)",
                 f"the entry is keyed by {k}; specified {want_key}", construct="time = rebalancing.time")
    # S2 duplicate guard
    tests = []
    for r in raises_in(fc):
        sg = fc.syntactic_guards(r)
        if len(sg) == 1 and sg[0][0] == "in" and sg[0][3] and sg[0][2] == "self._time":
            ck.check(any(sg[0][1] == k for k in keys), "GUARD", "S2.duplicate-test-key", fc.f.short, fc.loc(r), "the duplicate test uses the key that is stored", f"duplicate test on {sg[0][1]}, stored key {sorted(keys)}",
                     construct=stmt_text(r))
            tests.append(next(p for p in parents(r) if isinstance(p, ast.If)).test)
    if not tests:
        ck.fail("GUARD", "S2.duplicate-raises", fc.f.short, fc.f.loc, "no `if time in self._time: raise` in _checkpoint", construct="missing:duplicate timestamp guard")
    else:
        ord_before(ck, fc, "S2.duplicate-raises", tests, tapp + rset, "the duplicate-timestamp rejection", "the appends", rule="GUARD")
    # __getitem__ / __len__ read the containers consistently
    fg = an.fa("TrackRecord.__getitem__")
    rets = [fg.sym.canon(r.value) for r in returns_in(fg)]
    ip = fg.f.params[1]
    fvg = function_value(fg)
    forms = {specv(fg, f"self._rebalancing[{ip}] if isinstance({ip}, datetime) else self._rebalancing[self._time[{ip}]]").key(),
             specv(fg, f"self._rebalancing[{ip} if isinstance({ip}, datetime) else self._time[{ip}]]").key()}        # the selection may be made on the key or on the entry
    ck.check((fvg is not None and fvg.key() in forms) or ("self._rebalancing[self._time[item]]" in rets and "self._rebalancing[item]" in rets), "ARGFLOW", "S7.getitem", fg.f.short, fg.f.loc, "record[i] is the i-th entry in time order, record[t] the entry at t",
             f"__getitem__ returns {rets}", construct="__getitem__")


def s3(ck, an):
    fa = an.fa("TradingEnv.step")
    subj = fa.f.short
    mk = fa.calls_to("PortfolioSpace.make_rebalancing_request")
    lat = fa.calls_to("TradingEnv._process_latent_events")
    ord_before(ck, fa, "S3.latent-before-stamp", lat, mk, "_process_latent_events()", "the request (stamped with now())")
    for m in mk:
        t = m.args[1] if len(m.args) > 1 else next((k.value for k in m.keywords if k.arg == "time"), None)
        is_now = isinstance(t, ast.Call) and any(g.short == "TradingEnv.now" for g in an.res.resolve_call(t, fa.f)[0]) and not t.args
        ck.check(is_now, "ARGFLOW", "S3.stamped-with-now", subj, fa.loc(m),
                 "the request is stamped with self.now() evaluated at the call", f"request time is {fa.sym.canon(t) if t is not None else 'missing'}", construct=stmt_text(m))
        b = m.args[2] if len(m.args) > 2 else next((k.value for k in m.keywords if k.arg == "broker"), None)
        ck.check(b is not None and fa.sym.canon(b) == "self.broker", "ARGFLOW", "S3.request-for-own-broker", subj, fa.loc(m), "the request is built against the env's broker",
                 f"broker argument is {fa.sym.canon(b) if b is not None else 'missing'}", construct=stmt_text(m))
    fr = an.fa("Rebalancing.__init__")
    st = assigns_to_attr(fr, "time")
    v = [fr.sym.canon(s.value) for s in st if isinstance(s, ast.Assign)]
    ck.check(len(v) == 1 and (v[0] == "time" or v[0].startswith("[time]") or "time" in v[0].split(",")[0]) and len(st) == 1, "ARGFLOW", "S3.request-keeps-time", fr.f.short, fr.f.loc,
             "Rebalancing.time is the time it was given", f"Rebalancing.time = {v}", construct="self.time = time or datetime.now()")
    # now() returns the clock set by notify
    fn = an.fa("TradingEnv.now")
    fv_ = function_value(fn)            # returns folded into one conditional value: `if not rt: return a` / `return b` is `b if rt else a`
    rets = [fv_.key()] if fv_ is not None else [fn.sym.canon(r.value) for r in returns_in(fn)]
    ck.check(rets == [specv(fn, "self._transmitter._now() if self._real_time else self._now").key()], "ARGFLOW", "S3.now-is-the-clock", fn.f.short, fn.f.loc, "now() is the event clock (simulated mode)",
             f"now() returns {rets}", construct="return self._now")


def s4(ck, an):
    fa = an.fa("Broker.rebalance")
    subj = fa.f.short
    reb = fa.f.params[1]
    ac = fa.calls_to("Broker.accrued_interest")
    cx = sorted(fa.calls_to("Broker.context"), key=lambda n: (n.lineno, n.col_offset))
    mk = fa.calls_to("Rebalancing.make_trades")
    tr = fa.calls_to("Broker.transact")
    cp = fa.calls_to("TrackRecord._checkpoint")
    ck.check(len(cx) == 2, "PATHCOUNT", "S4.two-snapshots", subj, fa.f.loc, "rebalance takes a pre- and a post-trade snapshot", f"rebalance takes {len(cx)} snapshots", construct="self.context()")
    if len(cx) >= 2 and tr:
        pre, post = cx[0], cx[-1]
        ord_before(ck, fa, "S4.pre-snapshot-before-trades", [pre], mk + tr, "context_pre", "sizing / execution")
        ok = all(not fa.reachable_from(post, t) for t in tr) and all(fa.reachable_from(t, post) for t in tr)
        ck.check(ok, "ORD", "S4.post-snapshot-after-trades", subj, fa.loc(post), "context_post is taken after the last transact", "context_post can precede a transact", construct=stmt_text(post))
        ord_before(ck, fa, "S4.post-snapshot-before-checkpoint", [post], cp, "context_post", "the checkpoint")
        for site, attr in ((pre, "context_pre"), (post, "context_post")):
            st = enclosing_stmt(site)
            ck.check(isinstance(st, ast.Assign) and ast.unparse(st.targets[0]) == f"{reb}.{attr}" and st.value is site, "ARGFLOW", f"S4.stored-{attr}", subj, fa.loc(site),
                     f"the snapshot is stored as {reb}.{attr}", f"snapshot goes to `{ast.unparse(st)[:60]}`", construct=stmt_text(site))
    ck.check(len(mk) == 1, "PATHCOUNT", "S4.trades-computed-once", subj, fa.f.loc, "rebalance computes the trades exactly once", f"rebalance calls make_trades {len(mk)} times", construct="rebalancing.make_trades(self)")
    for m in mk:
        st = enclosing_stmt(m)
        ck.check(isinstance(st, ast.Assign) and ast.unparse(st.targets[0]) == f"{reb}.trades" or _stored_later(fa, m, f"{reb}.trades"), "ARGFLOW", "S4.stored-trades", subj, fa.loc(m),
                 "the trades executed are recorded on the request", "the list of trades is not stored on the request", construct=stmt_text(m))
    if ac and cx:
        ord_before(ck, fa, "S4.accrue-before-pre-snapshot", ac, cx[:1], "the interest accrual", "context_pre")


def _stored_later(fa, call, target):
    for s in all_stmts(fa):
        if isinstance(s, ast.Assign) and ast.unparse(s.targets[0]) == target and fa.sym.canon(s.value) == fa.sym.canon(call):
            return True
    return False


def s5(ck, an):
    fa = an.fa("Broker.context")
    rets = returns_in(fa)
    c = deref(fa, rets[0].value)[0] if len(rets) == 1 else None
    if c is None or not isinstance(c, ast.Call):
        ck.fail("ALIAS", "S5.context-fields", fa.f.short, fa.f.loc, "context() does not return a Context(...)", construct="return Context(...)")
        return
    ctor = an.prog.func("Context.__init__")
    got = {}
    for i, a in enumerate(c.args):
        got[ctor.params[1 + i]] = ast.unparse(a)
    for k in c.keywords:
        got[k.arg] = ast.unparse(k.value)
    want = {"nlv": {"Broker.net_liquidation_value"}, "weights": {"Broker.holdings_weights"}, "values": {"Broker.holdings_values"},
            "nr_contracts": {"Broker.holdings_quantity"}, "margins": {"Broker.holdings_margins"}}
    nodes = {}
    for i, a in enumerate(c.args):
        nodes[ctor.params[1 + i]] = deref(fa, a)[0]          # through temporaries
    for k in c.keywords:
        nodes[k.arg] = deref(fa, k.value)[0]
    for k, w in want.items():
        e = nodes.get(k)
        tg = []
        if isinstance(e, ast.Call):
            tg = [g.short for g in an.res.resolve_call(e, fa.f)[0]]
            if isinstance(e.func, ast.Name) and e.func.id == "dict" and e.args and ast.unparse(e.args[0]) in ("self._holdings_quantity", "self._holdings_margins"):
                tg = ["Broker.holdings_quantity" if "quantity" in ast.unparse(e.args[0]) else "Broker.holdings_margins"]
        elif isinstance(e, ast.Attribute):
            tg = [g.short for g in an.res.property_targets(e, fa.f)]
        on_self = e is not None and any(isinstance(n, ast.Name) and n.id == "self" for n in ast.walk(e))
        ck.check(bool(set(tg) & w) and on_self, "ALIAS", f"S5.context-{k}", fa.f.short, fa.loc(c), f"Context.{k} comes from the copying accessor {sorted(w)[0]}", f"Context.{k} = {got.get(k)}",
                 construct=f"{k}={got.get(k)}")
        if k == "values" and isinstance(e, ast.Call):
            kinds = [ast.unparse(x) for x in e.args] + [ast.unparse(x.value) for x in e.keywords if x.arg == "kind"]
            ck.check(not kinds or kinds == ["'notional'"], "ARGFLOW", "S5.context-values-notional", fa.f.short, fa.loc(c), "recorded values are notional values", f"recorded values are of kind {kinds}", construct=f"values={got.get(k)}")
        if k == "nlv" and isinstance(e, ast.Call):
            bad = [x for x in list(e.args) + [y.value for y in e.keywords] if isinstance(x, ast.Constant) and x.value is False]
            ck.check(not bad, "ARGFLOW", "S5.context-nlv-raises", fa.f.short, fa.loc(c), "the recorded NLV is the raising valuation", "the snapshot values the account with raise_if_broke=False", construct=f"nlv={got.get(k)}")
    # the snapshot values the account (which marks to market and sweeps margin) BEFORE it copies values / holdings / margins
    order = [(n.lineno, n.col_offset, k) for k, n in nodes.items()]
    order.sort()
    first = order[0][2] if order else None
    ck.check(first in ("nlv", "weights"), "ORD", "S5.context-values-after-marking", fa.f.short, fa.loc(c), "the first snapshot field evaluated is a valuation (marks to market), so the copied ledgers are post-mark",
             f"the first snapshot field evaluated is `{first}`: values / holdings / margins are copied before the account is marked to market", construct="Context(...) argument order")
    summ = attribute_summary(an, ctor)
    for k in want:
        v = summ.get(k)
        ck.check(v is not None and v.key() == k, "ARGFLOW", f"S5.context-stores-{k}", ctor.short, ctor.loc, f"Context.{k} is the constructor argument", f"Context.{k} = {v.key() if v is not None else 'unset'}",
                 construct=f"self.{k} = {k}")
    for prop, attr in (("holdings_quantity", "_holdings_quantity"), ("holdings_margins", "_holdings_margins")):
        fp = an.fa(f"Broker.{prop}")
        r = ret_canons(fp)
        ck.check(len(r) == 1 and r[0] in [specv(fp, t).key() for t in (f"dict(self.{attr})", f"self.{attr}.copy()", f"copy.deepcopy(self.{attr})")], "ALIAS", f"S5.{prop}-returns-copy", fp.f.short, fp.f.loc, f"{prop} returns a copy of the ledger",
                 f"{prop} returns {r}", construct=f"return dict(self.{attr})")


LAST = "env.broker.track_record[-1].context_pre.nlv"
NOW = "env.broker.net_liquidation_value()"


def s6(ck, an):
    base = an.prog.cls("AbstractReward")
    def calc_of(c):
        # the calculate() a reward class actually runs (own or inherited): each class is held to ITS OWN stated formula
        for b in an.prog.mro(c):
            if "calculate" in b.methods and not b.methods["calculate"].is_abstract:
                return b.methods["calculate"]
        return None
    subs = [c for c in an.prog.subclasses(base) if calc_of(c) is not None and not c.module.name.startswith("_fixture")]
    ck.floor("reward classes with calculate()", len(subs), 4)
    spec = {"RewardPnL": f"{NOW} - {LAST}", "RewardSimpleReturn": f"{NOW} / {LAST} - 1", "RewardLogReturn": f"np.log({NOW} / {LAST})"}
    for c in subs:
        f = calc_of(c)
        fa = an.fa(f)
        subj = f.short if f.cls is c else f"{c.name}.calculate (inherited from {f.cls.name})"
        envp = f.params[1]

        # the returned value, by value id (temporaries, `x /= s`, statement-form conditionals all normalise away)
        rc_ = [r for r in returns_in(fa) if r.value is not None]
        ret = fa.sym.ev(rc_[0].value, fa.node_of(rc_[0]).id) if len(rc_) == 1 else function_value(fa)      # several returns: folded into one conditional value
        if ret is None:
            ck.fail("SIB", "S6.reward-formula", subj, f.loc, f"{c.name}.calculate does not return a value on every path", construct="return")
            continue
        txt = ret.key().replace(envp + ".", "env.")
        flat = txt
        ck.check(LAST in flat and NOW in flat, "SIB", "S6.reward-reads-recorded-pre-nlv-and-current-nlv", subj, f.loc,
                 "the reward is a function of the last entry's pre-trade NLV and the current NLV", f"{c.name} reward reads {flat[:200]}", construct="calculate inputs")
        ck.check("context_post" not in flat and "_initial_deposit" not in flat, "SIB", "S6.reward-not-post-trade", subj, f.loc, "the reward does not use the post-trade snapshot",
                 f"{c.name} reward reads {flat[:200]}", construct="calculate inputs")
        now_, last_ = NOW.replace("env.", envp + "."), LAST.replace("env.", envp + ".")
        if c.name in spec:
            exp = specv(fa, spec[c.name].replace("env.", envp + "."))
            ck.check(ret == exp, "LIN", "S6.reward-formula", subj, f.loc, f"{c.name} = {spec[c.name].replace(NOW, 'NLV_now').replace(LAST, 'NLV_pre')}",
                     f"{c.name} returns {txt[:300]}; expected {exp.key()[:300]}", construct=f"{c.name}.calculate")
        elif c.name == "LogReturn":
            R = f"np.clip(np.log({now_} / {last_}) / self.scale, -self.clip, +self.clip)"
            exp = specv(fa, f"{R} * (1 + self.risk_aversion) if {R} < 0 else {R}")
            ck.check(ret == exp, "LIN", "S6.reward-formula", subj, f.loc, "LogReturn = r x (1 + risk_aversion) if r < 0 else r, with r = clip(log(NLV_now / NLV_pre) / scale, -clip, +clip)",
                     f"LogReturn returns {txt[:400]}; expected {exp.key()[:400]}", construct="LogReturn.calculate")
            summ = attribute_summary(an, c.methods["__init__"]) if "__init__" in c.methods else {}
            for a in ("scale", "clip", "risk_aversion"):
                v = summ.get(a)
                ck.check(v is not None and v.key() == a, "ARGFLOW", f"S6.logreturn-{a}", f"{c.name}.__init__", c.loc, f"LogReturn.{a} is the constructor argument", f"LogReturn.{a} = {v.key() if v is not None else 'unset'}",
                         construct=f"self.{a} = {a}")
        else:
            ck.note(f"reward class {c.name} has no stated formula; only its inputs are checked")
    own_callers(ck, an, "S6.reward-called-from-step", "AbstractReward.calculate", {"TradingEnv.step"})
    fs = an.fa("TradingEnv.step")
    rc = fs.calls_to("AbstractReward.calculate")
    nl = fs.calls_to("TradingEnv._process_nonlatent_events")
    ord_before(ck, fs, "S6.reward-after-market-events", nl, rc, "_process_nonlatent_events()", "the reward")
    rb = fs.calls_to("Broker.rebalance")
    ord_before(ck, fs, "S6.reward-after-rebalance", rb, rc, "Broker.rebalance", "the reward")
    for c in rc:
        ck.check(fs.sym.canon(c.args[0]) == "self" if c.args else False, "ARGFLOW", "S6.reward-gets-env", fs.f.short, fs.loc(c), "the reward is computed on this environment", "calculate() is not given self", construct=stmt_text(c))
        st = enclosing_stmt(c)
        rets = returns_in(fs)
        rts = [deref(fs, r.value) for r in rets]
        ok = isinstance(st, ast.Assign) and isinstance(st.targets[0], ast.Name) and all(isinstance(rv, ast.Tuple) and len(rv.elts) == 4 and fs.sym.canon(rv.elts[1], rat) == fs.sym.canon(c) for rv, rat in rts)
        ck.check(ok, "ARGFLOW", "S6.reward-returned", fs.f.short, fs.loc(c), "step returns the reward it computed", "the value returned as reward is not the computed reward", construct=stmt_text(c))


def _entries_loop(fa):
    """`for time, entry in self._rebalancing.items()` found by what it ranges over; (loop, time name, entry name)."""
    for n in walk_function(fa.f.node):
        if isinstance(n, ast.For) and fa.sym.canon(n.iter) == "self._rebalancing.items()" and isinstance(n.target, ast.Tuple) and len(n.target.elts) == 2 and all(isinstance(e, ast.Name) for e in n.target.elts):
            return n, n.target.elts[0].id, n.target.elts[1].id
    return None, None, None


def _keyed_stores(fa, loop):
    """`container[<the entry's time>] = value` statements of the loop: (stmt, container name, value id of the value)."""
    T = loop_item(fa, loop, 0)
    out = []
    for s in ast.walk(loop):
        if isinstance(s, ast.Assign) and len(s.targets) == 1 and isinstance(s.targets[0], ast.Subscript) and isinstance(s.targets[0].value, ast.Name) and fa.sym.canon(s.targets[0].slice) == T.key():
            out.append((s, s.targets[0].value.id, fa.sym.canon(s.value)))
    return out


def s7(ck, an):
    # net_liquidation_value / weights_actual: context selected by the flag; value ids, so spelling / statement form do not matter
    for short, field in (("TrackRecord.net_liquidation_value", "nlv"), ("TrackRecord.weights_actual", "weights")):
        fa = an.fa(short)
        flag = "before_rebalancing"
        loop, tname, rname = _entries_loop(fa)
        stores = _keyed_stores(fa, loop) if loop is not None else []
        ok_sel = ok_field = False
        if len(stores) == 1:
            st_, _, got = stores[0]
            at = fa.node_of(st_).id
            want = specv(fa, f"({rname}.context_pre if {flag} else {rname}.context_post).{field}", at).key()
            swapped = specv(fa, f"({rname}.context_post if {flag} else {rname}.context_pre).{field}", at).key()
            ok_sel = got == want
            ok_field = got in (want, swapped) or got.endswith(f".{field}")
        elif loop is None:
            # comprehension form: {time: (entry.context_pre if flag else entry.context_post).field for time, entry in self._rebalancing.items()}
            comps = [fa.sym.canon(x) for x in walk_function(fa.f.node) if isinstance(x, ast.DictComp)]
            wc = specv(fa, "{t: (r.context_pre if %s else r.context_post).%s for t, r in self._rebalancing.items()}" % (flag, field)).key()
            sc = specv(fa, "{t: (r.context_post if %s else r.context_pre).%s for t, r in self._rebalancing.items()}" % (flag, field)).key()
            ok_sel = wc in comps
            ok_field = ok_sel or sc in comps
            stores = [(None, None, c_) for c_ in comps]
        ck.check(ok_sel, "GUARD", f"S7.{field}-pre-post-selection", fa.f.short, fa.f.loc, "before_rebalancing selects context_pre, otherwise context_post",
                 f"the value reported per entry is {[g for _, _, g in stores]}: the pre/post snapshot selection is swapped or missing", construct="if before_rebalancing: context = rebalancing.context_pre else: context_post")
        ck.check(ok_field, "DEP", f"S7.{field}-field", fa.f.short, fa.f.loc, f"the series reports context.{field} keyed by the entry's time", f"the series does not report context.{field} per time",
                 construct=f"data[time] = context.{field}")
        d = fa.f.param_default(flag)
        ck.check(isinstance(d, ast.Constant) and d.value is True, "CONST", f"S7.{field}-default-pre", fa.f.short, fa.f.loc, "by default the pre-trade values are reported", f"default of {flag} is {ast.unparse(d) if d else None}",
                 construct=f"{flag}=True")
    fa = an.fa("TrackRecord.weights_target")
    loop, tname, rname = _entries_loop(fa)
    stores = _keyed_stores(fa, loop) if loop is not None else []
    ok = len(stores) == 1 and stores[0][2] == specv(fa, f"{rname}.allocation", fa.node_of(stores[0][0]).id).key()
    if loop is None:
        # comprehension form (a plain accumulation loop is normalised to it): {time: entry.allocation for time, entry in self._rebalancing.items()}
        want_c = specv(fa, "{t: r.allocation for t, r in self._rebalancing.items()}").key()
        comps = [fa.sym.canon(x) for x in walk_function(fa.f.node) if isinstance(x, ast.DictComp)]
        ok = want_c in comps
        stores = [(None, None, c_) for c_ in comps]
    ck.check(ok, "DEP", "S7.target-weights-field", fa.f.short, fa.f.loc, "target weights report rebalancing.allocation", f"weights_target reports {[g for _, _, g in stores]}", construct="data[time] = rebalancing.allocation")
    fa = an.fa("TrackRecord.transaction_costs")
    loop, tname, rname = _entries_loop(fa)
    stores = _keyed_stores(fa, loop) if loop is not None else []
    # which column each container becomes: pd.Series(<container>).to_frame(<label>)
    label_of = {}
    for c in walk_function(fa.f.node):
        if isinstance(c, ast.Call) and isinstance(c.func, ast.Attribute) and c.func.attr == "to_frame" and c.args and isinstance(c.args[0], ast.Constant) and isinstance(c.func.value, ast.Call) \
                and c.func.value.args and isinstance(c.func.value.args[0], ast.Name):
            label_of[c.func.value.args[0].id] = c.args[0].value
    got_by_label = {label_of.get(cn, cn): g for _, cn, g in stores}
    want = {"profit_on_idle_cash": ("Profit on idle Cash", "{r}.profit_on_idle_cash"), "cost_of_spread": ("Spread", "sum(t.cost_of_spread for t in {r}.trades)"),
            "cost_of_commissions": ("Broker fees", "sum(t.cost_of_commissions for t in {r}.trades)")}
    for name, (label, form) in want.items():
        w = specv(fa, form.format(r=rname), fa.node_of(loop.body[0]).id).key() if loop is not None else "?"
        ck.check(got_by_label.get(label) == w, "DEP", f"S7.costs-{name}", fa.f.short, fa.f.loc, f"column '{label}' reports {form.format(r='entry')} per entry", f"column '{label}' reports {got_by_label.get(label)}; expected {w}",
                 construct=f"{name}[time] = ...")
    # optional post-processing happens only when asked for
    for short in ("TrackRecord.net_liquidation_value", "TrackRecord.weights_actual", "TrackRecord.weights_target", "TrackRecord.transaction_costs"):
        fa = an.fa(short)
        for s_ in all_stmts(fa):
            if isinstance(s_, ast.Assign) and "_nr_steps_to_burn" in ast.unparse(s_.value):
                sg = fa.syntactic_guards(s_)
                ck.check(any(p[0] == "truthy" and p[1] == "burn" and p[2] for p in sg), "GUARD", "S7.burn-only-when-asked", fa.f.short, fa.loc(s_), "initial entries are dropped only when burn=True", "entries are dropped when burn is False",
                         construct=stmt_text(s_))
            if isinstance(s_, ast.Assign) and "groupby(groups" in ast.unparse(s_.value):
                sg = fa.syntactic_guards(s_)
                ck.check(any(p[0] == "truthy" and p[1] == "aggregate_future_chain" and p[2] for p in sg), "GUARD", "S7.aggregate-only-when-asked", fa.f.short, fa.loc(s_), "chain contracts are aggregated only when asked", "columns are aggregated by default",
                         construct=stmt_text(s_))
        d = fa.f.param_default("burn")
        ck.check(const_value(d) is False, "CONST", "S7.burn-default-off", fa.f.short, fa.f.loc, "burn defaults to False (every entry is reported)", f"burn default is {ast.unparse(d) if d else None}", construct="burn=False")
    # iteration over all entries
    for short in ("TrackRecord.net_liquidation_value", "TrackRecord.weights_actual", "TrackRecord.weights_target", "TrackRecord.transaction_costs"):
        fa = an.fa(short)
        loops = [n for n in walk_function(fa.f.node) if isinstance(n, ast.For)]
        ok = any(fa.sym.canon(l.iter) == "self._rebalancing.items()" and not any(isinstance(x, (ast.Continue, ast.Break)) for x in ast.walk(l)) for l in loops) or \
            any(len(x.generators) == 1 and fa.sym.canon(x.generators[0].iter) == "self._rebalancing.items()" and not x.generators[0].ifs for x in walk_function(fa.f.node) if isinstance(x, (ast.DictComp, ast.ListComp)))
        ck.check(ok, "DEP", "S7.all-entries", fa.f.short, fa.f.loc, "the report ranges over every recorded entry", "the report does not range over all of self._rebalancing.items()", construct="for time, rebalancing in self._rebalancing.items()")
