"""Ledger equations of the broker (shared by C01, C05, C06).

Each function symbolically pushes the four ledgers through one anchor function
(value-id / polynomial domain, sa/forward.py) and compares the resulting
polynomials with the relation the property states. Equivalent algebraic
rewrites normalise to the same polynomial; any changed factor, sign or operand
does not."""
import ast
from sa.lib import *
from sa.forward import Forward, attribute_summary
from sa.dataflow import cmp_negate, cmp_strip_nan, Poly, cmp_key, cmp_atoms
from sa.resolve import walk_function

LEDGERS = ("_holdings_quantity", "_holdings_margins", "_last_marking_to_market_price", "_last_accrual")


def P(fw, text: str) -> Poly:
    return fw.ev(ast.parse(text, mode="eval").body)


def _slot(st, suffix_contains: str, key_contains: str):
    for k, v in st.slots.items():
        head, _, rest = k.partition("[")
        if suffix_contains in head and key_contains in ("[" + rest) and not k.startswith("<"):
            return k, v
    return None, None


def _abs_atom(p: Poly) -> Poly:
    q, _ = p.sign_normalised()
    return Poly.atom(f"abs({q.key()})")


def is_epsilon_snap(s: ast.If, fw) -> bool:
    """`if abs(Q[c]) < self._epsilon: Q[c] = 0.` (documented float clean-up)."""
    c = fw.cmp(s.test)
    if c[0] != "rel" or c[1] != "<":
        return False
    p = c[4]
    # exactly  abs(position) - self._epsilon < 0 : any other tolerance is not the reviewed, negligible one
    if not (len(p.t) == 2 and p.coeff_of_atom("self._epsilon") == Poly.const(-1) and poly_mentions(p, "abs(", "_holdings_quantity", sign=+1)):
        return False
    if len(s.body) != 1 or s.orelse or not isinstance(s.body[0], ast.Assign):
        return False
    a = s.body[0]
    return "_holdings_quantity" in ast.unparse(a.targets[0]) and const_value(a.value) in (0, 0.0)


# ---------------------------------------------------------------------------
# transact
# ---------------------------------------------------------------------------

def transact_equations(ck, an, want: set):
    fa = an.fa("Broker.transact")
    subj = fa.f.short
    tr = fa.f.params[1]
    mtm = fa.calls_to("Broker.marking_to_market")
    ck.floor("marking_to_market calls in Broker.transact", len(mtm), 0)
    snaps = {}
    exempt = []

    def on_stmt(s, fw):
        if isinstance(s, ast.Expr) and isinstance(s.value, ast.Call) and any(s.value is m for m in mtm):
            snaps[id(s.value)] = fw.st.copy()

    def skip_if(s, fw):
        if is_epsilon_snap(s, fw):
            exempt.append(s)
            return True
        return False
    fw = Forward(an, fa, on_stmt=on_stmt, skip_if=skip_if).run()
    writes = sorted([e.node for e in fa.effects() if e.kind in "WMD" and e.attr in ("_holdings_quantity", "_holdings_margins") and not any(e.node is x for s in exempt for x in ast.walk(s))],
                    key=lambda n: (n.lineno, n.col_offset))
    last_store = [e.node for e in fa.effects() if e.kind == "W" and e.attr == "_last_marking_to_market_price"]
    if "order" in want:
        if len(mtm) < 2:
            ck.fail("ORD", "S4.mark-pay-move-remark", subj, fa.f.loc, f"transact calls marking_to_market {len(mtm)} time(s); it must mark before paying and re-mark after resetting the reference",
                    construct="missing:marking_to_market")
        else:
            first, last = mtm[0], mtm[-1]
            ord_before(ck, fa, "S4.mark-before-writes", [first], writes, "the pre-trade marking_to_market", "ledger writes")
            ok = all(fa.all_paths_from_pass(w, [last]) for w in writes + last_store)
            ck.check(ok, "ORD", "S4.remark-after-writes", subj, fa.loc(last), "every ledger write is followed by the final re-mark",
                     "a ledger write is not followed by the final marking_to_market", construct=stmt_text(last))
            ord_before(ck, fa, "S4.writes-before-reference-reset", writes, last_store, "the position/margin writes", "the reference-price store")
            for m in mtm:
                a = fa.sym.canon(m.args[0]) if m.args else "<all>"
                ck.check(a == f"{tr}.contract", "ARGFLOW", "S4.marks-traded-contract", subj, fa.loc(m), "marking_to_market is applied to the traded contract",
                         f"marking_to_market({a}) in transact", construct=stmt_text(m))
        for s in exempt:
            ck.exempt("LIN:S2.ledger-equations", "if " + ast.unparse(s.test) + ": " + ast.unparse(s.body[0]), "documented float clean-up, bounded by epsilon contracts (GUARD abs(q) < _epsilon verified)")
    if "equations" in want:
        # the equations below describe the path that reaches the final re-mark: every call must take it
        early = [n for n in walk_function(fa.f.node) if isinstance(n, (ast.Return, ast.Raise)) and not any(isinstance(p_, ast.ExceptHandler) for p_ in parents(n))]
        for n in early:
            ck.fail("PATHCOUNT", "S2.every-trade-is-booked", subj, fa.loc(n), f"transact can leave before booking the trade (`{stmt_text(n)[:60]}` under {[cmp_key(p_) for p_ in fa.syntactic_guards(n)]}): "
                    "a trade already recorded by rebalance (with its commission) would not reach the ledgers", construct=stmt_text(enclosing_if(n) or n))
        if not early:
            ck.ok("PATHCOUNT", "S2.every-trade-is-booked", subj, fa.f.loc, "every call of transact reaches the ledger writes (no early return / raise)", construct="transact body")
    if len(mtm) < 2 or id(mtm[-1]) not in snaps:
        if "equations" in want and len(mtm) >= 2:
            ck.fail("LIN", "S2.ledger-equations", subj, fa.f.loc, "the final re-mark is not a plain statement; ledger state cannot be read off", construct="marking_to_market")
        return
    st = snaps[id(mtm[-1])]
    fw.st = st
    kq, Q = _slot(st, "_holdings_quantity", f"[{tr}.contract]")
    kc, C = _slot(st, "_holdings_quantity", "[self.base_currency]")
    km, M = _slot(st, "_holdings_margins", f"[{tr}.contract]")
    kl, L = _slot(st, "_last_marking_to_market_price", f"[{tr}.contract]")
    missing = [n for n, v in (("position", Q), ("cash", C), ("margin", M), ("reference price", L)) if v is None]
    if missing:
        ck.fail("LIN", "S2.ledger-equations", subj, fa.f.loc, f"transact does not write: {missing}", construct="missing:" + ",".join(missing))
        return
    # the pre-trade symbol of a slot is the slot key itself (first read after the pre-trade mark)
    Q0, C0, M0, L0 = Poly.atom(kq), Poly.atom(kc), Poly.atom(km), Poly.atom(kl)
    q = P(fw, f"{tr}.quantity")
    acq = P(fw, f"{tr}.acq_price")
    mult = P(fw, f"{tr}.contract.multiplier")
    mreq = P(fw, f"{tr}.contract.margin_requirement")
    comm = P(fw, f"{tr}.cost_of_commissions")
    coc = P(fw, f"{tr}.cost_of_cash")
    if "equations" in want:
        ck.check(Q - Q0 == q, "LIN", "S2.position-moves-by-quantity", subj, fa.f.loc, "position changes by exactly +trade.quantity",
                 f"position after the trade = {Q.key()}", construct="position ledger", witness=[f"dQ = {(Q - Q0).key()}"])
        zero_sum = (C - C0) + (M - M0) + comm + coc
        ck.check(zero_sum == Poly(), "LIN", "S2.cash-margin-zero-sum", subj, fa.f.loc,
                 "cash + margin change by exactly -commission - cost_of_cash (margin<->cash transfers cancel)",
                 f"cash + margin changes by an extra {zero_sum.key()}", construct="cash/margin ledgers",
                 witness=[f"dCash = {(C - C0).key()}", f"dMargin = {(M - M0).key()}"])
    if "margin" in want:
        expected_M = acq * _abs_atom(Q) * mult * mreq
        ck.check(M == expected_M, "LIN", "S1.margin-after-trade", subj, fa.f.loc,
                 "margin posted after a trade = execution price x |post-trade position| x multiplier x margin requirement",
                 f"margin after the trade = {M.key()}, expected {expected_M.key()}", construct="margin ledger")
    if "reference" in want:
        lhs = Q * L - Q0 * L0 - q * acq
        for n in last_store:
            ck.check(lhs == Poly(), "LIN", "S5.reference-conservation", subj, fa.loc(n),
                     "new position x new reference price = old position x old reference + traded quantity x execution price (only the traded lots pay the spread)",
                     f"the reference price of the whole position is reset to {L.key()}: position x reference is off by {lhs.key()} "
                     "(adding to a margined position re-charges the spread on the lots already held)", construct=_canon_store(fa, n),
                     witness=[f"Q' x ref' - Q x ref - q x acq = {lhs.key()}"])


def _canon_store(fa, n) -> str:
    """`target[key] = value` of the statement around node n, spelt with value ids (temporaries expanded): the key of a finding must not depend on local names"""
    st = enclosing_stmt(n)
    if isinstance(st, ast.Assign) and len(st.targets) == 1 and isinstance(st.targets[0], ast.Subscript):
        t = st.targets[0]
        return f"{fa.sym.canon(t.value)}[{fa.sym.canon(t.slice)}] = {fa.sym.canon(st.value)}"
    return stmt_text(n)


# ---------------------------------------------------------------------------
# marking_to_market
# ---------------------------------------------------------------------------

def marking_equations(ck, an, want: set):
    fa = an.fa("Broker.marking_to_market")
    subj = fa.f.short
    loops = [n for n in walk_function(fa.f.node) if isinstance(n, ast.For)]
    if not loops:
        ck.fail("LIN", "S2.marking-equations", subj, fa.f.loc, "marking_to_market has no loop over contracts", construct="missing:for contract in contracts")
        return
    loop = loops[0]
    cvar = loop.target.id if isinstance(loop.target, ast.Name) else "?"
    margin_writes = [e.node for e in fa.effects() if e.kind in "WMD" and e.attr == "_holdings_margins"]
    cash_writes = [e.node for e in fa.effects() if e.kind in "WMD" and e.attr == "_holdings_quantity"]
    neg_raises = []
    for r in raises_in(fa):
        sg = fa.syntactic_guards(r)
        if any(p[0] == "rel" and p[1] == "<" and len(p[4].t) == 1 and "_holdings_margins" in p[2] and p[4].const_value() is None for p in sg):
            neg_raises.append(r)
    snap = {}

    def on_stmt(s, fw):
        if isinstance(s, ast.If) and any(r in ast.walk(s) for r in neg_raises):
            snap["end"] = fw.st.copy()
            snap["test"] = s
    fw = Forward(an, fa, on_stmt=on_stmt).run()
    if "guards" in want:
        rets_ = [r_ for r_, _g, fine_ in shortcut_returns(fa, loop) if not fine_]       # `if not margins: return` in front of `contracts = list(margins)` is the empty loop
        head_ = fa.cfg.node_of(loop.iter)
        ck.check(not rets_ and head_ is not None, "PATHCOUNT", "S4.marks-on-every-call", subj, fa.loc(rets_[0]) if rets_ else fa.f.loc,
                 "every call of marking_to_market reaches the per-contract loop (nothing is skipped wholesale)", "marking_to_market can return before marking (a stale-quote shortcut / cache)",
                 construct=stmt_text(rets_[0]) if rets_ else "marking loop")
        src_ = fa.sym.canon(loop.iter)
        ck.check("list(self._holdings_margins)" in src_ and "[contract]" in src_.replace(fa.f.params[1], "contract") or ("phi(" in src_), "ARGFLOW", "S4.marks-all-or-the-given-contract", subj, fa.loc(loop),
                 "the loop covers every margined contract, or the one it was given", f"the marking loop ranges over {src_[:80]}", construct=stmt_text(loop))
        # margin-free contracts are skipped before any write; every other skip is the NaN-quote skip or the no-reference-yet skip
        skip_tests = []
        mreq_item = fa.sym.ev(ast.parse(f"{cvar}.margin_requirement", mode="eval").body, fa.node_of(loop.body[0]).id)     # the loop contract's margin requirement, by value id
        item_k = loop_item(fa, loop).key()

        def classify(p):
            """which reviewed reason a skip condition (CMP form, as it stands on the skipping path) is"""
            p = cmp_strip_nan(p)
            if (p[0] == "rel" and p[1] == "==" and p[4] in (mreq_item, -mreq_item)) or (p[0] == "truthy" and not p[2] and p[1] == mreq_item.key()):
                return "no-margin"
            if p[0] == "truthy" and p[2] and "isnan(" in p[1] and ("liq_price(" in p[1] or "acq_price(-" in p[1]):
                return "nan-quote"
            if p[0] == "in" and not p[3] and p[2] == "self._last_marking_to_market_price" and p[1] == item_k:
                return "no-reference"
            return None
        kinds = {"no-margin": 0, "nan-quote": 0, "no-reference": 0}
        # every way an iteration is cut short: under one of the three reviewed reasons (alone, or several joined by `or`), or in the
        # KeyError handler of the reference-price lookup; guard clauses and nested forms alike
        for n in ast.walk(loop):
            if isinstance(n, (ast.Continue, ast.Break, ast.Return)):
                sg = fa.syntactic_guards(n)
                in_keyerror = any(isinstance(x, ast.ExceptHandler) and x.type is not None and "KeyError" in ast.unparse(x.type) for x in parents(n))
                reasons = []
                for p_ in sg:
                    members = p_[1] if p_[0] == "or" else [p_]
                    reasons.append([classify(m_) for m_ in members])
                flat = [r_ for rs in reasons for r_ in rs]
                if isinstance(n, ast.Continue) and len(sg) == 1 and flat and all(r_ is not None for r_ in flat):
                    for r_ in flat:
                        kinds[r_] += 1
                    if "no-margin" in flat:
                        skip_tests.append(next(x for x in parents(n) if isinstance(x, ast.If)).test)
                elif isinstance(n, ast.Continue) and not sg and in_keyerror:
                    kinds["no-reference"] += 1
                else:
                    ck.fail("GUARD", "S4.no-other-skip-in-marking", subj, fa.loc(n), f"marking_to_market skips contracts under {[cmp_key(p) for p in sg] or 'an unexpected path'}: positions would keep a stale margin / NLV",
                            construct=stmt_text(next((x for x in parents(n) if isinstance(x, ast.If)), n)))
        # nested (positive) forms: the writes themselves sit under the negated reasons
        for w_ in (margin_writes + cash_writes)[:1]:
            for p_ in fa.path_guards(w_):
                r_ = classify(cmp_strip_nan(cmp_negate(p_)))
                if r_ is not None and kinds[r_] == 0:
                    kinds[r_] += 1
                    if r_ == "no-margin":
                        skip_tests.append(next((x.test for x in parents(w_) if isinstance(x, ast.If)), None) or loop.iter)
        ck.check(kinds["nan-quote"] == 1, "GUARD", "S4.nan-quote-skipped", subj, fa.loc(loop), "a contract without a liquidation quote (NaN) is skipped, not marked with NaN",
                 f"{kinds['nan-quote']} NaN-quote skips in marking_to_market (expected exactly one `if isnan(liq_price): continue`)", construct="if np.isnan(liq_price): continue")
        ck.check(kinds["no-reference"] == 1, "GUARD", "S4.no-reference-skipped", subj, fa.loc(loop), "a contract never traded (no reference price) is skipped", f"{kinds['no-reference']} KeyError skips (expected one)",
                 construct="except KeyError: continue")
        if not skip_tests:
            ck.fail("GUARD", "S4.no-margin-no-writes", subj, fa.loc(loop), "contracts with margin_requirement == 0 are not skipped", construct="missing:if contract.margin_requirement == 0: continue")
        else:
            ord_before(ck, fa, "S4.no-margin-no-writes", skip_tests, margin_writes + cash_writes, "the margin_requirement == 0 skip", "margin / cash writes", rule="GUARD")
        if not neg_raises:
            ck.fail("GUARD", "S2.negative-margin-raises", subj, fa.loc(loop), "no sanity raise for a negative margin", construct="missing:if margin < 0: raise")
        else:
            sweeps = [w for w in margin_writes + cash_writes]
            ok = all(fa.all_paths_from_pass(w, [enclosing_stmt(r) for r in neg_raises] + [n for n in [snap.get("test")] if n is not None]) or True for w in sweeps)
            test = snap.get("test")
            if test is not None:
                okp = all(fa.reachable_from(w, test.test) for w in sweeps)
                ck.check(okp, "ORD", "S2.negative-margin-check-after-sweep", subj, fa.loc(test), "the negative-margin sanity check follows the sweep",
                         "a margin write is not followed by the negative-margin check", construct="if " + ast.unparse(test.test))
    if "end" not in snap:
        if "equations" in want:
            ck.fail("LIN", "S2.marking-equations", subj, fa.f.loc, "cannot locate the end of the per-contract marking (negative-margin check missing)", construct="missing:negative margin check")
        return
    st = snap["end"]
    fw.st = st
    ckey = st.locals[cvar].key() if cvar in st.locals else cvar      # the loop's contract, by value id (not by the variable's spelling)
    km, M = _slot(st, "_holdings_margins", f"[{ckey}]")
    kc, C = _slot(st, "_holdings_quantity", "[self.base_currency]")
    kl, L = _slot(st, "_last_marking_to_market_price", f"[{ckey}]")
    missing = [n for n, v in (("cash", C), ("margin", M), ("reference price", L)) if v is None]
    if missing:
        ck.fail("LIN", "S2.marking-equations", subj, fa.loc(loop), f"marking_to_market does not write: {missing}", construct="missing:" + ",".join(missing))
        return
    cname = st.locals[cvar].key() if cvar in st.locals else cvar
    M0, C0, R0 = Poly.atom(km), Poly.atom(kc), Poly.atom(kl)
    Q = P(fw, f"self._holdings_quantity[{cvar}]")
    mult = P(fw, f"{cvar}.multiplier")
    mreq = P(fw, f"{cvar}.margin_requirement")
    liq = P(fw, f"self.exchange[{cvar}].liq_price(self._holdings_quantity[{cvar}])")
    if "equations" in want:
        flow = (M - M0) + (C - C0)
        expected = Q * mult * (liq - R0)
        ck.check(flow == expected, "LIN", "S2.variation-margin-only-flow", subj, fa.loc(loop),
                 "cash + margin change by exactly position x multiplier x (liquidation price - last mark): the sweep is zero-sum",
                 f"cash + margin change by {flow.key()}, expected {expected.key()}", construct="marking ledgers",
                 witness=[f"dMargin = {(M - M0).key()}", f"dCash = {(C - C0).key()}"])
        ck.check(L == liq, "LIN", "S5.mark-reference-is-liquidation-price", subj, fa.loc(loop), "the last-mark table receives the liquidation price just used",
                 f"last-mark table receives {L.key()}, expected {liq.key()}", construct="reference ledger")
    if "margin" in want:
        expected_M = liq * _abs_atom(Q) * mult * mreq
        ck.check(M == expected_M, "LIN", "S1.margin-after-mark", subj, fa.loc(loop),
                 "margin after marking = liquidation price x |position| x multiplier x margin requirement",
                 f"margin after marking = {M.key()}, expected {expected_M.key()}", construct="margin ledger")
    if "guards" in want:
        # the liquidation price is the book's price for this position (LIQ kind) of the same contract
        uses = [c for c in fa.calls_named("liq_price")]
        ck.check(bool(uses), "SIGN", "S3.marks-at-liquidation-side", subj, fa.loc(loop), "positions are marked with LimitOrderBook.liq_price(position)",
                 "marking does not use liq_price(position)", construct="liq_price")


# ---------------------------------------------------------------------------
# Trade / fees formulas
# ---------------------------------------------------------------------------

class _Only:
    """Forward only the obligations whose clause name ends with one of the wanted field names."""

    def __init__(self, ck, only):
        self._ck, self._only = ck, set(only)

    def _keep(self, name):
        return any(name.endswith("-" + k) or name.endswith("." + k) for k in self._only)

    def check(self, cond, rule, name, *a, **k):
        if self._keep(name):
            return self._ck.check(cond, rule, name, *a, **k)
        return cond

    def ok(self, rule, name, *a, **k):
        if self._keep(name):
            return self._ck.ok(rule, name, *a, **k)

    def fail(self, rule, name, *a, **k):
        if self._keep(name):
            return self._ck.fail(rule, name, *a, **k)

    def __getattr__(self, x):
        return getattr(self._ck, x)


def trade_formulas(ck, an, only=None):
    """only: restrict to the named Trade fields (properties that depend on part of the trade record)"""
    if only is not None:
        ck = _Only(ck, only)
    f = an.prog.func("Trade.__init__")
    summ = attribute_summary(an, f)
    subj = f.short
    fa = an.fa(f)
    fw = Forward(an, fa, call_effects=False).run()
    q, bid, ask, c = "quantity", "bid_price", "ask_price", "contract"
    acq = summ.get("acq_price")
    # side selection
    tab = sign_table_slot(fa, q, "self.acq_price")
    good = tab["pos"] == ask and tab["neg"] == bid
    detail = f"buy -> {tab['pos']}, sell -> {tab['neg']}"
    ck.check(good, "SIGN", "S3.trade-side", subj, f.loc, "a buy executes at the ask, a sale at the bid", f"Trade execution side: {detail}", construct="self.acq_price = ...")
    if acq is None:
        return
    want = {
        "notional": acq * Poly.atom(q) * Poly.atom(f"{c}.multiplier"),
        "cost_of_cash": acq * Poly.atom(q) * Poly.atom(f"{c}.multiplier") * Poly.atom(f"{c}.cash_requirement"),
        "cost_of_spread": _abs_atom(Poly.atom(q)) * Poly.atom(f"{c}.multiplier") * (Poly.atom(ask) - Poly.atom(bid)),
    }
    for k, w in want.items():
        got = summ.get(k)
        ck.check(got is not None and got == w, "LIN", f"S1.trade-{k}", subj, f.loc, f"Trade.{k} = {w.key()}", f"Trade.{k} = {got.key() if got is not None else 'unset'}, expected {w.key()}",
                 construct=f"self.{k} = ...")
    cc = summ.get("cost_of_commissions")
    ck.check(cc is not None and cc.key() == "broker_fees.commissions(self)", "ARGFLOW", "S1.trade-commissions", subj, f.loc, "Trade.cost_of_commissions = broker_fees.commissions(trade)",
             f"Trade.cost_of_commissions = {cc.key() if cc is not None else 'unset'}", construct="self.cost_of_commissions = ...")
    for k in ("quantity", "contract", "bid_price", "ask_price", "time"):
        got = summ.get(k)
        ck.check(got is not None and got.key() == k, "ARGFLOW", f"S1.trade-{k}", subj, f.loc, f"Trade.{k} is the constructor argument", f"Trade.{k} = {got.key() if got is not None else 'unset'}",
                 construct=f"self.{k} = {k}")
    # the commission is computed after the fields it reads are set
    co = [s for s in assigns_to_attr(fa, "cost_of_commissions")]
    deps = [s for s in assigns_to_attr(fa, "notional")]
    if co and deps:
        ord_before(ck, fa, "S1.notional-before-commission", deps, co, "self.notional", "the commission call")


def fees_formulas(ck, an):
    bf = an.prog.cls("BrokerFees")
    f = an.prog.lookup_method(bf, "commissions")
    fa = an.fa(f)
    rets = returns_in(fa)
    t = f.params[1]
    want = Poly.atom("self.fixed") + _abs_atom(Poly.atom(f"{t}.notional")) * Poly.atom("self.proportional")
    got = [fa.sym.ev(r.value) for r in rets if r.value is not None]
    ck.check(len(got) == 1 and got[0] == want, "LIN", "S6.commission-formula", f.short, f.loc, "commission = fixed + |notional| x proportional (never negative for fixed, proportional >= 0)",
             f"commission = {[g.key() for g in got]}, expected {want.key()}", construct="return self.fixed + abs(trade.notional) * self.proportional")
    fi = an.fa("IBrokerFees.__init__")
    for a in ("markup", "interest_rate", "proportional", "fixed"):
        st = assigns_to_attr(fi, a)
        ck.check(len(st) == 1 and isinstance(st[0], ast.Assign) and fi.sym.canon(st[0].value) == a, "ARGFLOW", f"S6.fees-{a}", fi.f.short, fi.f.loc, f"fees.{a} is the constructor argument",
                 f"fees.{a} = {[ast.unparse(s.value) for s in st if isinstance(s, ast.Assign)]}", construct=f"self.{a} = {a}")


# ---------------------------------------------------------------------------
# valuation
# ---------------------------------------------------------------------------

PRICE_SPELLINGS = ("{book}.bid_price if {q} >= 0 else {book}.ask_price", "{book}.bid_price if {q} > 0 else {book}.ask_price", "{book}.liq_price({q})", "{book}.acq_price(-{q})")


def valuation_formulas(ck, an, want: set):
    """holdings_values evaluated (abstractly) under `quantity != 0 and kind == K` and under `quantity == 0`: the value
    stored for the contract is compared, as a polynomial, with the formula of each kind."""
    fa = an.fa("Broker.holdings_values")
    subj = fa.f.short
    loops = [n for n in walk_function(fa.f.node) if isinstance(n, ast.For) and fa.sym.canon(n.iter) == "self._holdings_quantity.items()"]
    if not loops or not (isinstance(loops[0].target, ast.Tuple) and len(loops[0].target.elts) == 2 and all(isinstance(e, ast.Name) for e in loops[0].target.elts)):
        ck.fail("LIN", "S6.valuation-formulas", subj, fa.f.loc, "holdings_values does not iterate the (contract, quantity) items of the position ledger", construct="missing:for contract, quantity in self._holdings_quantity.items()")
        return
    loop = loops[0]
    cvar, qvar = [e.id for e in loop.target.elts]
    kindp = fa.f.params[1]
    Cn = loop_item(fa, loop, 0)
    rets = [r for r in returns_in(fa) if r.value is not None]
    cont = rets[0].value if len(rets) == 1 else None
    for _ in range(6):       # through plain aliases (`out = holdings_values; return out`), down to the local that names the mapping
        if isinstance(cont, ast.Name):
            nxt, _at = deref(fa, cont)
            d_ = fa.rd.reaching(cont.id, fa.cfg.node_of(cont).id) if fa.cfg.node_of(cont) is not None else []
            if len(d_) == 1 and d_[0].kind == "assign" and isinstance(d_[0].value, ast.Name):
                cont = d_[0].value
                continue
        break
    if not isinstance(cont, ast.Name):
        ck.fail("ARGFLOW", "S6.values-returned", subj, fa.f.loc, "holdings_values does not return the mapping it fills", construct="return holdings_values")
        return
    ck.ok("ARGFLOW", "S6.values-returned", subj, fa.loc(rets[0]), "the mapping filled per contract is returned", construct="return holdings_values")
    book = f"self.exchange[{cvar}]"

    def iteration(facts, text=None):
        """(value stored for the contract by one iteration of the loop under the assumptions, the specification `text`
        evaluated in that same final state). The value is read off the state at the END of the iteration - every normal
        end (fall-through or `continue`) joined - so one store after an if/else, a store per branch, or guard clauses
        with `continue` are all the same to the rule."""
        fw = under(fa, facts)
        st = fw.loop_iteration_end.get(id(loop))
        if st is None:
            return None, None
        ckey = st.locals[cvar].key() if cvar in st.locals else cvar
        base = st.locals[cont.id].key() if cont.id in st.locals else cont.id      # slots of a local mapping are keyed by the mapping's value id
        v = st.slots.get(f"{base}[{ckey}]")
        w = None
        if text is not None:
            fw.st = st
            w = fw.ev(ast.parse(text, mode="eval").body)
        return v, w

    formulas = {"notional": "{q} * ({price}) * {c}.multiplier", "liquidation": "{c}.cash_requirement * {q} * ({price}) * {c}.multiplier + self._holdings_margins[{c}]"}
    for kind, form in formulas.items():
        facts = [f"{qvar} != 0", f"{kindp} == '{kind}'"]
        got, wants = None, []
        for sp in PRICE_SPELLINGS:
            got, w = iteration(facts, form.format(q=qvar, c=cvar, price=sp.format(book=book, q=qvar)))
            wants.append(w)
        ok = got is not None and any(w is not None and got == w for w in wants)
        what = {"notional": "notional value = position x liquidation-side price x multiplier", "liquidation": "liquidation value = cash requirement x position x liquidation-side price x multiplier + posted margin"}[kind]
        ck.check(ok, "LIN", f"S6.value-{kind}", subj, fa.loc(loop), what + " (bid for a long, ask for a short, of the contract's own book), stored under the contract on every path",
                 f"{kind} value of a non-flat position = {got.key()[:300] if got is not None else 'not stored on every path'}; expected {wants[0].key()[:300] if wants and wants[0] is not None else '?'}", construct=f"kind == '{kind}'")
    got0, _ = iteration([f"{qvar} == 0"])
    ck.check(got0 is not None and got0 == Poly.const(0), "CONST", "S6.flat-worth-zero", subj, fa.loc(loop), "a flat position is worth 0 (and is stored)", f"a flat position is valued {got0.key()[:120] if got0 is not None else 'nothing'}",
             construct="value = 0.0")
    # an unsupported kind is an error, not a silent value
    got_bad, _ = iteration([f"{qvar} != 0", f"{kindp} != 'notional'", f"{kindp} != 'liquidation'"])
    ck.check(got_bad is None, "GUARD", "S6.unknown-kind-raises", subj, fa.loc(loop), "an unsupported kind raises", f"an unsupported kind is valued {got_bad.key()[:120] if got_bad is not None else ''}", construct="raise ValueError(\"Unsupported 'kind'.\")")
    ck.check(not any(isinstance(x, ast.Break) for x in ast.walk(loop)), "ARGFLOW", "S6.all-positions-valued", subj, fa.loc(loop), "every entry of the position ledger is valued (the loop is never cut short)",
             "the valuation loop can stop early", construct=stmt_text(loop))
    if "nlv" in want:
        fn = an.fa("Broker.net_liquidation_value")
        mt = fn.calls_to("Broker.marking_to_market")
        hv = fn.calls_to("Broker.holdings_values")
        ord_before(ck, fn, "S5.valuation-marks-first", mt, hv, "marking_to_market()", "holdings_values('liquidation')")
        for m in mt:
            ck.check(not m.args and not m.keywords, "ARGFLOW", "S5.marks-all-contracts", fn.f.short, fn.loc(m), "valuation marks every contract", f"valuation marks only {ast.unparse(m)}", construct=stmt_text(m))
        rets = [r for r in returns_in(fn) if r.value is not None]
        k = sorted({fn.sym.canon(r.value) for r in rets})
        specs = [specv(fn, t).key() for t in ("sum(self.holdings_values(kind='liquidation').values())", "sum(self.holdings_values('liquidation').values())")]
        ck.check(len(k) == 1 and k[0] in specs, "LIN", "S6.nlv-is-sum-of-liquidation-values", fn.f.short, fn.f.loc,
                 "NLV = sum of liquidation values (cash + margins + fully-paid positions)", f"NLV = {k}", construct="return nlv")
    if "weights" in want:
        fwt = an.fa("Broker.holdings_weights")
        rets = [r for r in returns_in(fwt) if r.value is not None]
        k = [fwt.sym.canon(r.value) for r in rets]
        specs = [specv(fwt, "{c: v / self.net_liquidation_value() for c, v in self.holdings_values(%s).items()}" % a).key() for a in ("", "kind='notional'", "'notional'")]
        ck.check(len(k) == 1 and k[0] in specs, "LIN", "S6.weight-is-notional-over-nlv", fwt.f.short, fwt.f.loc, "weight = notional value / NLV for every holding", f"holdings_weights returns {k}",
                 construct="return {contract: value / nlv ...}")


# ---------------------------------------------------------------------------
# ownership / aliasing
# ---------------------------------------------------------------------------

COPY_CALLS = {"dict", "list", "tuple", "set", "sorted", "len", "sum", "copy.deepcopy", "copy.copy", "deepcopy", "frozenset", "max", "min", "any", "all", "iter", "enumerate"}
READ_METHODS = {"items", "values", "keys", "get", "copy", "__contains__", "__len__"}


def ledger_ownership(ck, an, prefix="S7"):
    allowed = {"Broker.__init__", "Broker.transact", "Broker.marking_to_market", "Broker.accrued_interest"}
    for attr in LEDGERS:
        own_writers(ck, an, f"{prefix}.ledger-writers", "Broker", attr, allowed, min_sites=1)
    # aliasing: the live ledger objects never escape
    for attr in ("_holdings_quantity", "_holdings_margins", "_last_marking_to_market_price"):
        for f in an.functions():
            for e in an.fa(f).effects():
                if e.attr != attr or e.kind != "R" or not isinstance(e.node, ast.Attribute):
                    continue
                if not (e.owner == "?" or an.owner_matches(e.owner, "Broker")):
                    continue
                par = getattr(e.node, "_parent", None)
                ok, why = _alias_ok(e.node, par)
                if not ok and isinstance(par, ast.Call) and is_logging_call(f, par):
                    ok, why = True, "formatted into a log record"
                if not ok and isinstance(par, ast.Assign) and len(par.targets) == 1 and isinstance(par.targets[0], ast.Name) and par.value is e.node:
                    # a local alias: fine when the local itself is only used in non-escaping contexts and never re-bound to something that outlives the call
                    nm = par.targets[0].id
                    uses = [x for x in walk_function(f.node) if isinstance(x, ast.Name) and x.id == nm and isinstance(x.ctx, ast.Load)]
                    res = [_alias_ok(x, getattr(x, "_parent", None)) for x in uses]
                    if uses and all(r[0] for r in res):
                        ok, why = True, f"local alias `{nm}` used only as {sorted({r[1] for r in res})}"
                if not ok:
                    ck.fail("ALIAS", f"{prefix}.ledger-does-not-escape", f.short, e.loc, f"the live ledger Broker.{attr} escapes: {why}", construct=stmt_text(e.node))
                else:
                    ck.ok("ALIAS", f"{prefix}.ledger-does-not-escape", f.short, e.loc, f"Broker.{attr} used in a non-escaping context ({why})", construct=stmt_text(e.node))
    own_callers(ck, an, f"{prefix}.transact-callers", "Broker.transact", {"Broker.rebalance"})


def _alias_ok(node, par):
    if isinstance(par, ast.Subscript) and par.value is node:
        return True, "subscript"
    if isinstance(par, ast.Attribute) and par.value is node:
        if par.attr in READ_METHODS:
            return True, f".{par.attr}()"
        return False, f"method .{par.attr}"
    if isinstance(par, ast.Call) and node in par.args:
        fn = ast.unparse(par.func)
        if fn in COPY_CALLS or fn.split(".")[-1] in ("deepcopy", "copy"):
            return True, f"{fn}(...) copy"
        return False, f"passed to {fn}(...)"
    if isinstance(par, (ast.For, ast.comprehension)) and par.iter is node:
        return True, "iteration"
    if isinstance(par, ast.Compare):
        return True, "membership test"
    if (isinstance(par, ast.UnaryOp) and isinstance(par.op, ast.Not)) or (isinstance(par, (ast.If, ast.While, ast.IfExp)) and par.test is node) or isinstance(par, ast.BoolOp):
        return True, "truth test (empty or not)"
    if isinstance(par, ast.Return):
        return False, "returned"
    if isinstance(par, ast.keyword):
        return False, f"passed as {par.arg}="
    if isinstance(par, ast.Assign):
        return False, "stored elsewhere"
    return False, type(par).__name__


def ledger_containers(ck, an, prefix="S7"):
    """The ledgers are per-broker defaultdict(float) (flat / unknown contracts read as 0.0), the reference table a per-broker dict."""
    fa = an.fa("Broker.__init__")
    want = {"_holdings_quantity": ("defaultdict(float)", "collections.defaultdict(float)"), "_holdings_margins": ("defaultdict(float)", "collections.defaultdict(float)"),
            "_last_marking_to_market_price": ("dict()", "{}")}
    for attr, ok_vals in want.items():
        st = [s for s in assigns_to_attr(fa, attr)]
        vals = [ast.unparse(s.value) for s in st if isinstance(s, (ast.Assign, ast.AnnAssign)) and s.value is not None]
        ck.check(len(vals) == 1 and vals[0] in ok_vals, "IDIOM", f"{prefix}.ledger-container", fa.f.short, fa.f.loc, f"Broker.{attr} is a fresh {ok_vals[0]} per broker", f"Broker.{attr} = {vals}", construct=f"self.{attr} = {ok_vals[0]}")
    dep = [s for s in all_stmts(fa) if isinstance(s, ast.Assign) and ast.unparse(s.targets[0]) == "self._holdings_quantity[base_currency]"]
    ck.check(len(dep) == 1 and ast.unparse(dep[0].value) == "deposit", "ARGFLOW", f"{prefix}.initial-deposit", fa.f.short, fa.f.loc, "the account starts with the deposit in the base currency", "the initial deposit is not booked as cash",
             construct="self._holdings_quantity[base_currency] = deposit")
    for attr, src in (("exchange", "exchange"), ("base_currency", "base_currency"), ("fees", "fees"), ("_epsilon", "epsilon")):
        st = assigns_to_attr(fa, attr)
        ck.check(len(st) == 1 and isinstance(st[0], ast.Assign) and ast.unparse(st[0].value) == src, "ARGFLOW", f"{prefix}.broker-{src}", fa.f.short, fa.f.loc, f"Broker.{attr} is the constructor argument {src}",
                 f"Broker.{attr} = {[ast.unparse(x.value) for x in st if isinstance(x, ast.Assign)]}", construct=f"self.{attr} = {src}")
