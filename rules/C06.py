"""C06 — Interest on cash: compounding, sign, markup and no double accrual."""
import ast
from sa.lib import *
from sa.forward import Forward
from sa.dataflow import Poly, cmp_key, cmp_atoms
from rules.ledger import P
from rules.C12 import enclosing_if

TECHNIQUE = 'static analysis (ast): polynomial value ids of the accrual formula (rate x cash x elapsed / year, markup by sign), typestate-style rules for the accrual clock (query vs accrue, single writer), CFG ordering and constant tables'
EXPLANATION = (
    "Decides the structural clauses of C06 in Broker.accrued_interest by symbolic evaluation (value-id / polynomial domain, no execution): "
    "(S1) the rate applied is reference mid - markup x sign(cash balance), i.e. idle cash earns rate - markup and borrowed cash pays rate + markup; "
    "(S2) the floor to 0 applies exactly under `amount > 0 and accrued < 0` and precedes the accrual; (S3) the accrued amount is "
    "cash x ((1 + rate) ** years - 1) with years = elapsed seconds / (365*24*60*60): elapsed time appears only as the exponent, hence split-invariant; "
    "(S4) nothing depends on posted margin; (S5) the cash write and the advance of the accrual clock happen only under `accrue`, the amount credited "
    "is the amount returned and the clock is set to `now`; (S6) `now < last accrual` (strict) raises before anything is computed; "
    "(S7) Broker.rebalance accrues (accrue=True, at the request's time) before the pre-trade snapshot and stores the result, and reset seeds the rate book "
    "with 0.0 before any transmitter event is processed."
)
DECIDED = ["S1 sign and markup", "S2 positive balances never charged", "S3 compounding pro-rated over a 365-day year", "S4 margin earns nothing",
           "S5 query without accruing changes nothing", "S6 earlier time rejected, same instant accepted", "S7 rebalance accrues before the snapshot; reset seeds the rate"]
NOT_DECIDED = ["numeric split-invariance to the ulp", "rate bound (Rate.verify) beyond the comparator"]
ASSUMPTIONS = ["np.sign(x) is -1/0/+1; timedelta.total_seconds() is the elapsed time in seconds; a ** b is real exponentiation for 1 + rate > 0"]


def run(ck, an, tier):
    from rules import C14 as _c14
    from sa.report import Renamed as _R
    _c14.s1(_R(ck, "C14:"), an)      # the rate the broker reads is the rate that was quoted: the book stores a quote as given (a negative rate stays negative)
    fa = an.fa("Broker.accrued_interest")
    subj = fa.f.short
    now_p, accrue_p = fa.f.params[1], fa.f.params[2]
    d = fa.f.param_default(accrue_p)
    ck.check(isinstance(d, ast.Constant) and d.value is False, "GUARD", "S5.query-is-default", subj, fa.f.loc, "accrue defaults to False (a plain call is a query)",
             f"accrue default is {ast.unparse(d) if d is not None else 'missing'}", construct="accrue default")
    init_ifs = []
    cash_key = "self._holdings_quantity[self.base_currency]"
    C0_ = Poly.atom(cash_key)
    POS = ("rel", "<", (-C0_).key(), False, -C0_)                      # cash > 0
    NOT_POS = ("rel", "<=", C0_.key(), False, C0_)                     # not (cash > 0)

    def regime(accrue: bool, extra_facts):
        """the function evaluated under: accrue truthy / falsy, the accrual clock already initialised, and the given sign facts
        (conditions - and conditional values - they decide collapse, whatever statement form the code gives them)"""
        def dec(c):
            if c[0] == "truthy" and c[1] == accrue_p:
                return c[2] if accrue else not c[2]
            if c[0] == "is" and "None" in (c[1], c[2]) and "_last_accrual" in c[1] + c[2]:
                return not c[3]        # the clock is already initialised
            return decide_by_facts(c, extra_facts)

        def assume(s_, fw_):
            c = fw_.cmp(s_.test)
            if c[0] == "is" and "None" in (c[1], c[2]) and "_last_accrual" in c[1] + c[2] and s_ not in init_ifs:
                init_ifs.append(s_)
            return dec(c)
        fw_ = Forward(an, fa, assume=assume)
        fw_.sym.decide = dec
        fw_.run()
        return fw_
    fw = regime(True, [NOT_POS])        # no floor in this regime: the raw accrued amount
    fq = regime(False, [NOT_POS])
    last_key = "self._last_accrual"
    # ---------------- S5 query changes nothing
    changed = {k: v.key() for k, v in fq.st.slots.items() if not k.startswith("<") and v.key() != k}
    ck.check(not changed, "EFFECT", "S5.query-writes-nothing", subj, fa.f.loc, "with accrue=False (and an initialised clock) no ledger is written",
             f"a query-only call writes {changed}", construct="accrue=False path")
    for s in init_ifs[:1]:
        ck.exempt("EFFECT:S5.query-writes-nothing", "if self._last_accrual is None: self._last_accrual = now",
                  "first-use initialisation of the accrual clock; pinned by test_accrued_interest_sets_last_update_when_run_for_the_first_time; changes nothing once any accrual has happened")
        # every statement of the branch stores `now` (by value id): into the clock, and possibly into a local that mirrors it
        def _sets_now(b):
            return isinstance(b, ast.Assign) and len(b.targets) == 1 and (ast.unparse(b.targets[0]) == last_key or isinstance(b.targets[0], ast.Name)) and fa.sym.canon(b.value, fa.node_of(b).id) in (now_p, last_key)      # `now`, or the clock just set to it read back
        ok = 1 <= len(s.body) <= 2 and all(_sets_now(b) for b in s.body) and any(ast.unparse(b.targets[0]) == last_key for b in s.body)
        ck.check(ok, "GUARD", "S5.first-use-init-shape", subj, fa.loc(s), "the exempt first-use branch only sets the clock to now", f"first-use branch does: {[ast.unparse(b) for b in s.body]}",
                 construct=stmt_text(s))
    # every direct write is under `accrue` (syntactic), except the exempt init
    for e in fa.effects():
        if e.kind not in "WMD" or e.attr not in ("_holdings_quantity", "_last_accrual", "_holdings_margins", "_last_marking_to_market_price"):
            continue
        if any(any(e.node is x for x in ast.walk(s)) for s in init_ifs):
            continue
        sg = fa.guard_predicates(e.node)      # every path to the write (nested under `if accrue:` or after `if not accrue: return`)
        ck.check(any(p[0] == "truthy" and p[1] == accrue_p and p[2] for p in sg), "GUARD", "S5.writes-under-accrue", subj, e.loc, f"write of {e.attr} happens only under `accrue`",
                 f"{e.attr} is written outside `if accrue` (a query would change the account)", construct=stmt_text(e.node))
    # ---------------- equations on the accrue path
    C = fw.st.slots.get(cash_key)
    Lc = fw.st.slots.get(last_key)
    rets = [v for r, v, st in fw.returns if v is not None]
    if C is None or not rets:
        ck.fail("LIN", "S3.accrual-equation", subj, fa.f.loc, "accrued_interest does not credit the cash ledger or returns nothing", construct="missing:cash += accrued_interest")
        return
    ret = rets[-1]
    C0 = Poly.atom(cash_key)
    ck.check(C - C0 == ret, "LIN", "S5.credited-equals-returned", subj, fa.f.loc, "the amount credited to cash is the amount returned",
             f"cash changes by {(C - C0).key()} but {ret.key()} is returned", construct="cash += accrued_interest")
    ck.check(Lc is not None and Lc.key() == now_p, "LIN", "S5.clock-advances-to-now", subj, fa.f.loc, "accruing sets the accrual clock to now (a second accrual at the same instant adds nothing)",
             f"after accruing the clock is {Lc.key() if Lc is not None else 'unchanged'}", construct="self._last_accrual = now")
    # expected closed form
    fe = Forward(an, fa)
    rate = P(fe, "self.exchange[self.fees.interest_rate].mid_price")
    markup = P(fe, "self.fees.markup")
    amount = C0
    sign_atoms = [a for a in ret.atoms() if a.startswith("pow(")]
    years = P(fe, f"({now_p} - self._last_accrual).total_seconds()") * Poly.const(1) * Poly({(): __import__('fractions').Fraction(1, 31536000)})
    sgn = None
    for cand in ("np.sign", "numpy.sign"):
        k = f"{cand}({cash_key})"
        if any(k in a for a in ret.atoms()):
            sgn = Poly.atom(k)
    if sgn is None:
        sgn = Poly.atom(f"np.sign({cash_key})")
    base = Poly.const(1) + rate - markup * sgn
    expected = amount * Poly.atom(f"pow({base.key()}, {years.key()})") - amount
    ck.check(ret == expected, "LIN", "S3.accrual-equation", subj, fa.f.loc,
             "accrued = cash x ((1 + mid - markup x sign(cash)) ** (elapsed seconds / 31 536 000) - 1)",
             f"accrued = {ret.key()}; expected {expected.key()}", construct="accrued_interest formula",
             witness=[f"got      {ret.key()}", f"expected {expected.key()}"])
    # S1 split out for diagnosis: the base of the power
    pows = [a for a in ret.atoms() if a.startswith("pow(")]
    ck.check(len(pows) == 1 and pows[0].startswith(f"pow({base.key()}, "), "SIGN", "S1.rate-minus-markup-times-sign", subj, fa.f.loc,
             "rate applied = reference mid - markup x sign(cash): idle cash earns rate - markup, borrowed cash pays rate + markup",
             f"growth base is {pows[0][:160] if pows else 'missing'}; expected 1 + mid - markup*sign(cash)", construct="cagr = ...")
    ck.check(len(pows) == 1 and pows[0].endswith(f", {years.key()})"), "LIN", "S3.exponent-is-years", subj, fa.f.loc,
             "elapsed time enters only as the exponent, in years of 365 days", f"exponent is {pows[0].split(', ')[-1][:120] if pows else 'missing'}; expected {years.key()}",
             construct="years = ...")
    ck.check(not any("_holdings_margins" in a for a in ret.atoms() | C.atoms()), "DEP", "S4.margin-earns-nothing", subj, fa.f.loc, "the interest base does not depend on posted margin",
             "the accrued amount depends on _holdings_margins", construct="amount = ...")
    # CONST
    m = fa.f.module
    siy = m.constants.get("SECONDS_IN_YEAR")
    val = fa.sym._global("SECONDS_IN_YEAR", 0).const_value() if siy is not None else None
    ck.check(val == 31536000, "CONST", "S3.seconds-in-year", "broker.SECONDS_IN_YEAR", f"{m.relpath}:{siy.lineno if siy is not None else 0}", "SECONDS_IN_YEAR = 365*24*60*60",
             f"SECONDS_IN_YEAR folds to {val}", construct="SECONDS_IN_YEAR")
    # ---------------- S2 floor: the amount returned / credited in each sign regime of (cash, raw accrued amount)
    NEG = ("rel", "<", ret.key(), False, ret)                          # raw accrued amount < 0
    NOT_NEG = ("rel", "<=", (-ret).key(), False, -ret)
    for name, facts, want, what in (("S2.floor-condition", [POS, NEG], Poly.const(0), "idle cash (cash > 0) whose raw accrual is negative earns exactly 0: positive balances are never charged"),
                                    ("S2.floor-only-when-negative", [POS, NOT_NEG], ret, "a positive balance with a non-negative accrual receives it unchanged"),
                                    ("S2.floor-only-for-idle-cash", [NOT_POS, NEG], ret, "borrowed cash (cash <= 0) is charged the raw amount (no floor)")):
        fr_ = regime(True, facts)
        rv_ = [v for r_, v, st_ in fr_.returns if v is not None]
        Cr_ = fr_.st.slots.get(cash_key)
        got_ = rv_[-1] if rv_ else None
        ck.check(got_ is not None and got_ == want, "CMP", name, subj, fa.f.loc, what, f"in that regime the amount returned is {got_.key()[:200] if got_ is not None else 'nothing'}; expected {want.key()[:200]}",
                 construct="if amount > 0 and accrued_interest < 0: accrued_interest = 0")
        ck.check(Cr_ is not None and got_ is not None and Cr_ - C0_ == got_, "ORD", "S2.floor-before-accrual", subj, fa.f.loc, "the amount credited to cash is the floored amount that is returned",
                 f"cash changes by {(Cr_ - C0_).key()[:160] if Cr_ is not None else 'nothing'} but {got_.key()[:160] if got_ is not None else '?'} is returned", construct="cash += accrued_interest")
    # ---------------- S6 comparator
    ok6 = False
    for r in raises_in(fa):
        sg = fa.syntactic_guards(r)
        if len(sg) == 1 and sg[0][0] == "rel":
            p = sg[0][4]
            if sg[0][1] == "<" and p == Poly.atom(now_p) - Poly.atom(last_key):
                ok6 = True
                test = enclosing_if(r).test
                comp = [n for n in all_stmts(fa) if isinstance(n, ast.Assign) and "total_seconds" in ast.unparse(n.value)]
                ord_before(ck, fa, "S6.reject-before-compute", [test], comp, "the time check", "the elapsed-time computation")
            elif sg[0][1] == "<=" and p == Poly.atom(now_p) - Poly.atom(last_key):
                ck.fail("CMP", "S6.earlier-time-rejected", subj, fa.loc(r), "`now <= last accrual` raises: accruing again at the same instant is rejected instead of adding nothing", construct=stmt_text(enclosing_if(r)))
                ok6 = None
    if ok6 is not None:
        ck.check(bool(ok6), "CMP", "S6.earlier-time-rejected", subj, fa.f.loc, "`now < last accrual` (strict) raises", "no raise guarded by exactly `now < self._last_accrual`",
                 construct="if now < self._last_accrual: raise")
    s7(ck, an)


def s7(ck, an):
    fa = an.fa("Broker.rebalance")
    subj = fa.f.short
    reb = fa.f.params[1]
    ac = fa.calls_to("Broker.accrued_interest")
    cx = fa.calls_to("Broker.context")
    mk = fa.calls_to("Rebalancing.make_trades")
    ord_before(ck, fa, "S7.accrue-before-snapshot", ac, cx[:1] + mk, "accrued_interest(time, True)", "the pre-trade snapshot / make_trades")
    own_callers(ck, an, "S7.accrual-callers", "Broker.accrued_interest", {"Broker.rebalance"})
    for c in ac:
        a0 = fa.sym.canon(c.args[0]) if c.args else fa.sym.canon(next((k.value for k in c.keywords if k.arg == "now"), ast.Constant(value=None)))
        a1 = c.args[1] if len(c.args) > 1 else next((k.value for k in c.keywords if k.arg == "accrue"), None)
        ck.check(a0 == f"{reb}.time", "ARGFLOW", "S7.accrues-at-request-time", subj, fa.loc(c), "interest is accrued up to the request's time", f"accrued_interest(now={a0})", construct=stmt_text(c))
        a1k = fa.sym.canon(a1, fa.node_of(c).id) if a1 is not None else None        # by value id: the flag may travel through a local
        ck.check(a1k == "True", "ARGFLOW", "S7.accrue-true", subj, fa.loc(c), "rebalance accrues (accrue=True)", "rebalance only queries the interest", construct=stmt_text(c))
        st = enclosing_stmt(c)
        # some store to <request>.profit_on_idle_cash carries the value id of this very call (directly or through a temporary)
        rec = [x for x in all_stmts(fa) if isinstance(x, ast.Assign) and len(x.targets) == 1 and isinstance(x.targets[0], ast.Attribute) and x.targets[0].attr == "profit_on_idle_cash"
               and fa.sym.canon(x.targets[0].value) == reb and fa.sym.canon(x.value) == fa.sym.canon(c)]
        ck.check(len(rec) == 1, "ARGFLOW", "S7.profit-recorded", subj, fa.loc(c),
                 "the accrued amount is recorded as profit_on_idle_cash", f"accrual result goes to `{ast.unparse(st)[:60]}`", construct=stmt_text(c))
    ck.check(len(ac) == 1, "PATHCOUNT", "S7.accrues-once", subj, fa.f.loc, "rebalance accrues exactly once", f"rebalance calls accrued_interest {len(ac)} times", construct="accrued_interest call")
    # reset seeds the rate (and cash) quote before any transmitter event is processed
    fr = an.fa("TradingEnv.reset")
    seeds = [c for c in fr.calls_named("process_EventNBBO")]
    rate_seed = [c for c in seeds if c.args and "interest_rate" in fr.sym.canon(c.args[0])]      # by value id: the event may be built in a temporary first
    procs = fr.calls_to("TradingEnv._process_latent_events", "TradingEnv._process_nonlatent_events")
    if not rate_seed:
        ck.fail("ORD", "S7.rate-seeded-first", fr.f.short, fr.f.loc, "reset does not seed the reference-rate book", construct="missing:rate seed")
    else:
        ord_before(ck, fr, "S7.rate-seeded-first", rate_seed, procs, "the 0.0 seed of the rate book", "processing of transmitter events")
        for c in rate_seed:
            ev = deref(fr, c.args[0])[0]
            vals = [const_value(a) for a in ev.args[2:4]] if isinstance(ev, ast.Call) else []
            ck.check(vals == [0.0, 0.0], "CONST", "S7.rate-seed-zero", fr.f.short, fr.loc(c), "the rate book is seeded with bid = ask = 0.0", f"rate seed quotes are {vals}", construct=stmt_text(c))
    # the rate book queried is the fee schedule's interest-rate contract (same key the seed and the data use)
    fi = an.fa("Broker.accrued_interest")
    books = [n for n in ast.walk(fi.f.node) if isinstance(n, ast.Subscript) and ast.unparse(n.value) == "self.exchange"]
    ck.check(any(ast.unparse(b.slice) == "self.fees.interest_rate" for b in books), "ARGFLOW", "S1.rate-book", fi.f.short, fi.f.loc, "the rate is read from the book of fees.interest_rate",
             f"rate books read: {[ast.unparse(b) for b in books]}", construct="self.exchange[self.fees.interest_rate]")
    # Rate.verify bound (side fact)
    fv = an.fa("Rate.verify")
    ok = False
    for r in raises_in(fv):
        sg = fv.syntactic_guards(r)
        if len(sg) == 1 and sg[0][0] == "rel" and sg[0][1] == "<=" and "1/4" in sg[0][2]:
            ok = True
    ck.check(ok, "CMP", "S1.rate-bound", fv.f.short, fv.f.loc, "rates >= 0.25 are rejected (quantifier bound)", "Rate.verify no longer rejects rates >= 0.25", construct="if mid_price >= 0.25: raise")
