"""C17 — Only in-space actions are executed, as the allocation they denote."""
import ast
import re
from sa.lib import *
from sa.exc import ExcAnalysis
from sa.dataflow import cmp_key, cmp_atoms
from rules.common import allocation_filters

TECHNIQUE = 'static analysis (ast): must-pass-through rule (membership test dominates every request construction, interprocedural), exception discipline around validation, comparator normal form of Box membership, constructor-plumbing rules over the space class hierarchy'
EXPLANATION = (
    "Decides the structural clauses of C17: (S1) PortfolioSpace.make_rebalancing_request raises under `action not in self` and that "
    "test dominates _make_allocation and the Rebalancing construction; (S2) TradingEnv.step builds the request (outside any handler that "
    "could swallow the error) before Broker.rebalance and passes that very request; (S3) BoxPortfolio.contains is a conjunction of shape "
    "equality and NaN-rejecting positive comparisons all(x >= low), all(x <= high); every concrete PortfolioSpace resolves contains to a "
    "real implementation not shadowed by PortfolioSpace and overrides _make_allocation; (S4) BoxPortfolio._make_allocation returns its "
    "argument, DiscretePortfolio returns _allocations[action] with n = len(allocations); the Rebalancing is built from self.contracts, that "
    "allocation and the space's own measure/fractional/margin, and Rebalancing.__init__ pairs keys with values; (S5) Cash entries are dropped."
)
DECIDED = ["S1 out-of-space actions rejected before anything is built", "S2 rejected no later than the due step, nothing executed", "S3 membership = shape, bounds, not-NaN",
           "S4 in-space action executed as the allocation it denotes", "S5 cash entries ignored"]
NOT_DECIDED = ["gymnasium's own Discrete.contains / Box semantics (trusted table)", "numeric residual held as cash (C01/C03)"]
ASSUMPTIONS = ["gymnasium.spaces.Space.__contains__ delegates to contains(); Discrete.contains accepts exactly the integers 0..n-1"]


def run(ck, an, tier):
    s1(ck, an)
    s2(ck, an)
    s3(ck, an)
    s4(ck, an)
    from rules.C12 import subclass_ctor_plumbing
    subclass_ctor_plumbing(ck, an, "S4")
    from rules import C08
    from sa.report import Renamed
    C08.s1(Renamed(ck, "C08:"), an)       # with a delay the due action is the one submitted d steps earlier in THIS episode
    allocation_filters(ck, an, "S5")


def s1(ck, an):
    fa = an.fa("PortfolioSpace.make_rebalancing_request")
    subj = fa.f.short
    act = fa.f.params[1]
    rs = raises_in(fa)
    guard_tests = []
    for r in rs:
        preds = fa.guard_predicates(r)
        if len(preds) == 1 and preds[0][0] == "in" and preds[0][1] == act and preds[0][2] == "self" and preds[0][3] is False:
            for n, lab in fa.guards(r):
                guard_tests.append(n.ast)
            ck.ok("GUARD", "S1.membership-raise", subj, fa.loc(r), "`action not in self` raises", construct=stmt_text(r))
    if not guard_tests:
        ck.fail("GUARD", "S1.membership-raise", subj, fa.f.loc, "no raise guarded by exactly `action not in self`", construct="missing:if action not in self: raise")
        return
    builds = fa.calls_to("Rebalancing.__init__") + fa.calls_named("_make_allocation")
    ord_before(ck, fa, "S1.membership-first", guard_tests, builds, "the membership test", "_make_allocation / Rebalancing(...)")
    # nothing that can have an effect precedes the membership test
    pre = [s for s in effect_sites(fa) if isinstance(s, ast.Call) and not fa.all_paths_to_pass(s, guard_tests)]
    ck.check(not pre, "ORD", "S1.nothing-before-test", subj, fa.f.loc, "no call is executed before the membership test",
             f"calls executed before the membership test: {[ast.unparse(p)[:50] for p in pre]}", construct=stmt_text(pre[0]) if pre else "")


def s2(ck, an):
    fa = an.fa("TradingEnv.step")
    subj = fa.f.short
    mk = fa.calls_to("PortfolioSpace.make_rebalancing_request")
    rb = fa.calls_to("Broker.rebalance")
    ord_before(ck, fa, "S2.request-before-rebalance", mk, rb, "make_rebalancing_request", "Broker.rebalance")
    for c in rb:
        arg = fa.sym.canon(c.args[0]) if c.args else "?"
        ck.check(any(arg == fa.sym.canon(m) for m in mk), "ARGFLOW", "S2.rebalance-gets-request", subj, fa.loc(c),
                 "Broker.rebalance receives the request built from the due action", f"Broker.rebalance receives {arg[:80]}", construct=stmt_text(c))
    exv = ExcAnalysis(an, "ValueError")
    for m in mk:
        hs = enclosing_try_handlers(m, fa.f.node)
        catching = [h for h in hs if handler_names(h) is None or any(t in exv.anc for t in handler_names(h))]
        ck.check(not catching, "EXC", "S2.rejection-not-swallowed", subj, fa.loc(m), "the rejection (ValueError) of make_rebalancing_request is not caught in step",
                 f"make_rebalancing_request is enclosed by a handler catching {[handler_names(h) for h in catching]}", construct=stmt_text(m))
        # the action validated is the one taken from the queue
        a0 = fa.sym.canon(m.args[0]) if m.args else "?"
        ck.check("_queue_actions.pop" in a0, "ARGFLOW", "S2.validates-due-action", subj, fa.loc(m), "the action validated is the one popped from the delay queue",
                 f"make_rebalancing_request validates {a0}", construct=stmt_text(m))
    for c in rb:
        hs = enclosing_try_handlers(c, fa.f.node)
        wide = [h for h in hs if handler_names(h) is None or any(t in exv.anc for t in handler_names(h))]
        ck.check(not wide, "EXC", "S2.rebalance-errors-not-swallowed", subj, fa.loc(c), "no handler around rebalance catches ValueError",
                 f"a handler around Broker.rebalance catches {[handler_names(h) for h in wide]}", construct=stmt_text(c))


def _conj(fa, e):
    """Conjuncts of a contains() return expression."""
    if isinstance(e, ast.BoolOp) and isinstance(e.op, ast.And):
        out = []
        for v in e.values:
            out += _conj(fa, v)
        return out
    return [e]


def s3(ck, an):
    fa = an.fa("BoxPortfolio.contains")
    subj = fa.f.short
    x = fa.f.params[1]
    rets = returns_in(fa)
    # decision table over (x already an array?, shapes equal?, all(x >= low)?, all(x <= high)?): contains() is evaluated abstractly
    # under every assignment and must answer True exactly when the three membership conditions hold (positive, NaN-rejecting forms)
    failures = {"shape": [], "low": [], "high": [], "other": []}
    for isarr, X in ((True, x), (False, f"np.asarray({x}, dtype=self.dtype)")):
        ISARR = ("truthy", specv(fa, f"isinstance({x}, np.ndarray)").key(), True)
        SHAPE = fa.sym.cmp(ast.parse(f"{X}.shape == self.shape", mode="eval").body, fa.cfg.entry.id)
        LOW = ("truthy", specv(fa, f"np.all({X} >= self.low)").key(), True)
        HIGH = ("truthy", specv(fa, f"np.all({X} <= self.high)").key(), True)

        def answer(fw_, events, facts_holder=[None]):
            out = set()
            for r_, v, st_ in fw_.returns:
                k = v.key() if v is not None else "None"
                if k in ("True", "False"):
                    out.add(k == "True")
                else:
                    out.add(fw_.sym.decide(("truthy", k, True)) if fw_.sym.decide is not None else None)
            return out
        tab = decision_table(fa, [ISARR, SHAPE, LOW, HIGH], answer)
        for (a_, sh, lo, hi), got in tab.items():
            if a_ != isarr:
                continue
            want = {bool(sh and lo and hi)}
            if got != want:
                which = "shape" if not sh else ("low" if not lo else ("high" if not hi else "other"))
                failures[which].append(f"x is an array={isarr}, shapes equal={sh}, all(x >= low)={lo}, all(x <= high)={hi}: contains answers {sorted(map(str, got))}, expected {sorted(map(str, want))}")
    ck.check(not failures["shape"] and not failures["other"], "CMP", "S3.box-contains-shape", subj, fa.f.loc, "membership requires x.shape == self.shape (and holds when all three conditions do)",
             "; ".join((failures["shape"] + failures["other"])[:2]), construct="x.shape == self.shape")
    ck.check(not failures["low"], "CMP", "S3.box-contains-low", subj, fa.f.loc, "membership requires all(x >= low) (NaN-rejecting positive form)", "; ".join(failures["low"][:2]), construct="np.all(x >= self.low)")
    ck.check(not failures["high"], "CMP", "S3.box-contains-high", subj, fa.f.loc, "membership requires all(x <= high) (NaN-rejecting positive form)", "; ".join(failures["high"][:2]), construct="np.all(x <= self.high)")
    # x is only re-bound by a dtype conversion of itself
    for d in fa.rd.defs:
        if d.var == x and d.kind == "assign":
            v = fa.sym.canon(d.value, d.node)        # value id: the conversion may sit in a helper / behind a temporary
            ck.check(v == x or (("asarray(" in v or "array(" in v) and re.search(r"\b%s\b" % re.escape(x), v) is not None), "ARGFLOW", "S3.box-contains-same-x", subj,
                     fa.loc(d.ast), "x is only converted to an array before the tests", f"x is replaced by {v} before the membership tests", construct=ast.unparse(d.ast))
    # MRO exhaustiveness
    ps = an.prog.cls("PortfolioSpace")
    concrete = [c for c in an.prog.subclasses(ps) if not c.module.name.startswith("_fixture")]
    ck.floor("concrete PortfolioSpace subclasses", len(concrete), 2)
    for name in ("contains", "__contains__"):
        ck.check(name not in ps.methods, "MRO", "S3.base-does-not-shadow", "PortfolioSpace", ps.loc, f"PortfolioSpace does not define {name} (it would shadow Box/Discrete.{name} in the MRO)",
                 f"PortfolioSpace defines {name}, shadowing the concrete space's membership test", construct=f"PortfolioSpace.{name}")
    for c in concrete:
        own = an.prog.lookup_method(c, "contains")
        ext = [b for b in c.ext_bases if b.split(".")[-1] in ("Box", "Discrete", "MultiDiscrete", "MultiBinary")]
        if ext and not any(e.split(".")[-1] == "Box" for e in ext):
            ck.check(own is None and "__contains__" not in c.methods, "MRO", "S3.discrete-membership-from-gymnasium", c.name, c.loc, f"{c.name} uses gymnasium's {ext[0]}.contains (integers 0..n-1 only)",
                     f"{c.name} defines its own membership test, replacing gymnasium's {ext[0]}.contains", construct=f"{c.name}.contains")
        ck.check(own is not None or bool(ext), "MRO", "S3.contains-resolves", c.name, c.loc, f"{c.name}.contains resolves to {'its own implementation' if own else ext}",
                 f"{c.name} has no membership test besides the abstract Space.contains", construct=f"{c.name}.contains")
        ma = an.prog.lookup_method(c, "_make_allocation")
        ck.check(ma is not None and not ma.raises_not_implemented_only(), "MRO", "S3.make-allocation-implemented", c.name, c.loc, f"{c.name} implements _make_allocation",
                 f"{c.name} does not override _make_allocation", construct=f"{c.name}._make_allocation")
        # PortfolioSpace must precede the ext space in the bases? no: contains must come from the ext/own class, and
        # make_rebalancing_request from PortfolioSpace
        mr = an.prog.lookup_method(c, "make_rebalancing_request")
        ck.check(mr is not None and mr.cls is ps, "MRO", "S3.request-not-overridden", c.name, c.loc, f"{c.name} uses PortfolioSpace.make_rebalancing_request (with its membership test)",
                 f"{c.name} overrides make_rebalancing_request", construct=f"{c.name}.make_rebalancing_request")


def s4(ck, an):
    fb = an.fa("BoxPortfolio._make_allocation")
    rets = returns_in(fb)
    v = [fb.sym.canon(r.value) for r in rets]
    ck.check(v == [fb.f.params[1]], "ARGFLOW", "S4.box-allocation-is-action", fb.f.short, fb.f.loc, "the continuous allocation is the action itself", f"BoxPortfolio._make_allocation returns {v}",
             construct="return action")
    # the box the membership test compares against is the one configured: Box.__init__(self, low, high, (len(contracts),), float dtype)
    fbx = an.fa("BoxPortfolio.__init__")
    bx = [c for c in fbx.calls_named("__init__") if fbx.sym.canon(c.func) in ("Box.__init__", "gymnasium.spaces.Box.__init__", "spaces.Box.__init__", "super().__init__")]
    okb = False
    gotb = "?"
    for c in bx:
        a = [fbx.sym.canon(x) for x in c.args] + [f"{k.arg}={fbx.sym.canon(k.value)}" for k in c.keywords]
        gotb = ", ".join(a)
        pos = dict(zip(["self", "low", "high", "shape", "dtype"], a if fbx.sym.canon(c.func) != "super().__init__" else ["self"] + a))
        for k_ in c.keywords:
            pos[k_.arg] = fbx.sym.canon(k_.value)
        okb = pos.get("low") == "low" and pos.get("high") == "high" and pos.get("shape") == specv(fbx, f"(len({fbx.f.params[1]}),)").key() and not fbx.syntactic_guards(c)
    ck.check(len(bx) == 1 and okb, "ARGFLOW", "S3.box-configured-as-given", fbx.f.short, fbx.f.loc, "the space's bounds and shape are Box(low, high, (len(contracts),)): one entry per contract, the given bounds",
             f"Box.__init__({gotb})", construct="Box.__init__(self, low, high, (len(contracts),), np.float64)")
    fd = an.fa("DiscretePortfolio._make_allocation")
    rets = returns_in(fd)
    v = [fd.sym.canon(r.value) for r in rets]
    ck.check(v == [f"self._allocations[{fd.f.params[1]}]"], "ARGFLOW", "S4.discrete-allocation-indexed", fd.f.short, fd.f.loc, "the discrete allocation is _allocations[action]",
             f"DiscretePortfolio._make_allocation returns {v}", construct="return self._allocations[action]")
    fi = an.fa("DiscretePortfolio.__init__")
    st = assigns_to_attr(fi, "_allocations")
    ck.check(len(st) == 1 and isinstance(st[0], ast.Assign) and fi.sym.canon(st[0].value) == "allocations", "ARGFLOW", "S4.discrete-table", fi.f.short, fi.f.loc,
             "_allocations is the table given by the user", f"_allocations = {[ast.unparse(s.value) for s in st if isinstance(s, ast.Assign)]}", construct="self._allocations = allocations")
    dn = [c for c in fi.calls_named("__init__") if "Discrete" in ast.unparse(c.func)]
    good = False
    for c in dn:
        n = [k.value for k in c.keywords if k.arg == "n"] or (c.args[1:2] if len(c.args) > 1 else [])
        if n and fi.sym.canon(n[0]) == "len(allocations)":
            good = True
    ck.check(good, "LIN", "S4.discrete-size", fi.f.short, fi.f.loc, "the discrete space has exactly len(allocations) actions", "Discrete.__init__ is not called with n = len(allocations)",
             construct="Discrete.__init__(self, n=len(allocations))")
    # the request
    fa = an.fa("PortfolioSpace.make_rebalancing_request")
    act, time_p, broker_p = fa.f.params[1:4]
    calls = fa.calls_to("Rebalancing.__init__")
    calls = [c for c in calls if isinstance(c, ast.Call)]
    if not calls:
        ck.fail("ARGFLOW", "S4.request-built", fa.f.short, fa.f.loc, "make_rebalancing_request does not build a Rebalancing", construct="missing:Rebalancing(...)")
    ctor = an.prog.func("Rebalancing.__init__")
    want = {"contracts": "self.contracts", "allocation": f"self._make_allocation({act}, {broker_p})", "fractional": "self._fractional", "margin": "self._margin", "time": time_p,
            "measure": specv(fa, "'weight' if self._as_weights else 'nr-contracts'").key()}
    for c in calls:
        got = {}
        for i, a in enumerate(c.args):
            got[ctor.params[1 + i]] = fa.sym.canon(a)
        for k in c.keywords:
            got[k.arg] = fa.sym.canon(k.value)
        for k, w in want.items():
            ck.check(got.get(k) == w, "ARGFLOW", f"S4.request-{k}", fa.f.short, fa.loc(c), f"Rebalancing({k}=...) is {w}", f"Rebalancing({k}=...) is {got.get(k)}, expected {w}",
                     construct=f"{k}=" + str(got.get(k)))
        ck.check("absolute" not in got or got["absolute"] == "True", "ARGFLOW", "S4.request-absolute", fa.f.short, fa.loc(c), "the allocation is a target (absolute)",
                 f"Rebalancing(absolute={got.get('absolute')})", construct="absolute")
    rets = returns_in(fa)
    ck.check(all(any(fa.sym.canon(r.value) == fa.sym.canon(c) for c in calls) for r in rets) and bool(rets), "ARGFLOW", "S4.request-returned", fa.f.short, fa.f.loc,
             "the Rebalancing built is what is returned", "make_rebalancing_request returns something else than the Rebalancing it built", construct="return Rebalancing(...)")
    # Rebalancing.__init__ pairs contracts with the allocation under the right measure
    fr = an.fa("Rebalancing.__init__")
    for cls_name, measure in (("Weights", "'weight'"), ("NrContracts", "'nr-contracts'")):
        cs = [c for c in fr.calls_to("_Allocation.__init__") if isinstance(c, ast.Call) and fr.sym.canon(c.func) == cls_name]
        ok = False
        for c in cs:
            kw = {k.arg: fr.sym.canon(k.value) for k in c.keywords}
            preds = fr.guard_predicates(c)
            if kw.get("keys") == "contracts" and kw.get("values") == "allocation" and any(p[0] == "rel" and p[1] == "==" and measure in p[2] and "measure" in p[2] for p in preds):
                st = enclosing_stmt(c)
                if isinstance(st, ast.Assign) and ast.unparse(st.targets[0]) == "self.allocation":
                    ok = True
        ck.check(ok, "ARGFLOW", f"S4.measure-{cls_name}", fr.f.short, fr.f.loc, f"measure {measure} builds self.allocation = {cls_name}(keys=contracts, values=allocation)",
                 f"no `self.allocation = {cls_name}(keys=contracts, values=allocation)` under measure == {measure}", construct=f"{cls_name}(keys=contracts, values=allocation)")
    for attr, src in (("absolute", "absolute"), ("fractional", "fractional"), ("margin", "margin")):
        st = assigns_to_attr(fr, attr)
        ck.check(len(st) == 1 and isinstance(st[0], ast.Assign) and fr.sym.canon(st[0].value) == src, "ARGFLOW", f"S4.rebalancing-{attr}", fr.f.short, fr.f.loc,
                 f"Rebalancing.{attr} is the constructor argument", f"Rebalancing.{attr} = {[ast.unparse(s.value) for s in st if isinstance(s, ast.Assign)]}", construct=f"self.{attr} = {src}")
