"""C14 — Order book semantics: last quote wins, per-contract isolation, dead stays dead."""
import ast
from sa.lib import *
from sa.forward import Forward, attribute_summary
from sa.dataflow import cmp_key, Poly

TECHNIQUE = 'static analysis (ast): forward abstract interpretation of LimitOrderBook.update (stores and history appends exactly once), effect / ownership rules for books, typestate of dead books, sign tables of acq_price / liq_price, key-normalisation rule of Exchange.__getitem__ by value id'
EXPLANATION = (
    "Decides the structural clauses of C14: (S1) LimitOrderBook.update stores each quote field from the event's field of the same "
    "name and appends each of the six history columns exactly once on every path with the value of the *new* quote (mid = (ask+bid)/2); nothing in the "
    "package removes, reorders or rewrites an entry of a book's history columns (append-only, receivers by value id); "
    "(S2) Exchange.process_EventNBBO touches only the book of event.contract, books are created per key, and _books is touched only by "
    "the four accessors; (S3) update is called only from process_EventNBBO under `book.is_alive` of the same book, is_alive is written "
    "only by __init__ (True) and terminate (False), terminate re-initialises to NaN quotes, keeps the history and ends dead; "
    "(S4) sign tables: acq_price sells at bid, buys at ask, flat at mid, NaN raises; liq_price is acq_price of the opposite sign; "
    "(S5) contract keys are hashed/compared by symbol and normalised with static_hashing()."
    " terminate marks the book dead on every path out of it (S3.ends-dead-on-every-path), not only on the fall-through path."
)
DECIDED = ["S1 last quote wins / history in order", "S2 per-contract isolation", "S3 dead stays dead", "S4 buy at ask, sell at bid, flat at mid", "S5 keys by symbol / static hashing"]
NOT_DECIDED = ["interleavings as data (nothing of substance: the property is structural)"]
ASSUMPTIONS = ["collections.defaultdict(factory) creates one fresh value per missing key"]

FIELDS = ["bid_price", "ask_price", "bid_size", "ask_size", "time"]


def run(ck, an, tier):
    s1(ck, an)
    s2(ck, an)
    s3(ck, an)
    s4(ck, an)
    s5(ck, an)
    from rules import C11
    from sa.report import Renamed
    d = Renamed(ck, "C11:")
    C11.s1(d, an)       # a chain key resolves to its current lead, recomputed on every lookup
    C11.s3(d, an)


def s1(ck, an):
    fa = an.fa("LimitOrderBook.update")
    subj = fa.f.short
    ev = fa.f.params[1]
    appends = {}

    def on_stmt(s, fw):
        for c in ast.walk(s):
            if (isinstance(c, ast.Call) and isinstance(c.func, ast.Attribute) and c.func.attr == "append"
                    and isinstance(c.func.value, ast.Subscript) and fw.canon(c.func.value.value) == "self.history" and len(c.args) == 1):      # `self.history[...]`, possibly through a local alias
                k = c.func.value.slice
                key = k.value if isinstance(k, ast.Constant) else fw.canon(k)
                appends.setdefault(key, []).append((c, fw.canon(c.args[0])))
    fw = Forward(an, fa, on_stmt=on_stmt).run()
    for fld in FIELDS:
        got = fw.st.slots.get(f"self.{fld}")
        want = f"{ev}.{fld}"
        ck.check(got is not None and got.key() == want, "ARGFLOW", f"S1.store-{fld}", subj, fa.f.loc,
                 f"self.{fld} is set from {want}", f"after update self.{fld} = {got.key() if got is not None else 'unchanged'}, expected {want}",
                 construct=f"self.{fld} = ...")
    expected = {"time": f"{ev}.time", "bid_price": f"{ev}.bid_price", "ask_price": f"{ev}.ask_price",
                "mid_price": f"1/2*{ev}.ask_price + 1/2*{ev}.bid_price", "bid_size": f"{ev}.bid_size", "ask_size": f"{ev}.ask_size"}
    for key, want in expected.items():
        sites = appends.get(key, [])
        if not sites:
            ck.fail("PATHCOUNT", f"S1.history-{key}", subj, fa.f.loc, f"history column '{key}' is never appended in update", construct=f"missing:history[{key}].append")
            continue
        nodes = {fa.node_of(c).id for c, _ in sites}

        def w(n, nodes=nodes, key=key):
            cnt = 0
            if n.id in nodes:
                cnt = sum(1 for c, _ in sites if fa.node_of(c).id == n.id)
            return cnt
        pc = fa.cfg.path_count(w, ends=[fa.cfg.exit.id])
        lo, hi = pc.get(fa.cfg.exit.id, (0, 0))
        ck.check((lo, hi) == (1, 1), "PATHCOUNT", f"S1.history-{key}", subj, fa.loc(sites[0][0]),
                 f"history['{key}'] appended exactly once on every path", f"history['{key}'] appended between {lo} and {hi} times per update",
                 construct=stmt_text(sites[0][0]))
        for c, val in sites:
            ck.check(val == want, "ARGFLOW", f"S1.history-value-{key}", subj, fa.loc(c), f"history['{key}'] receives {want} (the new quote)",
                     f"history['{key}'] receives {val}, expected {want}", construct=stmt_text(c))
    extra = [k for k in appends if k not in expected]
    for k in extra:
        ck.note(f"extra history column appended: {k}")
    # the history only grows: anywhere in the package, the only thing done to a book's history columns is `.append`
    # (receiver by value id, so a column reached through `self.history.values()` / a local alias is seen)
    shrink = {"pop", "remove", "clear", "insert", "popitem", "reverse", "sort", "extend", "__delitem__", "__setitem__"}
    n_sites = 0
    for f in an.functions():
        if f.module.name.startswith("_fixture"):
            continue
        fx = an.fa(f)
        for n in walk_function(f.node):
            recv = None
            what = None
            if isinstance(n, ast.Call) and isinstance(n.func, ast.Attribute) and n.func.attr in shrink:
                recv, what = n.func.value, f".{n.func.attr}()"
            elif isinstance(n, ast.Delete):
                for t in n.targets:
                    if isinstance(t, ast.Subscript):
                        recv, what = t.value, "del"
            elif isinstance(n, ast.Subscript) and isinstance(n.ctx, ast.Store) and isinstance(n.value, ast.Subscript):
                recv, what = n.value, "item assignment"          # history[col][i] = ...
            if recv is None:
                continue
            nd = fx.cfg.node_of(n)
            k_ = fx.sym.canon(recv, nd.id if nd is not None else None)
            in_book_code = f.cls is not None and f.cls.name in ("LimitOrderBook", "Exchange") or f.module.name.endswith("exchange")
            if ".history" in k_ and (in_book_code or "exchange[" in k_ or "_books" in k_):       # State / Feature have a `history` of their own: not this one
                n_sites += 1
                ck.fail("EFFECT", "S1.history-append-only", f.short, fx.loc(n), f"{what} on {k_[:80]}: accepted quotes are removed from / rewritten in the history", construct=stmt_text(n))
    if not n_sites:
        ck.ok("EFFECT", "S1.history-append-only", subj, fa.f.loc, "nothing in the package removes, reorders or rewrites entries of a book's history columns (only append)", construct="history append-only")
    # quote events carry the fields they were given
    summ = attribute_summary(an, an.prog.func("EventNBBO.__init__"))
    for fld in ["time", "contract", "bid_price", "ask_price", "bid_size", "ask_size"]:
        got = summ.get(fld)
        ck.check(got is not None and got.key() == fld, "ARGFLOW", f"S1.event-{fld}", "EventNBBO.__init__", an.prog.func("EventNBBO.__init__").loc,
                 f"EventNBBO.{fld} is the constructor argument {fld}", f"EventNBBO.{fld} = {got.key() if got is not None else 'unset'}", construct=f"self.{fld} = {fld}")


def s2(ck, an):
    fa = an.fa("Exchange.process_EventNBBO")
    subj = fa.f.short
    ev = fa.f.params[1]
    want_book = f"self[{ev}.contract]"
    upd = fa.calls_to("LimitOrderBook.update")
    if not upd:
        ck.fail("EFFECT", "S2.updates-own-book", subj, fa.f.loc, "process_EventNBBO never calls LimitOrderBook.update", construct="missing:update")
    for c in upd:
        recv = canon_where(fa, c.func.value, c) if isinstance(c.func, ast.Attribute) else "?"
        ck.check(recv == want_book, "EFFECT", "S2.updates-own-book", subj, fa.loc(c), f"update is applied to {want_book} only",
                 f"update is applied to {recv}, expected {want_book}", construct=stmt_text(c))
        arg = fa.sym.canon(c.args[0]) if c.args else "?"
        ck.check(arg == ev, "ARGFLOW", "S2.update-gets-event", subj, fa.loc(c), "update receives the event being processed",
                 f"update receives {arg}", construct=stmt_text(c))
        in_loop = any(isinstance(p, (ast.For, ast.While, ast.ListComp, ast.GeneratorExp, ast.DictComp, ast.SetComp)) for p in parents(c) if p is not fa.f.node)
        ck.check(not in_loop, "EFFECT", "S2.single-update", subj, fa.loc(c), "update is not inside a loop over books", "update is called inside a loop", construct=stmt_text(c))
    # direct writes of the handler
    for e in fa.effects():
        if e.kind in "WMD":
            ck.check(e.attr == "last_update" and e.owner == "Exchange", "EFFECT", "S2.handler-writes", subj, e.loc,
                     "the handler itself writes only Exchange.last_update", f"handler writes {e.owner}.{e.attr}", construct=stmt_text(e.node))
    # every quote processed advances Exchange.last_update to the event's time, whether the book is alive or not: decision table over
    # `book.is_alive` (the handler is evaluated abstractly under both; guard clauses / early returns / if-else are the same)
    ALIVE = ("truthy", f"{_par(want_book)}.is_alive", True)

    def last_update_at_end(fw_, events):
        return sorted({(st_.slots.get("self.last_update").key() if st_.slots.get("self.last_update") is not None else "unset") for st_ in final_states(fw_)})
    tab = decision_table(fa, [ALIVE], last_update_at_end)
    for (alive,), got in tab.items():
        ck.check(got == [f"{ev}.time"], "EFFECT", "S2.last-update-always", subj, fa.f.loc, "every quote processed advances Exchange.last_update to the event's time",
                 f"book alive={alive}: when the handler finishes Exchange.last_update is {got}", construct="self.last_update = event.time")
    # _books ownership
    allowed = {"Exchange.__init__", "Exchange.__getitem__", "Exchange.__len__", "Exchange.__repr__"}
    for f in an.functions():
        for e in an.fa(f).effects():
            if e.attr == "_books":
                if e.kind == "R" and f.qual in new_api_functions(an) and not any(e2.attr == "_books" and e2.kind != "R" for e2 in an.fa(f).effects()) \
                        and isinstance(getattr(e.node, "_parent", None), ast.Attribute) and e.node._parent.attr in ("get", "items", "keys", "values", "__contains__", "__len__"):
                    ck.ok("OWN", "S2.books-owner", f.short, e.loc, f"{f.short}: a read-only accessor new to the inventory (no book is created or replaced by `.{e.node._parent.attr}`)", construct=stmt_text(e.node))
                    continue
                ck.check(all(g.short in allowed for g in an.attributed(f)), "OWN", "S2.books-owner", f.short, e.loc, f"_books touched by accessor {f.short}",
                         f"{f.short} touches Exchange._books directly; allowed: {sorted(allowed)}", construct=stmt_text(e.node))
    # per-key fresh books
    fi = an.fa("Exchange.__init__")
    st = [s for s in assigns_to_attr(fi, "_books")]
    good = False
    for s in st:
        v = s.value if isinstance(s, ast.Assign) else None
        if isinstance(v, ast.Call) and ast.unparse(v.func).endswith("defaultdict") and len(v.args) == 1:
            a = v.args[0]
            r = an.prog.resolve_name_expr(fi.f.module, a) if isinstance(a, (ast.Name, ast.Attribute)) else None
            if r is not None and getattr(r, "name", "") == "LimitOrderBook":
                good = True
            if isinstance(a, ast.Lambda) and isinstance(a.body, ast.Call) and ast.unparse(a.body.func).endswith("LimitOrderBook"):
                good = True
    ck.check(good, "IDIOM", "S2.fresh-book-per-key", "Exchange.__init__", fi.f.loc, "_books = defaultdict(LimitOrderBook): one fresh book per key",
             "_books is not a defaultdict creating a fresh LimitOrderBook per key", construct="; ".join(ast.unparse(s) for s in st) or "missing")
    # per-instance history container
    fl = an.fa("LimitOrderBook.__init__")
    hs = assigns_to_attr(fl, "history")
    ok = bool(hs) and all(isinstance(s, ast.Assign) and isinstance(s.value, (ast.Call, ast.Dict)) and not any(isinstance(n, ast.Name) and n.id in fl.f.params for n in ast.walk(s.value)) for s in hs)
    ck.check(ok, "ALIAS", "S2.fresh-history", fl.f.short, fl.f.loc, "each book builds its own history container",
             "LimitOrderBook.history is not a fresh per-instance container", construct="; ".join(ast.unparse(s) for s in hs) or "missing")
    for p in fl.f.params[1:]:
        d = fl.f.param_default(p)
        if d is not None and isinstance(d, (ast.Call, ast.List, ast.Dict, ast.Set)):
            ck.fail("ALIAS", "S2.no-mutable-default", fl.f.short, fl.f.loc, f"mutable default argument {p}={ast.unparse(d)} is shared by all books", construct=f"{p}={ast.unparse(d)}")


def s3(ck, an):
    own_callers(ck, an, "S3.update-callers", "LimitOrderBook.update", {"Exchange.process_EventNBBO"})
    own_callers(ck, an, "S3.terminate-callers", "LimitOrderBook.terminate", {"Exchange.process_EventContractDiscontinued"})
    fa = an.fa("Exchange.process_EventNBBO")
    for c in fa.calls_to("LimitOrderBook.update"):
        recv = canon_where(fa, c.func.value, c)
        preds = fa.guard_predicates(c)
        good = any(p[0] == "truthy" and p[2] and p[1] == f"{_par(recv)}.is_alive" for p in preds)
        ck.check(good, "GUARD", "S3.alive-guard", fa.f.short, fa.loc(c), "update is guarded by is_alive of the same book",
                 f"update of {recv} is not guarded by `{recv}.is_alive` (guards: {[cmp_key(p) for p in preds]})", construct=stmt_text(c))
        ck.check(all((p[0] == "truthy" and p[1].endswith(".is_alive")) for p in preds), "GUARD", "S3.no-extra-guard", fa.f.short, fa.loc(c),
                 "no other condition suppresses accepted quotes", f"additional guards on update: {[cmp_key(p) for p in preds]}", construct=stmt_text(c))
    expected = {"LimitOrderBook.__init__": True, "LimitOrderBook.terminate": False}
    sites = own_writers(ck, an, "S3.alive-writers", "LimitOrderBook", "is_alive", set(expected), min_sites=2)
    for e in sites:
        st = enclosing_stmt(e.node)
        v = const_value(st.value) if isinstance(st, ast.Assign) else "?"
        if e.func.short in expected:
            ck.check(v is expected[e.func.short], "OWN", "S3.alive-values", e.func.short, e.loc, f"{e.func.short} sets is_alive = {v}",
                     f"{e.func.short} sets is_alive = {v}, expected {expected[e.func.short]}", construct=stmt_text(e.node))
    ft = an.fa("LimitOrderBook.terminate")
    inits = ft.calls_to("LimitOrderBook.__init__")
    dead = [s for s in assigns_to_attr(ft, "is_alive")]
    ord_before(ck, ft, "S3.reinit-before-dead", inits, dead, "self.__init__()", "is_alive = False")
    for c in inits:
        ck.check(not c.args and not c.keywords, "ARGFLOW", "S3.reinit-blank", ft.f.short, ft.loc(c), "terminate re-initialises with default (NaN) quotes",
                 "terminate re-initialises the book with explicit quotes", construct=stmt_text(c))
    fi = an.fa("LimitOrderBook.__init__")
    for p in ("bid_price", "ask_price"):
        d = fi.f.param_default(p)
        ck.check(d is not None and ast.unparse(d).endswith("nan"), "CONST", f"S3.default-{p}-nan", fi.f.short, fi.f.loc, f"default {p} is NaN (no price)",
                 f"default {p} is {ast.unparse(d) if d is not None else 'missing'}", construct=f"{p} default")
    # nothing after the re-init restores quotes; history is restored; ends dead
    fw = Forward(an, ft).run()
    alive = fw.st.slots.get("self.is_alive")
    ck.check(alive is not None and alive.key() == "False", "EFFECT", "S3.ends-dead", ft.f.short, ft.f.loc, "terminate leaves is_alive = False on every path",
             f"terminate leaves is_alive = {alive.key() if alive is not None else 'unset'}", construct="self.is_alive = False")
    dead_nodes = {ft.node_of(s_).id for s_ in dead if ft.node_of(s_) is not None}
    ck.check(bool(dead_nodes) and ft.cfg.every_path_from_passes(ft.cfg.entry.id, dead_nodes), "EFFECT", "S3.ends-dead-on-every-path", ft.f.short, ft.f.loc,
             "every way out of terminate passes the store is_alive = False (no early return for never-quoted / special books)",
             "terminate can return without marking the book dead: a discontinued contract would accept later quotes", construct="self.is_alive = False")
    for p in ("bid_price", "ask_price"):
        v = fw.st.slots.get(f"self.{p}")
        ck.check(v is None or "@v" in v.key() or "nan" in v.key(), "EFFECT", f"S3.no-price-after-death-{p}", ft.f.short, ft.f.loc,
                 f"terminate does not set {p} after the re-initialisation", f"terminate sets {p} = {v.key() if v is not None else ''} after blanking the book",
                 construct=f"self.{p} after __init__")
    hist = fw.st.slots.get("self.history")
    ck.check(hist is not None and hist.key() == "self.history", "EFFECT", "S3.history-kept", ft.f.short, ft.f.loc, "terminate restores the history saved before the re-init",
             f"after terminate self.history = {hist.key() if hist is not None else 'lost (re-initialised)'}", construct="self.history = history")
    # discontinuation handler addresses the event's contract
    fd = an.fa("Exchange.process_EventContractDiscontinued")
    for c in fd.calls_to("LimitOrderBook.terminate"):
        recv = fd.sym.canon(c.func.value)
        ck.check(recv == f"self[{fd.f.params[1]}.contract]", "EFFECT", "S3.terminates-own-book", fd.f.short, fd.loc(c), "terminate addresses the event's contract",
                 f"terminate addresses {recv}", construct=stmt_text(c))
    if not fd.calls_to("LimitOrderBook.terminate"):
        ck.fail("EFFECT", "S3.terminates-own-book", fd.f.short, fd.f.loc, "the discontinuation handler does not terminate the book", construct="missing:terminate")


def _par(s):
    from sa.dataflow import _paren
    return _paren(s)


def s4(ck, an):
    fa = an.fa("LimitOrderBook.acq_price")
    p = fa.f.params[1]
    tab = sign_table_or_fail(ck, fa, p, "S4.acq-shape") or {"neg": "?", "pos": "?", "zero": "?", "nan": "?"}
    want = {"neg": "self.bid_price", "pos": "self.ask_price", "zero": "1/2*self.ask_price + 1/2*self.bid_price", "nan": "raise"}
    for s in SIGNS:
        ck.check(tab[s] == want[s], "SIGN", f"S4.acq-{s}", fa.f.short, fa.f.loc, f"acq_price({s}) -> {want[s]}", f"acq_price({s}) -> {tab[s]}, expected {want[s]}",
                 construct=f"acq_price sign {s}")
    fl = an.fa("LimitOrderBook.liq_price")
    rets = returns_in(fl)
    ok = len(rets) == 1 and fl.sym.canon(rets[0].value) in (f"self.acq_price(-{fl.f.params[1]})",)
    if not ok and len(rets) == 1:
        # inlined or rewritten: compare sign tables
        try:
            t2 = sign_table_func(fl, fl.f.params[1])
            ok = t2 == {"neg": want["pos"], "pos": want["neg"], "zero": want["zero"], "nan": "raise"}
        except AnalysisError:
            ok = False
    ck.check(ok, "SIGN", "S4.liq-is-opposite", fl.f.short, fl.f.loc, "liq_price(q) is acq_price(-q): longs liquidate at the bid, shorts at the ask",
             f"liq_price returns {fl.sym.canon(rets[0].value) if rets else '?'}", construct="liq_price")
    # the vectorised selectors pair the i-th key with the i-th sign
    for short, texts in (("Exchange.acq_prices", ["np.array([self[k].acq_price(s) for k, s in zip({k}, {s})])", "numpy.array([self[k].acq_price(s) for k, s in zip({k}, {s})])"]),
                         ("Exchange.liq_prices", ["self.acq_prices({k}, -{s})", "np.array([self[k].liq_price(s) for k, s in zip({k}, {s})])", "np.array([self[k].acq_price(-s) for k, s in zip({k}, {s})])"])):
        fx = an.fa(short)
        kp, sp = fx.f.params[1:3]
        ok, got = returns_spec(fx, *[t.format(k=kp, s=sp) for t in texts])
        ck.check(ok and len(got) == 1, "ARGFLOW", "S4.vector-selectors-pair-key-with-sign", fx.f.short, fx.f.loc, f"{short} prices the i-th key on the side given by the i-th sign",
                 f"{short} returns {got}", construct=f"{short}")
    fm = an.fa("LimitOrderBook.mid_price")
    rets = returns_in(fm)
    v = fm.sym.canon(rets[0].value) if rets else "?"
    ck.check(v == "1/2*self.ask_price + 1/2*self.bid_price", "LIN", "S4.mid", fm.f.short, fm.f.loc, "mid_price = (ask + bid) / 2", f"mid_price = {v}", construct="mid_price")
    fs = an.fa("LimitOrderBook.spread")
    rets = returns_in(fs)
    v = fs.sym.canon(rets[0].value) if rets else "?"
    ck.check(v == "self.ask_price + -self.bid_price", "LIN", "S4.spread", fs.f.short, fs.f.loc, "spread = ask - bid", f"spread = {v}", construct="spread")


def s5(ck, an):
    fh = an.fa("AbstractContract.__hash__")
    rets = returns_in(fh)
    v = fh.sym.canon(rets[0].value) if rets else "?"
    ck.check(v == "hash(self.symbol)", "IDIOM", "S5.hash-by-symbol", fh.f.short, fh.f.loc, "contracts hash by symbol", f"__hash__ returns {v}", construct="__hash__")
    fe = an.fa("AbstractContract.__eq__")
    rets = returns_in(fe)
    v0 = fe.sym.canon(rets[0].value) if rets else "?"
    ck.check("self.symbol" in v0 and ".symbol" in v0.replace("self.symbol", "", 1) and "==" in v0, "IDIOM", "S5.eq-by-symbol", fe.f.short, fe.f.loc,
             "contracts compare by symbol", f"__eq__ returns {v0}", construct="__eq__")
    if len(rets) >= 2:
        c1 = fe.sym.cmp(rets[1].value)
        v1 = cmp_key(c1)
        ck.check(c1[0] == "rel" and c1[1] == "==" and c1[4].atoms() == {"hash(self.symbol)", f"hash({fe.f.params[1]})"} and len(c1[4].t) == 2, "IDIOM", "S5.eq-with-plain-keys", fe.f.short, fe.f.loc, "a contract equals a plain key (e.g. its symbol string) iff the hashes agree", f"fallback comparison is {v1}",
                 construct="return hash(self.symbol) == hash(other)")
    fg = an.fa("Exchange.__getitem__")
    keyp = fg.f.params[1]
    # decision table over `isinstance(key, AbstractContract)`: a contract key addresses the book filed under its static hash, any other key the book filed under itself
    ISC = ("truthy", f"isinstance({keyp}, AbstractContract)", True)
    tabg = decision_table(fg, [ISC], lambda fw_, events: sorted({v.key() for r_, v, st_ in fw_.returns if v is not None}))
    wantg = {(True,): [f"self._books[{keyp}.static_hashing()]"], (False,): [f"self._books[{keyp}]"]}
    for bits, got in tabg.items():
        ck.check(got == wantg[bits], "IDIOM", "S5.getitem-normalises-key" if bits[0] else "S5.getitem-returns-book", fg.f.short, fg.f.loc,
                 "__getitem__ replaces a contract key by key.static_hashing() and returns self._books[key]" if bits[0] else "__getitem__ returns self._books[key] for a plain key",
                 f"key is a contract={bits[0]}: __getitem__ returns {got}; expected {wantg[bits]}", construct="key = key.static_hashing()" if bits[0] else "return self._books[key]")
