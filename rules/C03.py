"""C03 — Rebalancing reaches the requested target allocation."""
import ast
from sa.lib import *
from sa.forward import Forward
from sa.dataflow import Poly, cmp_key
from sa.resolve import walk_function
from rules.common import sub_returns_allocation, allocation_filters

TECHNIQUE = 'static analysis (ast): value-id (polynomial) comparison of the allocation conversions and of the imbalance under `absolute` / relative assumptions, path counts of Trade construction per item, ledger equations of transact, dict-API shadowing sweep over the class hierarchy'
EXPLANATION = (
    "Decides the structural clauses of C03 (value-id / polynomial domain, no execution): (S1) Weights._to_nr_contracts stores exactly "
    "weight x NLV / acq_price(weight) / multiplier per contract (execution-side quote: ask for long, bid for short targets, from the contract's own "
    "book) and NrContracts._to_weights the inverse; (S2) make_trades computes, on every call and without caching, target contracts minus "
    "current holdings when absolute; _Allocation.__sub__ ranges over all of the subtrahend's items with mapping.get(k, 0) - v; (S3) one Trade "
    "per imbalance item for that contract; (S4) Broker.rebalance accrues, snapshots, then sizes the trades, then executes them: the NLV used "
    "for sizing is the pre-trade NLV that is recorded; (S5) contract-count targets are taken as they are."
)
DECIDED = ["S1 target contracts = w x NLV / execution-side quote / multiplier", "S2 trade = target - holdings; untargeted holdings closed", "S3 one trade per imbalanced contract",
           "S4 NLV measured just before trading", "S5 number-of-contract targets taken as is"]
NOT_DECIDED = ["post-trade equalities, frictionless idempotence and float error (numeric)", "interaction with the known finding F2 (C01)"]
ASSUMPTIONS = ["dict.get / dict.copy / dict.items have their usual meaning"]


def run(ck, an, tier):
    s1(ck, an)
    s2(ck, an)
    s3(ck, an)
    s4(ck, an)
    s5(ck, an)
    allocation_filters(ck, an, "S2")
    from rules import ledger
    from sa.report import Renamed
    from rules import C12
    from rules import C17, C18 as _c18, C04 as _c04
    _c18.xy_init(ledger._Only(Renamed(ck, "C18:"), {"env-config-action_space"}), an)      # the tabular wrapper hands the configured threshold / bounds to its action space unchanged (0 stays 0)
    _c04.env_side(ledger._Only(Renamed(ck, "C04:"), {"clock-set", "clock-is-event-time", "both-clocks-set", "each-clock-before-dispatch"}), an)      # a chain target is the lead contract at the time of the event being processed
    C17.s4(ledger._Only(Renamed(ck, "C17:"), {"request-measure", "request-allocation", "request-fractional", "request-margin", "request-contracts", "request-absolute", "request-built"}), an)      # the request is in the unit the space was configured with
    C12.subclass_ctor_plumbing(Renamed(ck, "C12:"), an, "S1")      # the request a space builds carries the space's own configuration (fractional, margin, measure): a target in contracts is not silently truncated
    ledger.valuation_formulas(ledger._Only(Renamed(ck, "C05:"), {"weight-is-notional-over-nlv"}), an, {"weights"})     # the weights reported back are notional / NLV (what a target weight is compared with)
    ledger.trade_formulas(Renamed(ck, "C01:"), an, only={"trade-side", "trade-notional", "trade-cost_of_cash", "trade-quantity", "trade-contract"})   # what a trade of the computed size costs: a frictionless rebalance leaves the NLV where it was
    ledger.transact_equations(Renamed(ck, "C01:"), an, {"equations"})     # executing a trade moves the position by exactly the traded quantity (targets are reached exactly)      # which entries of a target survive into the allocation (non-cash, non-zero, keyed by static hashing)


def _conv(ck, an, short, rule, spec, result_cls, what):
    fa = an.fa(short)
    subj = fa.f.short
    loops = [n for n in walk_function(fa.f.node) if isinstance(n, ast.For)]
    comps = [n for n in walk_function(fa.f.node) if isinstance(n, ast.DictComp)]
    if not loops and len(comps) == 1:
        # comprehension form (what a plain accumulation loop is normalised to): the mapping returned, as one value id
        got = ret_canons(fa)
        want = specv(fa, f"{result_cls}({{c: {spec.format(c='c', v='v')} for c, v in self.items()}})", fa.node_of(returns_in(fa)[0]).id if returns_in(fa) else None).key()
        ck.check(got == [want], "LIN", rule, subj, fa.f.loc, what, f"returns {[g[:300] for g in got]}; expected {want[:300]}", construct=f"return {result_cls}(...)", witness=[f"got      {got}", f"expected {want}"])
        nl = fa.calls_to("Broker.net_liquidation_value")
        ck.check(len(nl) == 1 and not nl[0].args and not nl[0].keywords and not any(isinstance(p, (ast.For, ast.While, ast.DictComp, ast.ListComp, ast.GeneratorExp)) for p in parents(nl[0]) if p is not fa.f.node), "ARGFLOW",
                 rule + "-single-nlv", subj, fa.f.loc, "one NLV measurement is shared by all contracts", f"NLV is measured {len(nl)} time(s) / per contract / with arguments", construct="nlv = broker.net_liquidation_value()")
        return
    if len(loops) != 1 or not isinstance(loops[0].target, ast.Tuple):
        ck.fail("LIN", rule, subj, fa.f.loc, f"{subj}: expected one loop over (contract, value) items", construct="for contract, value in self.items()")
        return
    loop = loops[0]
    cvar, vvar = [e.id for e in loop.target.elts]
    it = fa.sym.canon(loop.iter)
    ck.check(it == "self.items()" and not any(isinstance(n, (ast.Continue, ast.Break)) for n in ast.walk(loop)), "ARGFLOW", rule + "-all-items", subj, fa.loc(loop),
             "the conversion ranges over every entry of the allocation", f"the conversion ranges over {it} (or skips entries)", construct=stmt_text(loop))
    stores = {}

    def on_stmt(s, fw):
        if isinstance(s, ast.Assign) and isinstance(s.targets[0], ast.Subscript) and any(s is x for x in ast.walk(loop)):
            exp = fw.ev(ast.parse(spec.format(c=cvar, v=vvar), mode="eval").body)
            stores[id(s)] = (s, fw.ev(s.value), fw.canon(s.targets[0].slice), fw.canon(s.targets[0].value), exp, fw.canon(ast.Name(id=cvar, ctx=ast.Load())))
    fw = Forward(an, fa, on_stmt=on_stmt).run()
    if len(stores) != 1:
        ck.fail("LIN", rule, subj, fa.loc(loop), f"expected exactly one per-contract store in the loop, found {len(stores)}", construct="result[contract] = ...")
        return
    s, val, key, container, expected, catom = list(stores.values())[0]
    ck.check(val == expected, "LIN", rule, subj, fa.loc(s), what, f"stored value is {val.key()}; expected {expected.key()}", construct=stmt_text(s),
             witness=[f"got      {val.key()}", f"expected {expected.key()}"])
    ck.check(key == catom, "ARGFLOW", rule + "-key", subj, fa.loc(s), "the result is stored under the same contract", f"the result is stored under {key}", construct=stmt_text(s))
    rets = returns_in(fa)
    rv0, rat = deref(fa, rets[0].value) if len(rets) == 1 else (None, None)
    ok = rv0 is not None and isinstance(rv0, ast.Call) and fa.sym.canon(rv0.func, rat) == result_cls and len(rv0.args) == 1 and not rv0.keywords \
        and fa.sym.canon(rv0.args[0], rat) == fa.sym.canon(s.targets[0].value, fa.node_of(s).id)
    ck.check(ok, "ARGFLOW", rule + "-returned", subj, fa.f.loc, f"the mapping built is returned as {result_cls}", f"returns {[ast.unparse(r.value) for r in rets]}", construct=f"return {result_cls}(...)")
    # NLV measured once, with the raising default
    nl = fa.calls_to("Broker.net_liquidation_value")
    ck.check(len(nl) == 1 and not nl[0].args and not nl[0].keywords and not any(isinstance(p, (ast.For, ast.While)) for p in parents(nl[0]) if p is not fa.f.node), "ARGFLOW", rule + "-single-nlv", subj, fa.f.loc,
             "one NLV measurement is shared by all contracts", f"NLV is measured {len(nl)} time(s) / inside the loop / with arguments", construct="nlv = broker.net_liquidation_value()")


def s1(ck, an):
    _conv(ck, an, "Weights._to_nr_contracts", "S1.weights-to-contracts", "{v} * broker.net_liquidation_value() / broker.exchange[{c}].acq_price({v}) / {c}.multiplier", "NrContracts",
          "target contracts = weight x NLV / acq_price(weight) / multiplier (ask for long, bid for short targets)")
    _conv(ck, an, "NrContracts._to_weights", "S1.contracts-to-weights", "{c}.multiplier * {v} * broker.exchange[{c}].acq_price({v}) / broker.net_liquidation_value()", "Weights",
          "imbalance weight = multiplier x quantity x acq_price(quantity) / NLV")
    fq = an.fa("LimitOrderBook.acq_price")
    tab = sign_table_or_fail(ck, fq, fq.f.params[1], "S3.execution-side-shape") or {"neg": "?", "pos": "?", "zero": "?", "nan": "?"}
    ck.check(tab["neg"] == "self.bid_price" and tab["pos"] == "self.ask_price", "SIGN", "S1.execution-side", fq.f.short, fq.f.loc, "acq_price: ask for long targets, bid for short targets",
             f"acq_price table {tab}", construct="acq_price")


def s2(ck, an):
    fa = an.fa("Rebalancing.make_trades")
    subj = fa.f.short
    loops = [n for n in walk_function(fa.f.node) if isinstance(n, ast.For) and any(isinstance(c, ast.Call) and "Trade" in ast.unparse(c.func) for c in ast.walk(n))]
    if not loops:
        ck.fail("LIN", "S2.imbalance", subj, fa.f.loc, "no trade loop in make_trades", construct="missing:for contract, quantity in imbalance.items()")
        return
    loop = loops[0]
    seen = {}

    def assume_abs(s, fw):
        c = fw.cmp(s.test)
        if c[0] == "truthy" and c[1] == "self.absolute":
            return c[2]
        return None

    def assume_rel(s, fw):
        c = fw.cmp(s.test)
        if c[0] == "truthy" and c[1] == "self.absolute":
            return not c[2]
        return None

    def on_stmt(s, fw):
        if s is loop:
            seen["iter"] = fw.canon(loop.iter)
            seen["want_abs"] = fw.canon(ast.parse("(self.allocation._to_nr_contracts(broker) - NrContracts(broker.holdings_quantity)).items()", mode="eval").body)
            seen["want_rel"] = fw.canon(ast.parse("self.allocation._to_nr_contracts(broker).items()", mode="eval").body)
    Forward(an, fa, on_stmt=on_stmt, assume=assume_abs, call_effects=False).run()
    it_abs = seen.get("iter", "?")
    Forward(an, fa, on_stmt=on_stmt, assume=assume_rel, call_effects=False).run()
    it_rel = seen.get("iter", "?")
    want_abs, want_rel = seen.get("want_abs"), seen.get("want_rel")
    ck.check(it_abs == want_abs, "LIN", "S2.imbalance-absolute", subj, fa.loc(loop), "absolute request: imbalance = target contracts - NrContracts(current holdings), computed on every call",
             f"under `absolute` the trade loop ranges over {it_abs}; expected {want_abs}", construct="imbalance (absolute)")
    ck.check(it_rel == want_rel, "LIN", "S2.imbalance-relative", subj, fa.loc(loop), "relative request: imbalance = the allocation converted to contracts",
             f"without `absolute` the trade loop ranges over {it_rel}; expected {want_rel}", construct="imbalance (relative)")
    # __sub__
    fs = an.fa("_Allocation.__sub__")
    fl = [n for n in walk_function(fs.f.node) if isinstance(n, ast.For)]
    good = False
    detail = "no loop over other.items()"
    for lp in fl:
        if fs.sym.canon(lp.iter) != "other.items()" or not isinstance(lp.target, ast.Tuple):
            continue
        k, v = [e.id for e in lp.target.elts]
        found = []

        def on_sub(st, fw, lp=lp, k=k, v=v):
            if isinstance(st, ast.Assign) and isinstance(st.targets[0], ast.Subscript) and any(st is x for x in ast.walk(lp)):
                m = st.targets[0].value
                exp = fw.ev(ast.parse(f"{ast.unparse(m)}.get({k}, 0) - {v}", mode="eval").body)
                found.append((st, fw.ev(st.value), exp, fw.canon(st.targets[0].slice), fw.canon(ast.Name(id=k, ctx=ast.Load())), fw.canon(m)))
        Forward(an, fs, on_stmt=on_sub, call_effects=False).run()
        if len(found) == 1:
            st, val, exp, key, katom, cont = found[0]
            detail = f"result[{k}] = {val.key()}"
            is_copy = cont in ("self.copy()", "dict(self)")
            if val == exp and key == katom and is_copy:
                good = True
            elif not is_copy:
                detail += f" (container {cont} is not a copy of self)"
        else:
            detail = f"{len(found)} stores in the subtraction loop"
        if any(isinstance(n, (ast.If, ast.Continue, ast.Break, ast.IfExp)) for n in ast.walk(lp) if n is not lp):
            good = False
            detail = "the subtraction loop filters or skips entries of the subtrahend"
    ck.check(good, "LIN", "S2.subtraction-covers-all", fs.f.short, fs.f.loc, "__sub__: for every (k, v) of the subtrahend, result[k] = self.get(k, 0) - v (held-but-untargeted contracts get -holding)",
             f"__sub__ does not subtract every entry: {detail}", construct="for k, v in other.items(): mapping[k] = mapping.get(k, 0) - v")
    sub_returns_allocation(ck, an, "S2")


def _c(fs, name, stmt):
    return fs.sym.canon(ast.Name(id=name, ctx=ast.Load()), fs.node_of(stmt).id)


def s3(ck, an):
    fa = an.fa("Rebalancing.make_trades")
    subj = fa.f.short
    trades = [c for c in fa.calls_to("Trade.__init__") if isinstance(c, ast.Call)]
    ck.floor("Trade constructions in make_trades", len(trades), 1)
    loops = [p for p in parents(trades[0]) if isinstance(p, ast.For)] if trades else []
    if not loops:
        ck.fail("PATHCOUNT", "S3.one-trade-per-item", subj, fa.f.loc, "Trade is not built inside the imbalance loop", construct="Trade(...)")
        return
    loop = loops[0]
    head = fa.cfg.node_of(loop.iter)
    body = fa.cfg.loop_body_nodes(head.id)
    tnodes = {fa.node_of(t).id for t in trades}
    apps = [c for c in fa.calls_named("append") if any(c is x for x in ast.walk(loop))]
    anodes = {fa.node_of(a).id for a in apps}
    # count per iteration: paths from the loop head (T edge) back to the head
    be = [(a, b) for (a, b) in fa.cfg.back_edges() if b == head.id]
    ends = [a for a, b in be]
    mx_t = mx_a = 0
    mn_t = mn_a = 10 ** 6
    for e in set(ends):
        pc = fa.cfg.path_count(lambda n: 1 if n.id in tnodes else 0, start=head.id, ends=[e])
        if e in pc:
            mn_t, mx_t = min(mn_t, pc[e][0]), max(mx_t, pc[e][1])
        pc = fa.cfg.path_count(lambda n: 1 if n.id in anodes else 0, start=head.id, ends=[e])
        if e in pc:
            mn_a, mx_a = min(mn_a, pc[e][0]), max(mx_a, pc[e][1])
    ck.check(mx_t == 1, "PATHCOUNT", "S3.one-trade-per-item", subj, fa.loc(loop), "at most one Trade is built per imbalance item", f"up to {mx_t} trades are built per item", construct=stmt_text(loop))
    ck.check(mx_a == 1, "PATHCOUNT", "S3.one-append-per-item", subj, fa.loc(loop), "at most one trade is recorded per imbalance item", f"up to {mx_a} appends per item", construct=stmt_text(loop))
    # each trade built is appended to the returned list
    for t in trades:
        st = enclosing_stmt(t)
        name = st.targets[0].id if isinstance(st, ast.Assign) and isinstance(st.targets[0], ast.Name) else None
        tid = fa.sym.canon(t, fa.node_of(t).id)
        ok = any(a.args and fa.sym.canon(a.args[0], fa.node_of(a).id) == tid and fa.all_paths_from_pass(t, [a]) for a in apps) or \
            any(a.args and a.args[0] is t for a in apps)       # value ids: the trade may travel through temporaries
        ck.check(ok, "ARGFLOW", "S3.trade-recorded", subj, fa.loc(t), "every trade built is appended to the list returned", "a trade built is not always appended to the returned list", construct=stmt_text(t))
        kw = {k.arg: fa.sym.canon(k.value) for k in t.keywords}
        tn = [e.id for e in loop.target.elts] if isinstance(loop.target, ast.Tuple) else ["?", "?"]
        item = [loop_item(fa, loop, i).key() for i in range(2)] if isinstance(loop.target, ast.Tuple) and len(loop.target.elts) == 2 else ["?", "?"]
        ck.check(kw.get("contract", "") == item[0], "ARGFLOW", "S3.trade-contract", subj, fa.loc(t), "the trade is for the item's contract", f"Trade(contract={kw.get('contract')})", construct="contract=")
        q = kw.get("quantity", "")
        ck.check(item[1] in q, "ARGFLOW", "S3.trade-quantity", subj, fa.loc(t), "the traded quantity is the item's imbalance (or its whole-lot truncation)", f"Trade(quantity={q})", construct="quantity=")
        ck.check(kw.get("time") == "self.time", "ARGFLOW", "S3.trade-time", subj, fa.loc(t), "trades are stamped with the request's time", f"Trade(time={kw.get('time')})", construct="time=")


def s4(ck, an):
    fa = an.fa("Broker.rebalance")
    subj = fa.f.short
    ac = fa.calls_to("Broker.accrued_interest")
    cx = fa.calls_to("Broker.context")
    mk = fa.calls_to("Rebalancing.make_trades")
    tr = fa.calls_to("Broker.transact")
    ord_before(ck, fa, "S4.accrue-before-sizing", ac, mk, "the interest accrual", "make_trades (sizing on NLV)")
    ord_before(ck, fa, "S4.snapshot-before-sizing", cx[:1], mk, "the pre-trade snapshot", "make_trades (sizing on NLV)")
    ord_before(ck, fa, "S4.sizing-before-execution", mk, tr, "make_trades", "transact")
    # nothing that moves money lies between the pre-trade snapshot and make_trades
    if cx and mk:
        for node, tgs, ext, kind in fa.calls():
            if node in (cx[0], mk[0]) or id(node) in an.res.byname:
                continue
            if any(node is x for x in ast.walk(cx[0])) or any(node is x for x in ast.walk(mk[0])):
                continue
            between = fa.reachable_from(cx[0], node) and fa.reachable_from(node, mk[0]) and not fa.reachable_from(mk[0], node)
            if not between:
                continue
            for g in tgs:
                w = [e for e in an.transitive_effects(g) if e.kind in "WMD" and e.attr in ("_holdings_quantity", "_holdings_margins") and an.owner_matches(e.owner, "Broker")]
                ck.check(not w, "EFFECT", "S4.nothing-between-snapshot-and-sizing", subj, fa.loc(node), f"{g.short} between snapshot and sizing does not move money",
                         f"`{ast.unparse(node)[:50]}` between the pre-trade snapshot and make_trades writes {sorted({e.attr for e in w})}", construct=stmt_text(node))
    for m in mk:
        a = fa.sym.canon(m.args[0]) if m.args else "?"
        ck.check(a == "self", "ARGFLOW", "S4.sizes-on-this-broker", subj, fa.loc(m), "trades are sized against this broker", f"make_trades({a})", construct=stmt_text(m))
    # the request carries no state that make_trades reads besides its constructor fields
    fm = an.fa("Rebalancing.make_trades")
    fi = an.fa("Rebalancing.__init__")
    init_attrs = {e.attr for e in fi.effects() if e.kind == "W" and e.owner == "Rebalancing"}
    ck.floor("attributes initialised by Rebalancing.__init__", len(init_attrs), 5)
    cfg_attrs = {"allocation", "absolute", "fractional", "margin", "time"}
    for e in fm.effects():
        if e.owner != "Rebalancing":
            continue
        if e.kind == "R":
            ck.check(e.attr in cfg_attrs, "DEP", "S4.sizing-reads-request-config-only", fm.f.short, e.loc, f"make_trades reads request field {e.attr}",
                     f"make_trades reads Rebalancing.{e.attr}, which is not part of the request's configuration (stale state from an earlier call?)", construct=stmt_text(e.node))
        elif e.kind in "WMD":
            ck.fail("EFFECT", "S4.sizing-is-pure", fm.f.short, e.loc, f"make_trades writes Rebalancing.{e.attr}: a second call on the same request does not recompute from current quotes",
                    construct=stmt_text(e.node))


def s5(ck, an):
    for short, cls in (("NrContracts._to_nr_contracts", "NrContracts"), ("Weights._to_weights", "Weights")):
        fa = an.fa(short)
        rets = returns_in(fa)
        v = [fa.sym.canon(r.value) for r in rets]
        ck.check(v == [f"{cls}(self)"], "ARGFLOW", f"S5.identity-{cls}", fa.f.short, fa.f.loc, f"{short} returns a copy of itself, unchanged", f"{short} returns {v}", construct=f"return {cls}(self)")
