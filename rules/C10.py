"""C10 — Episodes are reproducible and environments are isolated."""
import ast
from sa.lib import *
from sa.dataflow import Poly, cmp_key
from sa.resolve import walk_function
from sa.model import enclosing_function

TECHNIQUE = 'static analysis (ast): effect analysis for process-wide stores (class / module objects, class-level containers, import-time instances, shared default arguments with a decided statelessness premise), reset-completeness (every attribute written at episode time is re-assigned on every path of reset), reviewed table of nondeterminism sources'
EXPLANATION = (
    "Decides the state-hygiene clauses of C10: (S1) GLOBAL: no function body stores into a class object or module attribute and no class-level mutable "
    "container is mutated through instances (process-wide state shared by all environments); the process-wide contract clock of known finding F7 is read only by the "
    "reviewed functions (chain resolution, lifespan) and lifespan() has no new caller; the delayed-action queue is rebuilt at every reset and the configured episode length is never "
    "overwritten by a per-call override (C08 / C15 clauses re-evaluated here); (S2) every source of nondeterminism (wall clock, random "
    "draws, iteration over sets feeding ordered output) is in the reviewed table; (S3) RESET: every attribute TradingEnv writes at episode time is "
    "re-assigned unconditionally by reset, which builds a fresh Exchange and Broker and resets reward, state and transmitter; (S4) every Observer subclass "
    "re-initialises in __init__/reset whatever its callbacks write; Observer.reset re-runs __init__ with the stored arguments; (S5) Transmitter._reset "
    "re-assigns everything _next writes and the partitions are immutable after construction; (S6) rewards that keep state reset it; (S7) no new mutable "
    "in-package object or container is used as a default argument (shared between environments)."
)
DECIDED = ["S1 nothing outside the environment", "S2 no hidden inputs", "S3 reset rebuilds every per-episode object", "S4 observers restart clean",
           "S5 transmitter restarts over immutable partitions", "S6 rewards carry no episode state unless they reset it", "S7 environments share no mutable object by default"]
NOT_DECIDED = ["bit-identity of traces (numeric)", "RNG streams of sampling", "interleavings as schedules beyond the absence of shared state"]
ASSUMPTIONS = ["no monkey-patching; user-defined observers/rewards follow the base-class reset protocol"]

# reviewed sources of nondeterminism: (function or class, substring) -> reason
NONDET_OK = {
    ("Transmitter._reset", "np.random.choice"): "episode start sampling: the window is an input of the property",
    ("Set.sample", "random.choice"): "actions are inputs of the property",
    ("Float.sample", "np.random.uniform"): "actions are inputs of the property",
    ("Rebalancing.__init__", "datetime.now"): "fallback `time or datetime.now()`; the environment always passes time=self.now() (checked by ARGFLOW below)",
    ("AsynchronousTransmitter._now", "datetime.utcnow"): "real-time mode, outside the property's quantifier",
    ("class Future", "datetime.now"): "import-time default span Future.exists_until (a constant for the life of the process)",
}
NONDET_CALLS = ("datetime.now", "datetime.utcnow", "datetime.today", "date.today", "time.time", "time.monotonic", "time.perf_counter", "random.", "np.random.", "numpy.random.", "uuid.", "os.urandom", "secrets.")
# reviewed default arguments that are in-package instances
DEFAULT_OK = {
    ("TradingEnv.__init__", "state"): "IState(): shared fields are unreachable for the base IState (parse raises first)",
    ("TradingEnv.__init__", "reward"): "RewardSimpleReturn(): stateless",
    ("TradingEnv.__init__", "transmitter"): "AsynchronousTransmitter(): stateless",
    ("TradingEnv.__init__", "broker_fees"): "BrokerFees(): immutable configuration",
    ("Broker.__init__", "base_currency"): "Cash(): immutable",
    ("Broker.__init__", "fees"): "BrokerFees(): immutable configuration",
    ("IBrokerFees.__init__", "interest_rate"): "Rate(...): immutable",
    ("Trade.__init__", "broker_fees"): "BrokerFees(): immutable configuration",
}
RESET_EXEMPT_ENV = {"_visits": "diagnostic counter, read only by visits()"}
RESET_EXEMPT_OBS = {("IState", "_cache"): "opt-in cross-episode @cache, documented", ("IState", "_cache_enabled"): "configuration flag set by the @cache decorator",
                    ("Feature", "transformer"): "fitted transformer is kept across episodes by design (stated in the property)"}


def run(ck, an, tier):
    s1(ck, an)
    clock_readers(ck, an)
    from rules import C08 as _c08
    from sa.report import Renamed as _R8
    _c08.s1(_R8(ck, "C08:"), an)      # the delayed-action queue is rebuilt at every reset: no decision of an earlier episode is replayed
    from rules import C15
    from sa.report import Renamed
    from rules import ledger
    C15.s3(ledger._Only(Renamed(ck, "C15:"), {"configured-length-fixed", "reset-passes-length"}), an)
    C15.steps_recomputed(Renamed(ck, "C15:"), an)      # ... and the steps themselves are recomputed at every reset      # the episode length of a replay is the configured one: a per-call override does not stick
    module_level_objects(ck, an)
    s2(ck, an)
    s3(ck, an)
    s4(ck, an)
    s5(ck, an)
    s6(ck, an)
    s7(ck, an)


CLOCK_READERS = {"Future.lifespan", "FutureChain._lead_contract_idx", "FutureChain.lead_contract"}     # the readers named in finding F7


def clock_readers(ck, an):
    """The process-wide contract clock (finding F7) is read by the chain resolution and by lifespan() only: a new reader is a
    new way for one environment's time to decide another environment's behaviour."""
    n_reads = 0
    for f in an.functions():
        if f.module.name.startswith("_fixture"):
            continue
        called = {id(c.func) for c in walk_function(f.node) if isinstance(c, ast.Call)}
        for n in walk_function(f.node):
            # `<contract>.now` / `AbstractContract.now` read as a value (`self.now()` of the environment and `datetime.now()` are calls, not this attribute)
            if isinstance(n, ast.Attribute) and n.attr == "now" and isinstance(n.ctx, ast.Load) and id(n) not in called:
                n_reads += 1
                ok = all(g.short in CLOCK_READERS for g in an.attributed(f))
                ck.check(ok, "GLOBAL", "S1.process-wide-clock-readers", f.short, f"{f.module.relpath}:{n.lineno}", f"read of the process-wide contract clock by {f.short} (reviewed, finding F7)",
                         f"{f.short} reads the process-wide contract clock {ast.unparse(n)}: its result now depends on whichever environment in the process dispatched an event last", construct=stmt_text(n))
    ck.floor("reads of the process-wide contract clock", n_reads, 3)
    own_callers(ck, an, "S1.process-wide-clock-readers", "Future.lifespan", {"FutureChain.lifespan"}, rule="GLOBAL", min_sites=0)
    own_callers(ck, an, "S1.process-wide-clock-readers", "FutureChain.lifespan", set(), rule="GLOBAL", min_sites=0)


def s1(ck, an):
    n = 0
    for f in an.functions(include_fixtures=True):
        fix = f.module.name.startswith("_fixture")
        for e in an.fa(f).effects():
            if e.kind not in "WMD":
                continue
            if e.owner.startswith("class:") or e.owner.startswith("module:"):
                if f.short in ("to_pandas", "to_pandas.<locals>.decorated") or (f.short == "make_policy"):
                    continue
                if fix:
                    n += 1
                    continue
                att = an.attributed(f)
                if f.qual in an.prog.expanded_into and att and all(g.qual != f.qual for g in att):
                    continue        # a new helper expanded into its reviewed callers: the store is reported there (same statement, the caller as subject)
                ck.fail("GLOBAL", "S1.no-process-wide-store", f.short, e.loc,
                        f"{f.short} stores into {e.owner}.{e.attr}: process-wide state shared by every environment in the process", construct=stmt_text(e.node))
    ck.check(n >= 1, "GLOBAL", "S1.control", "fixture", "selftest/fixtures", "positive control: the fixture's class-object store is detected", "positive control failed: class-object stores are no longer detected",
             construct="control")
    ck.exempt("GLOBAL:S1.no-process-wide-store", "setattr(target, method.__name__, method) in metrics.to_pandas", "import-time, idempotent registration of metric methods on pandas classes")
    # class-level mutable containers mutated through instances
    for c in an.prog.classes.values():
        if c.module.name.startswith("_fixture"):
            continue
        for name, val in c.class_attrs.items():
            mutable = isinstance(val, (ast.Dict, ast.List, ast.Set, ast.ListComp, ast.DictComp)) or \
                (isinstance(val, ast.Call) and ast.unparse(val.func).split(".")[-1] in ("dict", "list", "set", "defaultdict", "deque", "OrderedDict"))
            if not mutable:
                continue
            # mutated or item-assigned through self anywhere?
            writers = []
            for f in an.functions():
                for e in an.fa(f).effects():
                    if e.attr == name and an.owner_matches(e.owner.replace("class:", ""), c.name) and (e.kind in "MD" or (e.kind == "W" and e.sub is not None)):
                        writers.append(f"{f.short}@{e.loc}")
            reinit = any(any(x.attr == name and x.kind == "W" and x.sub is None for x in an.fa(m).effects()) for k in an.prog.mro(c) + an.prog.subclasses(c) for mn, m in k.methods.items() if mn in ("__init__", "__new__", "reset"))
            ck.check(not writers or reinit, "GLOBAL", "S1.no-shared-class-container", c.name, c.loc,
                     f"class-level container {c.name}.{name} is never mutated through instances" if not writers else f"{c.name}.{name} is re-created per instance",
                     f"class-level container {c.name}.{name} is mutated by {writers[:3]} and never re-created per instance: all instances (all environments) share it", construct=f"{c.name}.{name} = {ast.unparse(val)[:40]}")


IMMUTABLE_CTORS = {"frozenset", "tuple", "str", "int", "float", "bool", "bytes", "complex", "object", "range", "timedelta", "datetime.timedelta", "datetime", "datetime.datetime", "date", "datetime.date",
                   "re.compile", "namedtuple", "collections.namedtuple", "TypeVar", "typing.TypeVar", "logging.getLogger", "getLogger", "Decimal", "Fraction", "MappingProxyType", "types.MappingProxyType", "threading.Lock", "Lock"}


def module_level_objects(ck, an):
    """No function hands out or mutates an object created once at import time: such an object (a fitted transformer, a cache,
    a table of instances) would be shared by every environment of the process."""
    n_bind = 0
    for m in an.prog.modules.values():
        if m.name.startswith("_fixture"):
            continue
        shared = {}      # name -> (node, kind)
        for st in m.tree.body:
            tgts, val = [], None
            if isinstance(st, ast.Assign):
                tgts, val = [t for t in st.targets if isinstance(t, ast.Name)], st.value
            elif isinstance(st, ast.AnnAssign) and st.value is not None and isinstance(st.target, ast.Name):
                tgts, val = [st.target], st.value
            if not tgts or val is None:
                continue
            inst = [c for c in ast.walk(val) if isinstance(c, ast.Call) and ast.unparse(c.func) not in IMMUTABLE_CTORS]
            cont = isinstance(val, (ast.Dict, ast.List, ast.Set, ast.ListComp, ast.DictComp, ast.SetComp))
            if inst or cont:
                for t in tgts:
                    if t.id != "__all__":
                        shared[t.id] = (st, "instance" if inst else "container")
        n_bind += len(shared)
        if not shared:
            continue
        for f in an.functions():
            if f.module is not m:
                continue
            fa = an.fa(f)
            local = {d.var for d in fa.rd.defs}
            for node in walk_function(f.node):
                if not (isinstance(node, ast.Name) and isinstance(node.ctx, ast.Load) and node.id in shared and node.id not in local):
                    continue
                st, kind = shared[node.id]
                par = getattr(node, "_parent", None)
                use = None
                # walk up through subscripts: G[k]
                cur, up = node, par
                while isinstance(up, ast.Subscript) and up.value is cur:
                    cur, up = up, getattr(up, "_parent", None)
                if isinstance(up, ast.Attribute) and up.value is cur and isinstance(getattr(up, "_parent", None), ast.Call) and getattr(up, "_parent").func is up:
                    meth = up.attr
                    if kind == "instance" or meth in ("append", "appendleft", "extend", "insert", "pop", "popleft", "remove", "clear", "update", "setdefault", "add", "discard", "sort", "reverse", "__setitem__"):
                        use = f"calls .{meth}() on it"
                elif isinstance(up, (ast.Assign, ast.AugAssign, ast.AnnAssign)) and kind == "instance" and getattr(up, "value", None) is cur:
                    use = "stores it (the same object) elsewhere"
                elif isinstance(up, ast.Return) and kind == "instance":
                    use = "returns it"
                elif isinstance(up, (ast.Call, ast.keyword)) and kind == "instance":
                    use = "passes it on"
                if isinstance(cur, ast.Subscript) and isinstance(cur.ctx, (ast.Store, ast.Del)):
                    use = "assigns into it"
                if use:
                    ck.fail("GLOBAL", "S1.no-module-level-object-shared", f.short, f"{f.module.relpath}:{node.lineno}",
                            f"{f.short} {use}: `{node.id}` is created once at import time ({m.relpath}:{st.lineno}) and is therefore shared by every environment in the process", construct=f"{node.id} = {ast.unparse(st.value)[:60]}")
    ck.ok("GLOBAL", "S1.no-module-level-object-shared", "package", "tradingenv", f"{n_bind} module-level mutable bindings; none is handed out or mutated by a function", construct="module level")


def s2(ck, an):
    sites = []
    for f in an.functions():
        for node in walk_function(f.node):
            if isinstance(node, ast.Call):
                d = ast.unparse(node.func)
                dd = an.prog.dotted(f.module, node.func) or d
                if any(d.startswith(p) or dd.startswith(p.replace("np.", "numpy.")) or (p.endswith(".") is False and (d == p or d.endswith("." + p))) for p in NONDET_CALLS):
                    sites.append((f.short, d, f"{f.module.relpath}:{node.lineno}", node))
    # class bodies / module level
    for m in an.prog.modules.values():
        if m.name.startswith("_fixture"):
            continue
        for node in ast.walk(m.tree):
            if isinstance(node, ast.Call) and enclosing_function(node) is None:
                d = ast.unparse(node.func)
                if any(d.startswith(p) for p in NONDET_CALLS):
                    cls = next((p for p in __import__("sa.model", fromlist=["parents"]).parents(node) if isinstance(p, ast.ClassDef)), None)
                    sites.append((f"class {cls.name}" if cls else f"module {m.name}", d, f"{m.relpath}:{node.lineno}", node))
    ck.floor("nondeterminism sites", len(sites), 4)
    short_to_f = {f.short: f for f in an.functions()}
    for where, d, loc, node in sites:
        # a helper new to the inventory draws on behalf of the reviewed functions that call it
        wheres = [g.short for g in an.attributed(short_to_f[where])] if where in short_to_f else [where]
        reasons = [next((r for (w, sub), r in NONDET_OK.items() if w == w_ and sub in d), None) for w_ in wheres]
        reason = reasons[0] if reasons and all(reasons) else None
        if reason:
            ck.exempt("NONDET:S2.no-hidden-input", f"{where}: {d}", reason)
            ck.ok("NONDET", "S2.no-hidden-input", where, loc, f"reviewed source of nondeterminism: {reason}", construct=f"{where}: {d}")
        else:
            ck.fail("NONDET", "S2.no-hidden-input", where, loc, f"`{d}(...)` in {where} makes results depend on the wall clock / a random stream that is not an input of the episode", construct=stmt_text(node))
    # the Rebalancing fallback is dead on the environment path
    fs = an.fa("TradingEnv.step")
    for m in fs.calls_to("PortfolioSpace.make_rebalancing_request"):
        t = m.args[1] if len(m.args) > 1 else next((k.value for k in m.keywords if k.arg == "time"), None)
        ck.check(t is not None and not (isinstance(t, ast.Constant) and t.value is None), "ARGFLOW", "S2.request-time-always-given", fs.f.short, fs.loc(m), "step always passes a time to the request (the wall-clock fallback is dead)",
                 "step builds the request without a time: Rebalancing falls back to datetime.now()", construct=stmt_text(m))
    # iteration over sets feeding ordered output (simulation modules only; reporting/metrics are outside the episode)
    for f in an.functions():
        if f.module.name in ("tradingenv.metrics", "tradingenv.broker.track_record"):
            continue
        fa = an.fa(f)
        for node in walk_function(f.node):
            its = []
            if isinstance(node, ast.For):
                its.append((node.iter, node))
            elif isinstance(node, (ast.ListComp, ast.GeneratorExp, ast.DictComp)):
                its += [(g.iter, node) for g in node.generators]
            for it, owner in its:
                k = ast.unparse(it)
                is_set = k.startswith("set(") or isinstance(it, (ast.Set, ast.SetComp)) or (isinstance(it, ast.BinOp) and isinstance(it.op, (ast.BitOr, ast.BitAnd, ast.Sub)) and "set(" in k)
                if not is_set:
                    continue
                par = getattr(owner, "_parent", None)
                NORMALISING = ("sorted", "np.sort", "set", "len", "min", "max", "sum", "any", "all", "frozenset")
                wrapped = isinstance(par, ast.Call) and ast.unparse(par.func) in NORMALISING
                if not wrapped and isinstance(par, ast.Assign) and len(par.targets) == 1 and isinstance(par.targets[0], ast.Name):
                    # bound to a local that is only ever handed to an order-normalising call (x = [...set...]; x = sorted(x))
                    nm_ = par.targets[0].id
                    uses = [x for x in walk_function(f.node) if isinstance(x, ast.Name) and x.id == nm_ and isinstance(x.ctx, ast.Load)]
                    defs_ = [d for d in fa.rd.defs if d.var == nm_ and d.ast is par]
                    reached = [u for u in uses if fa.cfg.node_of(u) is not None and any(d in fa.rd.reaching(nm_, fa.cfg.node_of(u).id) for d in defs_)]
                    wrapped = bool(reached) and all(isinstance(getattr(u, "_parent", None), ast.Call) and ast.unparse(u._parent.func) in NORMALISING for u in reached)
                ck.check(wrapped, "NONDET", "S2.no-set-order-dependence", f.short, f"{f.module.relpath}:{it.lineno}", "iteration over a set is order-normalised (sorted/len/min/...)",
                         f"{f.short} iterates over the set `{k[:50]}`: the order of the result depends on hash seeds", construct=stmt_text(owner))


def _uncond_assigned(fa, attr):
    st = assigns_to_attr(fa, attr)
    # tuple targets:  self.a, self.b = ...
    for s in all_stmts(fa):
        if isinstance(s, ast.Assign):
            for t in s.targets:
                if isinstance(t, (ast.Tuple, ast.List)) and any(isinstance(e, ast.Attribute) and e.attr == attr and ast.unparse(e.value) == "self" for e in t.elts):
                    st.append(s)
    nodes = {fa.node_of(s).id for s in st if fa.cfg.node_of(s) is not None or True}
    if not nodes:
        return False, st
    return fa.cfg.every_path_from_passes(fa.cfg.entry.id, nodes), st


def s3(ck, an):
    env = an.prog.cls("TradingEnv")
    episode_methods = ["TradingEnv.step", "TradingEnv.notify", "TradingEnv._process_latent_events", "TradingEnv._process_nonlatent_events"]
    written = {}
    for m in episode_methods:
        for e in an.fa(m).effects():
            if e.kind in "WMD" and (e.owner in ("TradingEnv", "class:AbstractContract")):
                if e.owner == "class:AbstractContract":
                    continue
                written.setdefault(e.attr, []).append((m, e))
    ck.floor("attributes written by TradingEnv at episode time", len(written), 5)
    fr = an.fa("TradingEnv.reset")
    for attr, sites in sorted(written.items()):
        if attr in RESET_EXEMPT_ENV:
            ck.exempt("RESET:S3.reset-reassigns", f"TradingEnv.{attr}", RESET_EXEMPT_ENV[attr])
            continue
        ok, st = _uncond_assigned(fr, attr)
        ck.check(ok, "RESET", "S3.reset-reassigns", "TradingEnv.reset", fr.f.loc, f"reset unconditionally re-assigns {attr} (written at episode time by {sorted({m for m, e in sites})})",
                 f"TradingEnv.{attr} is written during an episode by {sorted({m for m, e in sites})} but reset does not re-assign it on every path: state of the previous episode leaks into the next",
                 construct=f"reset: self.{attr} = ..." + (" (conditional)" if st else " (missing)"))
    # fresh exchange and broker
    for attr, cls in (("exchange", "Exchange"), ("broker", "Broker")):
        ok, st = _uncond_assigned(fr, attr)
        fresh = any(isinstance(s, ast.Assign) and isinstance(s.value, ast.Call) and fr.sym.canon(s.value.func) == cls for s in st)
        ck.check(ok and fresh, "RESET", f"S3.fresh-{attr}", fr.f.short, fr.f.loc, f"reset builds a fresh {cls}()", f"reset does not unconditionally build a fresh {cls}", construct=f"self.{attr} = {cls}(...)")
    for s in assigns_to_attr(fr, "broker"):
        if isinstance(s, ast.Assign) and isinstance(s.value, ast.Call):
            kw = {k.arg: fr.sym.canon(k.value) for k in s.value.keywords}
            ck.check(kw.get("exchange") == "self.exchange" and kw.get("deposit") == "self._initial_cash" and kw.get("fees") == "self._broker_fees", "ARGFLOW", "S3.broker-config", fr.f.short, fr.loc(s),
                     "the new broker gets the new exchange, the configured cash and fees", f"Broker({kw})", construct=stmt_text(s))
            ex = assigns_to_attr(fr, "exchange")
            if ex:
                ord_before(ck, fr, "S3.exchange-before-broker", ex, [s], "the new exchange", "the new broker")
    for callee, what in (("AbstractReward.reset", "the reward"), ("IState.reset", "the state"), ("Transmitter._reset", "the transmitter")):
        cs = fr.calls_to(callee, "AbstractTransmitter._reset")
        cs = [c for c in cs if any(g.short in (callee, "AbstractTransmitter._reset") for g in an.res.resolve_call(c, fr.f)[0])] if callee == "Transmitter._reset" else fr.calls_to(callee)
        nodes = {fr.node_of(c).id for c in cs}
        ck.check(bool(cs) and fr.cfg.every_path_from_passes(fr.cfg.entry.id, nodes), "RESET", f"S3.resets-{what.split()[-1]}", fr.f.short, fr.f.loc, f"reset always resets {what}", f"reset does not always reset {what}",
                 construct=f"{callee}()")
    for c in fr.calls_to("IState.reset"):
        args = [fr.sym.canon(a) for a in c.args]
        ck.check(args == ["self.exchange", "self.action_space", "self.broker"], "ARGFLOW", "S3.state-gets-new-objects", fr.f.short, fr.loc(c), "the state is re-wired to the new exchange and broker", f"state.reset({args})",
                 construct=stmt_text(c))
        ord_before(ck, fr, "S3.state-reset-after-rebuild", assigns_to_attr(fr, "broker"), [c], "the new broker", "state.reset")
    ob = assigns_to_attr(fr, "_observers")
    ck.check(bool(ob) and any(isinstance(s, ast.Assign) and ast.unparse(s.value) == "(self.state, self.exchange)" for s in ob), "ARGFLOW", "S3.observers-rebuilt", fr.f.short, fr.f.loc, "the observer tuple is rebuilt from the current state and exchange",
             "observers are not rebuilt from the current state/exchange", construct="self._observers = (self.state, self.exchange)")


def s4(ck, an):
    obs = an.prog.cls("Observer")
    subs = [c for c in an.prog.subclasses(obs) if not c.module.name.startswith("_fixture")]
    ck.floor("Observer subclasses", len(subs), 6)
    fo = an.fa("Observer.reset")
    inits = [c for c in fo.calls_named("__init__")]
    ok = False
    if len(inits) == 1:
        c_ = inits[0]
        stars = [fo.sym.canon(a.value) for a in c_.args if isinstance(a, ast.Starred)]
        kws = [fo.sym.canon(k.value) for k in c_.keywords if k.arg is None]
        ok = fo.sym.canon(c_.func) == "self.__init__" and len(c_.args) == 1 and stars == ["self._init_args"] and len(c_.keywords) == 1 and kws == ["self._init_kwargs"]      # value ids: the stored arguments may pass through locals
    ck.check(ok, "RESET", "S4.observer-reset-reruns-init", fo.f.short, fo.f.loc, "Observer.reset re-runs __init__ with the stored constructor arguments", "Observer.reset does not re-run __init__(*_init_args, **_init_kwargs)",
             construct="self.__init__(*self._init_args, **self._init_kwargs)")
    for a in ("last_update", "_nr_callbacks"):
        okk, st = _uncond_assigned(fo, a)
        ck.check(okk, "RESET", f"S4.observer-reset-{a}", fo.f.short, fo.f.loc, f"Observer.reset clears {a}", f"Observer.reset does not clear {a}", construct=f"self.{a} = ...")
    fn = an.fa("Observer.__new__")
    for a in ("_init_args", "_init_kwargs"):
        st = [s for s in all_stmts(fn) if isinstance(s, (ast.Assign, ast.AnnAssign)) and ast.unparse(s.targets[0] if isinstance(s, ast.Assign) else s.target).endswith("." + a)]
        want = "args" if a == "_init_args" else "kwargs"
        ck.check(any(ast.unparse(s.value) == want for s in st), "ARGFLOW", f"S4.stores-{a}", fn.f.short, fn.f.loc, f"__new__ stores the constructor {want}", f"{a} is not the constructor {want}", construct=f"observer.{a} = {want}")
    for c in subs:
        # attributes written by callbacks / __call__ / parse / helpers reachable from them within the class
        roots = [m for n, m in c.methods.items() if n.startswith("process_") or n in ("__call__", "parse", "_save_observation")]
        written = {}
        for m in roots:
            for e in an.fa(m).effects():
                if e.kind in "WMD" and an.owner_matches(e.owner, c.name) and isinstance(e.node, (ast.Attribute, ast.Subscript, ast.Call)):
                    base = e.node
                    written.setdefault(e.attr, []).append(m.short)
        if not written:
            continue
        # attributes (re)assigned by __init__ / reset along the MRO
        reinit = set()
        for k in an.prog.mro(c):
            for mn in ("__init__", "reset"):
                if mn in k.methods:
                    for e in an.fa(k.methods[mn]).effects():
                        if e.kind == "W" and e.sub is None and (e.owner == "?" or an.owner_matches(e.owner, c.name)):
                            reinit.add(e.attr)
        for attr, who in sorted(written.items()):
            ex = next((r for (cls, a), r in RESET_EXEMPT_OBS.items() if a == attr and an.owner_matches(cls, c.name)), None)
            if ex:
                ck.exempt("RESET:S4.observer-state-reinitialised", f"{c.name}.{attr}", ex)
                continue
            ck.check(attr in reinit, "RESET", "S4.observer-state-reinitialised", c.name, c.loc, f"{c.name}.{attr} (written by {sorted(set(who))}) is re-initialised by __init__/reset",
                     f"{c.name}.{attr} is written by {sorted(set(who))} but neither __init__ nor reset re-assigns it: it survives into the next episode", construct=f"{c.name}.{attr}")
    # subclasses that override reset call super().reset()
    for c in subs:
        if "reset" in c.methods:
            fa = an.fa(c.methods["reset"])
            sup = [x for x in fa.calls_named("reset") if ast.unparse(x.func).startswith("super().")]
            nodes = {fa.node_of(x).id for x in sup}
            ck.check(bool(sup) and fa.cfg.every_path_from_passes(fa.cfg.entry.id, nodes), "RESET", "S4.reset-chains-to-super", c.methods["reset"].short, c.methods["reset"].loc, f"{c.name}.reset always calls super().reset()",
                     f"{c.name}.reset does not always call super().reset()", construct="super().reset()")
    fi = an.fa("IState.reset")
    okk, st = _uncond_assigned(fi, "history")
    ck.check(okk and any(isinstance(s, ast.Assign) and ast.unparse(s.value) in ("dict()", "{}") for s in st), "RESET", "S4.state-history-cleared", fi.f.short, fi.f.loc, "IState.reset starts a fresh history",
             "IState.reset does not start a fresh history", construct="self.history = dict()")
    loops = [n for n in walk_function(fi.f.node) if isinstance(n, ast.For) and ast.unparse(n.iter) == "self.features"]
    ok = any(any(isinstance(x, ast.Call) and ast.unparse(x.func).endswith(".reset") and [ast.unparse(a) for a in x.args] == ["exchange", "action_space", "broker"] for x in ast.walk(l)) for l in loops)
    ck.check(ok, "RESET", "S4.features-reset", fi.f.short, fi.f.loc, "IState.reset resets every feature with the new exchange/space/broker", "IState.reset does not reset every feature", construct="feature.reset(exchange, action_space, broker)")
    ff = an.fa("Feature.__init__")
    okk, st = _uncond_assigned(ff, "history")
    ck.check(okk and any(isinstance(s, (ast.Assign, ast.AnnAssign)) and ast.unparse(s.value) in ("dict()", "{}") for s in st), "RESET", "S4.feature-history-cleared", ff.f.short, ff.f.loc, "Feature.__init__ (re-run at reset) starts a fresh history",
             "Feature.__init__ does not start a fresh history", construct="self.history = dict()")


def s5(ck, an):
    fn = an.fa("Transmitter._next")
    fr = an.fa("Transmitter._reset")
    written = {e.attr for e in fn.effects() if e.kind in "WMD" and e.owner == "Transmitter"}
    ck.floor("attributes written by Transmitter._next", len(written), 2)
    for a in sorted(written):
        ok, st = _uncond_assigned(fr, a)
        ck.check(ok, "RESET", "S5.transmitter-reset-reassigns", fr.f.short, fr.f.loc, f"_reset unconditionally re-assigns {a}", f"Transmitter.{a} is advanced by _next but not re-assigned by _reset on every path", construct=f"self.{a} = ...")
    for attr in ("_partition_latent", "_partition_nonlatent"):
        own_writers(ck, an, "S5.partitions-immutable", "Transmitter", attr, {"Transmitter._create_partitions", "Transmitter.__init__"}, min_sites=1)
    from rules import C04
    C04.partition_reads(ck, an, "S5.partitions-immutable-under-reads")      # reading a defaultdict partition with an absent key would add a key (a step of later episodes)
    for f in an.functions():
        for e in an.fa(f).effects():
            if e.attr in ("_events_latent", "_events_nonlatent") and e.kind in "MD":
                ck.fail("OWN", "S5.batches-not-mutated", f.short, e.loc, f"{f.short} mutates the batch {e.attr} in place: it is the transmitter's own partition list and is replayed in later episodes", construct=stmt_text(e.node))
    # partitions are rebuilt only when missing
    cp = fr.calls_to("Transmitter._create_partitions")
    for c in cp:
        sg = fr.syntactic_guards(c)
        ck.check(any(p[0] == "is" and "None" in (p[1], p[2]) and p[3] for p in sg), "GUARD", "S5.partitions-built-once", fr.f.short, fr.loc(c), "_reset builds partitions only if they do not exist yet", "_reset rebuilds partitions unconditionally",
                 construct=stmt_text(c))


def s6(ck, an):
    base = an.prog.cls("AbstractReward")
    subs = [c for c in an.prog.subclasses(base) if not c.module.name.startswith("_fixture")]
    ck.floor("reward classes", len(subs), 4)
    for c in subs:
        calc = c.methods.get("calculate")
        if calc is None:
            continue
        w = sorted({e.attr for e in an.fa(calc).effects() if e.kind in "WMD" and an.owner_matches(e.owner, c.name)})
        if not w:
            ck.ok("RESET", "S6.reward-state-reset", c.name, c.loc, f"{c.name}.calculate keeps no state", construct=f"{c.name}.calculate")
            continue
        rs = an.prog.lookup_method(c, "reset")
        re_attrs = {e.attr for e in an.fa(rs).effects() if e.kind == "W"} if rs is not None and rs.cls is not base else set()
        missing = [a for a in w if a not in re_attrs]
        ck.check(not missing, "RESET", "S6.reward-state-reset", c.name, c.loc, f"{c.name} resets the state it keeps ({w})", f"{c.name}.calculate writes {missing} but reset() does not re-assign it", construct=f"{c.name}.calculate")
    fr = an.fa("TradingEnv.reset")
    ck.check(bool(fr.calls_to("AbstractReward.reset")), "RESET", "S6.env-resets-reward", fr.f.short, fr.f.loc, "TradingEnv.reset calls reward.reset()", "TradingEnv.reset does not reset the reward", construct="self._reward.reset()")


def _on_self(node, m):
    """the written attribute hangs off the method's own `self`"""
    cur = node
    while isinstance(cur, (ast.Attribute, ast.Subscript, ast.Call)):
        cur = cur.func if isinstance(cur, ast.Call) else cur.value
    return isinstance(cur, ast.Name) and bool(m.params) and cur.id == m.params[0]


def s7(ck, an):
    n = 0
    for f in an.functions():
        a = f.node.args
        pos = a.posonlyargs + a.args
        defaults = [None] * (len(pos) - len(a.defaults)) + list(a.defaults)
        for p, d in list(zip(pos, defaults)) + list(zip(a.kwonlyargs, a.kw_defaults)):
            if d is None:
                continue
            loc = f"{f.module.relpath}:{d.lineno}"
            if isinstance(d, (ast.List, ast.Dict, ast.Set)) or (isinstance(d, ast.Call) and ast.unparse(d.func) in ("list", "dict", "set", "defaultdict", "deque", "collections.defaultdict")):
                ck.fail("ALIAS", "S7.no-mutable-default", f.short, loc, f"mutable default {p.arg}={ast.unparse(d)} is shared by every call / environment", construct=f"{p.arg}={ast.unparse(d)}")
                continue
            if isinstance(d, ast.Call):
                r = an.prog.resolve_name_expr(f.module, d.func)
                if r is not None and getattr(r, "module", None) is not None and r.__class__.__name__ == "ClassInfo":
                    n += 1
                    reason = DEFAULT_OK.get((f.short, p.arg))
                    if reason:
                        # the premise of the exemption (stateless / immutable) is itself decided: no method of the instance's class, of its
                        # bases or of its subclasses other than __init__ writes an attribute of the instance
                        writers = []
                        for k in an.prog.mro(r) + an.prog.subclasses(r):
                            for mn, m_ in k.methods.items():
                                if mn in ("__init__", "__new__"):
                                    continue
                                for e in an.fa(m_).effects():
                                    if e.kind in "WMD" and isinstance(e.node, (ast.Attribute, ast.Subscript, ast.Call)) and (e.owner == k.name or an.owner_matches(e.owner, r.name)) and _on_self(e.node, m_):
                                        writers.append(f"{k.name}.{mn} writes self.{e.attr} ({e.loc})")
                        stateful_ok = (f.short, p.arg) == ("TradingEnv.__init__", "state")
                        ck.check(not writers or stateful_ok, "ALIAS", "S7.shared-default-is-stateless", f.short, loc, f"the shared default {p.arg}={ast.unparse(d)} keeps no state after construction",
                                 f"the default {p.arg}={ast.unparse(d)} is ONE object shared by every environment built with the default, and it keeps state: {writers[:3]}", construct=f"{p.arg}={ast.unparse(d)}")
                        ck.exempt("ALIAS:S7.no-shared-default-object", f"{f.short}({p.arg}={ast.unparse(d)})", reason)
                        ck.ok("ALIAS", "S7.no-shared-default-object", f.short, loc, f"reviewed default instance {p.arg}={ast.unparse(d)}: {reason}", construct=f"{p.arg}={ast.unparse(d)}")
                    else:
                        ck.fail("ALIAS", "S7.no-shared-default-object", f.short, loc, f"default argument {p.arg}={ast.unparse(d)} is one {r.name} instance shared by every environment built with the default",
                                construct=f"{p.arg}={ast.unparse(d)}")
    ck.floor("default arguments that are in-package instances", n, 6)
