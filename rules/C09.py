"""C09 — Insolvency safety. Decides S1..S5 of DESIGN §4/C09."""
import ast
from sa.lib import *
from sa.exc import ExcAnalysis
from sa.dataflow import cmp_key

TECHNIQUE = 'static analysis (ast): interprocedural may-raise analysis of EndOfEpisodeError with handler matching and constant-argument refinement, guard rules (CMP normal form of NLV <= 0, done-latch typestate), quote-delivery clauses shared with C14 / C18'
EXPLANATION = (
    "Decides the structural clauses of C09: (S1) Broker.net_liquidation_value raises EndOfEpisodeError exactly under "
    "`raise_if_broke and nlv <= 0` (non-strict), default raise_if_broke=True, and the raise guards every return; "
    "(S2) in Broker.rebalance a valuation that may raise EndOfEpisodeError dominates make_trades and every transact and nothing "
    "before it writes a non-cash position or the track record; (S3) TradingEnv.step catches EndOfEpisodeError around "
    "Broker.rebalance and unconditionally sets _done=True; (S4) the `_done` guard dominates every effect of step and _done is "
    "cleared only by reset; (S5) no call chain from TradingEnv.step to `raise EndOfEpisodeError` escapes step (interprocedural "
    "may-raise over the resolved call graph with CHA). Does not decide which price paths reach insolvency."
)
DECIDED = ["S1 valuation raises for NLV<=0 by default", "S2 insolvent decision executes nothing", "S3 and ends the episode",
           "S4 ended episodes refuse steps until reset", "S5 the insolvency step returns done rather than failing"]
NOT_DECIDED = ["which price paths lead to insolvency (numeric)", "user-defined rewards/observers outside the package"]
ASSUMPTIONS = ["observer-dispatch chains IEvent.notify -> Observer.__call__ -> ... -> holdings_weights are infeasible with in-package observers (no class has both a process_* callback and weight features); named exemption, kept alive by a fixture"]
E = "EndOfEpisodeError"


def run(ck, an, tier):
    from rules import C04 as _c04x, ledger as _ledgerx
    from sa.report import Renamed as _Rx
    _c04x.env_side(_ledgerx._Only(_Rx(ck, "C04:"), {"batches-not-mutated", "latent-batch-consumed"}), an)      # every episode is delivered the same quotes: the batches are the transmitter's own lists and are never emptied in place
    from sa.report import Renamed
    from rules import ledger
    d = Renamed(ck, "C05:")
    ledger.marking_equations(d, an, {"equations", "margin", "guards"})      # the NLV tested is the liquidation-side, marked-to-market value
    ledger.valuation_formulas(d, an, {"nlv"})
    # the adverse quote must reach the valuation: every given price becomes a quote, and every quote for a live book updates it
    from rules import C18, C14
    C18.s1(ledger._Only(Renamed(ck, "C18:"), {"every-price-row", "every-price-column", "quote-recorded", "prices-with-configured-spread", "prices-table-untouched"}), an)
    C14.s2(Renamed(ck, "C14:"), an)
    C14.s3(Renamed(ck, "C14:"), an)
    silent(ck, an)
    exc_class(ck, an)
    s1(ck, an)
    s2(ck, an)
    s3(ck, an)
    s4(ck, an)
    s5(ck, an, tier)


def exc_class(ck, an):
    c = an.prog.cls("EndOfEpisodeError")
    ck.check(not c.bases and c.ext_bases in (["Exception"], ["builtins.Exception"]), "MRO", "S3.signal-is-its-own-exception", "EndOfEpisodeError", c.loc, "EndOfEpisodeError derives directly from Exception (no other handler in the package can swallow it)",
             f"EndOfEpisodeError bases: {[b.name for b in c.bases] + c.ext_bases}: handlers for that base (ValueError, AttributeError, NotImplementedError ...) would swallow the end-of-episode signal", construct="class EndOfEpisodeError(Exception)")
    # no handler in the package catches it (or Exception / bare) except step's
    for f in an.functions():
        for n in ast.walk(f.node):
            if isinstance(n, ast.ExceptHandler):
                names = handler_names(n)
                if names is None or any(x in ("Exception", "BaseException", "EndOfEpisodeError") for x in names):
                    ck.check(all(g.short == "TradingEnv.step" for g in an.attributed(f)), "EXC", "S3.only-step-catches-the-signal", f.short, f"{f.module.relpath}:{n.lineno}", "only TradingEnv.step catches the end-of-episode signal",
                             f"{f.short} has a handler for {names or 'everything'}: an insolvency raised below it would be swallowed", construct="except " + (ast.unparse(n.type) if n.type else ""))


def silent(ck, an):
    """No caller opts out of the insolvency signal (raise_if_broke=False)."""
    n = 0
    for f, node in an.callers_of("Broker.net_liquidation_value"):
        if not isinstance(node, ast.Call) or f.module.name.startswith("_fixture"):
            continue
        n += 1
        vals = list(node.args[:1]) + [k.value for k in node.keywords if k.arg == "raise_if_broke"]
        off = [v for v in vals if not (isinstance(v, ast.Constant) and v.value is True)]
        if off and f.qual in new_api_functions(an):
            continue        # an accessor new to the inventory that no reviewed function reaches: a query the user makes, not a step of the episode
        ck.check(not off, "ARGFLOW", "S1.no-silent-valuation", f.short, f"{f.module.relpath}:{node.lineno}", f"{f.short} values the account with the raising default",
                 f"{f.short} calls net_liquidation_value({ast.unparse(off[0]) if off else ''}): a non-positive NLV is returned silently instead of ending the episode", construct=stmt_text(node))
    ck.floor("callers of Broker.net_liquidation_value", n, 6)


def s1(ck, an):
    fa = an.fa("Broker.net_liquidation_value")
    subj = fa.f.short
    d = fa.f.param_default("raise_if_broke")
    ck.check(isinstance(d, ast.Constant) and d.value is True, "GUARD", "S1.default-raises", subj, fa.f.loc,
             "raise_if_broke defaults to True", f"raise_if_broke default is {ast.unparse(d) if d is not None else 'missing'}, must be True",
             construct="raise_if_broke default")
    rs = raises_in(fa, E)
    if not rs:
        ck.fail("GUARD", "S1.raise-present", subj, fa.f.loc, f"no `raise {E}` in {subj}", construct="missing:raise EndOfEpisodeError")
        return
    rets = [r for r in returns_in(fa) if r.value is not None]
    for r in rs:
        preds = fa.guard_predicates(r)
        rels = rel_atoms(preds)
        truthy = [p for p in preds if p[0] == "truthy"]
        # the relational guard must be  X <= 0  with X the returned value
        ret_polys = [fa.sym.ev(x.value) for x in rets]
        good = False
        why = f"guards of the raise: {[cmp_key(p) for p in preds]}"
        for a in rels:
            p = a[4]
            if a[1] == "<=" and any(p == rp for rp in ret_polys):
                good = True
            elif a[1] == "<" and any(p == rp for rp in ret_polys):
                why = "the raise is guarded by `nlv < 0` (strict): NLV == 0 is returned instead of raising; " + why
        ck.check(good, "CMP", "S1.nonpositive-raises", subj, fa.loc(r),
                 "raise EndOfEpisodeError is guarded by `<returned NLV> <= 0` (zero or negative)", why, construct=stmt_text(r))
        extra = [p for p in preds if not (p[0] == "rel") and not (p[0] == "truthy" and p[1] == "raise_if_broke" and p[2])]
        ck.check(not extra and any(p[1] == "raise_if_broke" and p[2] for p in truthy) or (not extra and not truthy), "GUARD", "S1.only-opt-out", subj, fa.loc(r),
                 "the only way to suppress the raise is raise_if_broke=False", f"additional conditions guard the raise: {[cmp_key(p) for p in extra]}",
                 construct=stmt_text(r))
        more_rel = [a for a in rels if not any(a[4] == rp for rp in ret_polys)]
        ck.check(not more_rel, "GUARD", "S1.no-extra-condition", subj, fa.loc(r), "no further relational condition weakens the raise",
                 f"extra relational guards: {[cmp_key(a) for a in more_rel]}", construct=stmt_text(r))
    # every return of a value is preceded by the insolvency test
    tests = [enclosing_stmt(r) for r in rs]
    guard_tests = []
    for r in rs:
        for n, lab in fa.guards(r):
            guard_tests.append(n.ast)
    ord_before(ck, fa, "S1.test-before-return", guard_tests, rets, "the insolvency test", "return of the NLV", rule="ORD")


def s2(ck, an):
    fa = an.fa("Broker.rebalance")
    subj = fa.f.short
    ex = ExcAnalysis(an, E)
    raising = []
    for node, tgs, ext, kind in fa.calls():
        if id(node) in an.res.byname:
            continue
        for g in tgs:
            chs = ex.escapes(g)
            ok_ch = []
            for ch in chs:
                if ch.cond is not None and isinstance(node, ast.Call):
                    arg = ex._arg_for(node, g, ch.cond)
                    if isinstance(arg, ast.Constant) and not arg.value:
                        continue
                ok_ch.append(ch)
            if ok_ch:
                raising.append(node)
                break
    transacts = fa.calls_to("Broker.transact")
    makes = fa.calls_to("Rebalancing.make_trades")
    ck.floor("transact/make_trades calls in Broker.rebalance", len(transacts) + len(makes), 0)
    # a raising valuation that is not make_trades itself and precedes it
    vals = [n for n in raising if n not in makes and n not in transacts]
    ord_before(ck, fa, "S2.valuation-before-trades", vals, makes + transacts,
               "a valuation that raises EndOfEpisodeError when NLV <= 0", "make_trades / transact")
    # nothing before the first raising valuation writes positions or the record
    if vals:
        v0 = sorted(vals, key=lambda n: (n.lineno, n.col_offset))[0]
        for node, tgs, ext, kind in fa.calls():
            if node is v0 or not fa.dominates(node, v0) or (node.lineno, node.col_offset) >= (v0.lineno, v0.col_offset):
                continue
            if any(node is x for x in ast.walk(v0)):
                continue
            for g in tgs:
                for e in an.transitive_effects(g):
                    if e.kind not in "WMD":
                        continue
                    if e.attr == "_holdings_quantity" and e.sub is not None:
                        key = ast.unparse(e.sub)
                        ck.check("base_currency" in key, "EFFECT", "S2.no-position-write-before-valuation", subj, e.loc,
                                 f"{g.short} (called before the valuation) writes only the cash entry",
                                 f"{e.func.short} writes _holdings_quantity[{key}] before the insolvency valuation", construct=stmt_text(e.node))
                    elif e.attr in ("_time", "_rebalancing") and an.owner_matches(e.owner, "TrackRecord"):
                        ck.fail("EFFECT", "S2.no-record-write-before-valuation", subj, e.loc,
                                f"{e.func.short} writes TrackRecord.{e.attr} before the insolvency valuation", construct=stmt_text(e.node))


def s3(ck, an):
    fa = an.fa("TradingEnv.step")
    subj = fa.f.short
    calls = fa.calls_to("Broker.rebalance")
    if not calls:
        ck.fail("EXC", "S3.rebalance-guarded", subj, fa.f.loc, "TradingEnv.step does not call Broker.rebalance", construct="missing:rebalance")
        return
    ex = ExcAnalysis(an, E)
    for c in calls:
        hs = enclosing_try_handlers(c, fa.f.node)
        catching = [h for h in hs if handler_names(h) is None or any(t in ex.anc for t in handler_names(h))]
        if not ck.check(bool(catching), "EXC", "S3.rebalance-guarded", subj, fa.loc(c),
                        "Broker.rebalance is called inside try/except EndOfEpisodeError",
                        "Broker.rebalance is not enclosed by a handler that catches EndOfEpisodeError", construct=stmt_text(c)):
            continue
        h = catching[0]
        names = handler_names(h)
        ck.check(names is not None and set(names) <= {E}, "EXC", "S3.handler-exact", subj, fa.loc(h),
                 "the handler names exactly EndOfEpisodeError",
                 f"handler catches {names}: errors other than insolvency would be swallowed as end of episode (or insolvency is not caught by name)",
                 construct="except " + (ast.unparse(h.type) if h.type else ""))
        # handler body sets self._done = True unconditionally (first-level statement)
        sets = [s for s in h.body if isinstance(s, ast.Assign) and any(isinstance(t, ast.Attribute) and t.attr == "_done" for t in s.targets)]
        good = any(isinstance(s.value, ast.Constant) and s.value.value is True for s in sets)
        if not good:
            # flag form: the handler sets a local flag (False before the try) and `self._done = True` runs exactly under that flag
            flags = [s.targets[0].id for s in h.body if isinstance(s, ast.Assign) and len(s.targets) == 1 and isinstance(s.targets[0], ast.Name) and const_value(s.value) is True]
            for fl_ in flags:
                other = [d for d in fa.rd.defs if d.var == fl_ and d.kind == "assign" and not any(d.ast is x for x in h.body)]
                dones = [s for s in all_stmts(fa) if isinstance(s, ast.Assign) and any(isinstance(t, ast.Attribute) and t.attr == "_done" for t in s.targets) and const_value(s.value) is True]
                for dn in dones:
                    gp = fa.syntactic_guards(dn)
                    iff_ = enclosing_if(dn)
                    if len(other) == 1 and const_value(other[0].value) is False and len(gp) == 1 and iff_ is not None and isinstance(iff_.test, ast.Name) and iff_.test.id == fl_ and any(dn is x for x in iff_.body):
                        good = True
        ck.check(good, "EFFECT", "S3.handler-ends-episode", subj, fa.loc(h), "the handler sets _done = True on every path",
                 "the EndOfEpisodeError handler does not unconditionally set self._done = True", construct="except-body: " + "; ".join(ast.unparse(s) for s in h.body))


def s4(ck, an):
    fa = an.fa("TradingEnv.step")
    subj = fa.f.short
    # the guard
    guards = []
    for r in raises_in(fa):
        preds = fa.guard_predicates(r)
        if len(preds) == 1 and preds[0][0] == "truthy" and preds[0][1] == "self._done" and preds[0][2]:
            for n, lab in fa.guards(r):
                guards.append((n, r))
    if not guards:
        ck.fail("GUARD", "S4.done-guard", subj, fa.f.loc, "no `if self._done: raise` guard in step", construct="missing:if self._done: raise")
    else:
        gnode, gr = guards[0]
        ck.ok("GUARD", "S4.done-guard", subj, fa.loc(gr), "`if self._done: raise` present", construct=stmt_text(gr))
        # every effect site (call / store) of step is dominated by the guard test
        bad = []
        n_sites = 0
        for s in effect_sites(fa):
            node = fa.cfg.node_of(s)
            if node is None:
                continue
            if node.id == gnode.id or any(s is x for x in ast.walk(gr)):
                continue
            n_sites += 1
            if not fa.cfg.dominates(gnode.id, node.id):
                bad.append(s)
        ck.check(not bad, "ORD", "S4.guard-first", subj, fa.loc(gr), f"the guard dominates all {n_sites} effect sites of step",
                 f"effects not dominated by the done-guard: {[stmt_text(b)[:60] + ' @' + str(b.lineno) for b in bad[:4]]}",
                 construct=stmt_text(bad[0]) if bad else stmt_text(gr))
    # writers of _done and the values they store
    expected = {"TradingEnv.__init__": {None}, "TradingEnv.reset": {False}, "TradingEnv.step": {True}, "TradingEnv._process_nonlatent_events": {True}}
    sites = own_writers(ck, an, "S4.done-writers", "TradingEnv", "_done", set(expected), min_sites=3)
    for e in sites:
        st = enclosing_stmt(e.node)
        val = st.value if isinstance(st, (ast.Assign, ast.AnnAssign)) else None
        v = const_value(val)
        exp = expected.get(e.func.short)
        if exp is None:
            continue
        ck.check(v in exp, "OWN", "S4.done-values", e.func.short, e.loc, f"{e.func.short} stores _done = {v}",
                 f"{e.func.short} stores _done = {ast.unparse(val) if val is not None else '?'}; only reset may clear the flag and only to the constants {exp}",
                 construct=stmt_text(e.node))
    # reset clears it
    far = an.fa("TradingEnv.reset")
    clears = [s for s in assigns_to_attr(far, "_done") if isinstance(s, ast.Assign) and const_value(s.value) is False]
    ck.check(bool(clears), "RESET", "S4.reset-clears-done", "TradingEnv.reset", far.f.loc, "reset sets _done = False",
             "reset does not clear _done", construct="missing:self._done = False")


EXEMPT_EDGES = {("IEvent.notify", "__call__")}


def s5(ck, an, tier):
    fa = an.fa("TradingEnv.step")
    subj = fa.f.short
    ex = ExcAnalysis(an, E, skip_edges=EXEMPT_EDGES)
    chains = ex.escapes(fa.f)
    # the done-guard raise at the top of step is the specified refusal (S4), not an escape of insolvency
    own = [c for c in chains if len(c.steps) == 1]
    for c in own:
        ck.ok("EXC", "S5.refusal-is-specified", subj, c.steps[0][1], "step's own raise is the refusal of S4", construct="raise in step")
    esc = [c for c in chains if len(c.steps) > 1]
    seen_sites = set()
    for c in esc:
        site_fn, site_loc, site_txt = c.steps[0]
        # find the statement in step for the construct key
        line = int(site_loc.split(":")[-1])
        st = None
        for s in all_stmts(fa):
            if s.lineno <= line <= getattr(s, "end_lineno", s.lineno) and not isinstance(s, (ast.If, ast.Try, ast.For, ast.While, ast.With)):
                st = s
        construct = site_txt      # the escaping call itself (not the statement around it: locals it is assigned to / returned with are irrelevant)
        if construct in seen_sites:
            continue
        seen_sites.add(construct)
        ck.fail("EXC", "S5.no-escape", subj, site_loc,
                f"EndOfEpisodeError can escape TradingEnv.step through `{site_txt}` -> {c.steps[-1][0]} ({c.steps[-1][1]})",
                construct=construct, witness=c.render())
    if not esc:
        ck.ok("EXC", "S5.no-escape", subj, fa.f.loc, "no call chain from step to `raise EndOfEpisodeError` escapes step")
    if ex.skipped:
        ck.exempt("EXC:S5.no-escape", "IEvent.notify -> Observer.__call__", ASSUMPTIONS[0])
        ck.note(f"exempt observer-dispatch edges skipped: {len(ex.skipped)}")
    # positive control: the fixture observer with weight features keeps the exempt edge family alive
    exf = ExcAnalysis(an, E)
    try:
        notify = an.prog.func("IEvent.notify")
        alive = any(len(c.steps) > 1 for c in exf.escapes(notify))
    except AnalysisError:
        raise
    ck.check(alive, "EXC", "S5.control-dispatch-edge", "IEvent.notify", notify.loc,
             "positive control: without the exemption the dispatch edge does reach a raising valuation (CHA)",
             "positive control failed: dispatch edge no longer reaches a raising valuation; the exemption is vacuous and must be reviewed",
             construct="control")
