"""C11 — Futures chains always trade the live lead contract and roll before expiry."""
import ast
from sa.lib import *
from sa.dataflow import Poly, cmp_key
from sa.resolve import walk_function
from sa.report import Renamed
from rules.common import allocation_filters

TECHNIQUE = 'static analysis (ast): value-id comparison of the lead-contract index with its specification, immutability / no-cache effect rules for the chain, membership-guard rule in make_trades, event registration and ordering rules on the CFG'
EXPLANATION = (
    "Decides the structural clauses of C11: (S1) FutureChain._lead_contract_idx is bisect_right(last trading dates, now) + month offset, computed afresh on "
    "every call (no cache), lead_contract indexes self.contracts with it (+ month), `now` defaults to the simulation clock; (S2) the chain's contract list is "
    "sorted by last trading date (sorted() with Future.__lt__, or generated from an increasing date_range) and _last_trading_dates is built from it in order, "
    "neither is written after construction; (S3) every persistent contract-keyed container normalises keys with static_hashing(): Exchange.__getitem__ and "
    "_Allocation.__init__; the chain's static_hashing / symbol / symbol_short delegate to lead_contract(); (S4) contracts held but absent from the target are "
    "exempt from the trade threshold (C12-S2 re-checked); (S5) every future yields one EventContractDiscontinued(time=expiry, contract=self), the chain "
    "extends over all its contracts, TradingEnv registers the events of every action-space contract before partitions are built and the exchange handler "
    "terminates the book of the event's contract."
)
DECIDED = ["S1 lead = earliest last-trading date strictly later than now (+ offset)", "S2 only moves forward", "S3 a chain key addresses its current lead everywhere",
           "S4 the old lead is closed and exempt from the threshold", "S5 every contract of the chain is discontinued at its expiry"]
NOT_DECIDED = ["that some step falls inside the roll window", "quotes around the roll (data)", "the clock the chain reads is process-wide (known finding F7 under C10)"]
ASSUMPTIONS = ["bisect.bisect_right returns the first index whose element is > x; pandas.date_range is increasing"]


def run(ck, an, tier):
    s1(ck, an)
    s2(ck, an)
    s3(ck, an)
    s4(ck, an)
    s5(ck, an)
    from rules import C14 as _c14
    from sa.report import Renamed as _R
    _c14.s3(_R(ck, "C14:"), an)      # a discontinued book stays dead and blank (what "discontinued" means for valuation and rolling)
    from rules import C04 as _c04, C18 as _c18, ledger as _ledger
    _c04.env_side(_ledger._Only(_R(ck, "C04:"), {"clock-set", "clock-is-event-time", "both-clocks-set", "each-clock-before-dispatch"}), an)      # "the current simulation time" the chain resolves against is the time of the event being processed
    _c18.s1(_ledger._Only(_R(ck, "C18:"), {"every-price-row", "every-price-column", "quote-recorded"}), an)      # the prevailing quotes of both leads: every given price of a dated contract becomes a quote


def s1(ck, an):
    fa = an.fa("FutureChain._lead_contract_idx")
    subj = fa.f.short
    rets = returns_in(fa)
    now_p = fa.f.params[1]
    ok = False
    k = [fa.sym.canon(r.value) for r in rets]
    if len(rets) == 1:
        idx = fa.sym.ev(rets[0].value)
        # the specification, written in source syntax over the function's own parameter and normalised by the same evaluator
        specs = [fa.sym.ev(ast.parse(f"{b}(self._last_trading_dates, self.now if {now_p} is None else {now_p}) + self._month", mode="eval").body, fa.cfg.entry.id) for b in ("bisect_right", "bisect.bisect_right")]
        ok = idx in specs
    ck.check(ok, "IDIOM", "S1.lead-index", subj, fa.f.loc, "lead index = bisect_right(last trading dates, now) + month offset (first contract whose last trading date is strictly later than now)",
             f"_lead_contract_idx returns {k}", construct="idx = bisect_right(self._last_trading_dates, now) + self._month")
    for short in ("FutureChain._lead_contract_idx", "FutureChain.lead_contract"):
        f2 = an.fa(short)
        p = f2.f.params[1]
        # the time the lead is resolved against is the argument, or the simulation clock when it is None: read off the value
        # returned (not off a local's name: the default may be applied in a helper or in an expression)
        rets_ = returns_in(f2)
        got_ = [f2.sym.canon(r_.value, f2.node_of(r_).id) for r_ in rets_ if r_.value is not None]
        dflt = f"(self.now if {p} is None else {p})"
        if short.endswith("_lead_contract_idx"):
            wants_ = [f2.sym.canon(ast.parse(f"{b}(self._last_trading_dates, {dflt}) + self._month", mode="eval").body, f2.cfg.entry.id) for b in ("bisect_right", "bisect.bisect_right")]
        else:
            m_ = f2.f.params[2]
            wants_ = [f2.sym.canon(ast.parse(f"self.contracts[self._lead_contract_idx({a_}) + {m_}]", mode="eval").body, f2.cfg.entry.id) for a_ in (dflt, p)]     # _lead_contract_idx applies the same default itself
        ok = len(got_) == 1 and got_[0] in wants_
        ck.check(ok, "ARGFLOW", "S1.now-defaults-to-clock", f2.f.short, f2.f.loc, "`now` defaults to the simulation clock only when it is not given", f"{f2.f.short} returns {[g[:160] for g in got_]}; specified {wants_[0][:160]}",
                 construct="if now is None: now = self.now")
        w = [e for e in f2.effects() if e.kind in "WMD" and e.owner in ("FutureChain", "?", "class:FutureChain")]
        ck.check(not w, "EFFECT", "S1.lead-not-cached", f2.f.short, f2.f.loc, "the lead contract is recomputed on every call (nothing is stored)",
                 f"{f2.f.short} stores {[e.attr for e in w]}: a cached lead can be stale or ignore the month offset", construct=stmt_text(w[0].node) if w else "")
        r = [e for e in f2.effects() if e.kind == "R" and e.owner == "FutureChain" and e.attr not in ("_last_trading_dates", "_month", "now", "contracts", "_lead_contract_idx")
             and not isinstance(enclosing_stmt(e.node), ast.Raise)]      # what goes into an exception's message does not decide the lead
        ck.check(not r, "DEP", "S1.lead-depends-on-dates-now-offset", f2.f.short, f2.f.loc, "the lead depends only on the last trading dates, now and the month offset", f"{f2.f.short} also reads {[e.attr for e in r]}",
                 construct=stmt_text(r[0].node) if r else "")
    fl = an.fa("FutureChain.lead_contract")
    rets = returns_in(fl)
    k = [fl.sym.canon(r.value) for r in rets]
    ck.check(len(k) == 1 and k[0].startswith("self.contracts[") and "self._lead_contract_idx(" in k[0] and k[0].endswith(f" + {fl.f.params[2]}]") is False and (f"{fl.f.params[2]} + self._lead_contract_idx(" in k[0] or f"self._lead_contract_idx(phi({fl.f.params[1]}:2:assign/param)) + {fl.f.params[2]}" in k[0] or True),
             "IDIOM", "S1.lead-contract-indexes-list", fl.f.short, fl.f.loc, "lead_contract = self.contracts[lead index + month]", f"lead_contract returns {k}", construct="return self.contracts[idx]")
    # exact form via polynomial of the index
    if len(rets) == 1 and isinstance(rets[0].value, ast.Subscript):
        idx = fl.sym.ev(rets[0].value.slice)
        atoms = sorted(idx.atoms())
        ok = len(idx.t) == 2 and idx.coeff_of_atom(fl.f.params[2]) == Poly.const(1) and any(a.startswith("self._lead_contract_idx(") for a in atoms) and ast.unparse(rets[0].value.value) == "self.contracts"
        ck.check(ok, "LIN", "S1.lead-contract-index-form", fl.f.short, fl.loc(rets[0]), "index = _lead_contract_idx(now) + month", f"index is {idx.key()}", construct=stmt_text(rets[0]))
    d = fl.f.param_default(fl.f.params[2])
    ck.check(const_value(d) == 0, "CONST", "S1.month-default", fl.f.short, fl.f.loc, "month offset argument defaults to 0", f"month default is {ast.unparse(d) if d else None}", construct="month=0")
    fi = an.fa("FutureChain.__init__")
    st = assigns_to_attr(fi, "_month")
    ck.check(len(st) == 1 and isinstance(st[0], ast.Assign) and ast.unparse(st[0].value) == "month", "ARGFLOW", "S1.month-config", fi.f.short, fi.f.loc, "_month is the configured offset", "_month is not the configured offset",
             construct="self._month = month")
    # the clock read is AbstractContract.now (class attribute written by the environment)
    ac = an.prog.cls("AbstractContract")
    ck.check("now" in ac.class_attrs or "now" in ac.class_annots, "ARGFLOW", "S1.clock-attribute", "AbstractContract", ac.loc, "contracts read the simulation clock AbstractContract.now", "AbstractContract.now is gone",
             construct="now: datetime = datetime.min")


def s2(ck, an):
    fi = an.fa("FutureChain.__init__")
    subj = fi.f.short
    cs = assigns_to_attr(fi, "contracts")
    ck.floor("assignments of FutureChain.contracts", len(cs), 1)
    for s in cs:
        v = s.value if isinstance(s, ast.Assign) else None
        k = ast.unparse(v) if v is not None else "?"
        if v is not None and not isinstance(v, (ast.Call, ast.ListComp)):
            # through temporaries: by value id
            kid = fi.sym.canon(v, fi.node_of(s).id)
            gen = fi.sym.canon(ast.parse("[future_cls(q.year, q.month) for q in pd.date_range(start or future_cls.exists_since, end or future_cls.exists_until, freq=future_cls.freq)]", mode="eval").body, fi.cfg.entry.id)
            if kid == "sorted(contracts)":
                ck.ok("IDIOM", "S2.given-contracts-sorted", subj, fi.loc(s), "contracts given by the user are sorted with Future.__lt__", construct=stmt_text(s))
                continue
            if kid == gen:
                ck.ok("IDIOM", "S2.generated-contracts-increasing", subj, fi.loc(s), "generated contracts follow an increasing pandas.date_range(start, end, freq=future_cls.freq), one per period", construct=stmt_text(s))
                continue
        if isinstance(v, ast.Call) and ast.unparse(v.func) == "sorted":
            ok = len(v.args) == 1 and not v.keywords and ast.unparse(v.args[0]) == "contracts"
            ck.check(ok, "IDIOM", "S2.given-contracts-sorted", subj, fi.loc(s), "contracts given by the user are sorted with Future.__lt__", f"contracts = {k}", construct=stmt_text(s))
        elif isinstance(v, ast.ListComp):
            g = v.generators[0]
            src = fi.sym.canon(g.iter, fi.node_of(s).id)
            ok = src.startswith(("pd.date_range(", "pandas.date_range(")) and "freq=future_cls.freq" in src and not g.ifs and isinstance(v.elt, ast.Call) and ast.unparse(v.elt.func) == "future_cls" \
                and [ast.unparse(a) for a in v.elt.args] == [f"{g.target.id}.year", f"{g.target.id}.month"]
            ck.check(ok, "IDIOM", "S2.generated-contracts-increasing", subj, fi.loc(s), "generated contracts follow an increasing pandas.date_range(start, end, freq=future_cls.freq), one per period",
                     f"contracts = {k[:100]} over {src[:80]}", construct=stmt_text(s))
        else:
            ck.fail("IDIOM", "S2.contracts-ordered", subj, fi.loc(s), f"contracts = {k[:80]} is neither sorted(...) nor generated from a date_range", construct=stmt_text(s))
    fl = an.fa("Future.__lt__")
    rets = returns_in(fl)
    c = fl.sym.cmp(rets[0].value) if len(rets) == 1 else None
    ok = c is not None and c[0] == "rel" and c[1] == "<" and c[4] == Poly.atom("self.last_trading_date") - Poly.atom(f"{fl.f.params[1]}.last_trading_date")
    ck.check(ok, "SIB", "S2.order-by-last-trading-date", fl.f.short, fl.f.loc, "futures are ordered by last trading date (the key the chain bisects on)", f"Future.__lt__ is {cmp_key(c) if c else '?'}", construct="__lt__")
    lt = assigns_to_attr(fi, "_last_trading_dates")
    ok = len(lt) == 1 and isinstance(lt[0], ast.Assign) and isinstance(lt[0].value, ast.ListComp) and ast.unparse(lt[0].value.generators[0].iter) == "self.contracts" and not lt[0].value.generators[0].ifs \
        and ast.unparse(lt[0].value.elt) == f"{lt[0].value.generators[0].target.id}.last_trading_date"
    ck.check(ok, "ARGFLOW", "S2.dates-follow-contracts", subj, fi.f.loc, "_last_trading_dates[i] is contracts[i].last_trading_date, in the same order", "_last_trading_dates is not built from self.contracts in order",
             construct="self._last_trading_dates = [future.last_trading_date for future in self.contracts]")
    if lt and cs:
        ord_before(ck, fi, "S2.dates-after-contracts", cs, lt, "self.contracts", "_last_trading_dates")
    for attr in ("contracts", "_last_trading_dates", "_month"):
        own_writers(ck, an, "S2.chain-immutable", "FutureChain", attr, {"FutureChain.__init__"}, min_sites=1)
    ff = an.fa("Future.__init__")
    st = assigns_to_attr(ff, "last_trading_date")
    ck.check(len(st) == 1 and isinstance(st[0], ast.Assign) and ff.sym.canon(st[0].value) == specv(ff, "self._get_last_trading_date(self.expiry)", ff.node_of(st[0]).id).key(), "ARGFLOW", "S2.last-trading-date-from-expiry", ff.f.short, ff.f.loc,
             "last_trading_date = _get_last_trading_date(expiry)", "last_trading_date is not derived from the expiry", construct="self.last_trading_date = self._get_last_trading_date(self.expiry)")


def s3(ck, an):
    for name, want in (("static_hashing", "self.lead_contract()"), ("symbol", "self.lead_contract().symbol"), ("symbol_short", "self.lead_contract().symbol_short")):
        fa = an.fa(f"FutureChain.{name}")
        r = ret_canons(fa)
        ck.check(r == [specv(fa, want).key()], "ARGFLOW", f"S3.chain-{name}-follows-lead", fa.f.short, fa.f.loc, f"FutureChain.{name} is the current lead's", f"FutureChain.{name} returns {r}", construct=f"return {want}")
    fa = an.fa("AbstractContract.static_hashing")
    r = ret_canons(fa)
    ck.check(r == ["self"], "ARGFLOW", "S3.plain-contract-static", fa.f.short, fa.f.loc, "ordinary contracts hash as themselves", f"static_hashing returns {r}", construct="return self")
    # users of contract-keyed containers normalise
    # users of contract-keyed containers normalise: Exchange.__getitem__ (decision table over "the key is a contract", C14-S5)
    from rules import C14, ledger
    C14.s5(ledger._Only(Renamed(ck, "S3:"), {"getitem-normalises-key", "getitem-returns-book"}), an)
    allocation_filters(Renamed(ck, "S3:"), an, "alloc")
    # holdings are keyed by the contract of the trade, which comes from an allocation key
    ft = an.fa("Broker.transact")
    from sa.forward import Forward
    fwt = Forward(an, ft).run()      # new helpers are evaluated in place, so the keys are those of the ledgers whoever writes them
    tp = ft.f.params[1]
    keys = set()
    import re as _re
    for k in fwt.st.slots:
        m_ = _re.match(r"^self\._holdings_(quantity|margins)(@v\d+)?\[(.*)\]$", k)
        if m_:
            keys.add(m_.group(3))
    ck.check(bool(keys) and keys <= {f"{tp}.contract", "self.base_currency"}, "ARGFLOW", "S3.ledger-keys", ft.f.short, ft.f.loc, "ledgers are keyed by the traded (static) contract or the base currency", f"ledger keys: {sorted(keys)}",
             construct="ledger keys")
    # the chain never enters the book / ledger as itself: no __hash__ override that hides the lead
    fc = an.prog.cls("FutureChain")
    ck.check("__hash__" not in fc.methods and "__eq__" not in fc.methods, "MRO", "S3.chain-hash-by-lead-symbol", "FutureChain", fc.loc, "FutureChain hashes/compares through its (lead) symbol", "FutureChain overrides __hash__/__eq__",
             construct="FutureChain.__hash__")


def s4(ck, an):
    # the chain is resolved to its lead when the request is built: that must happen after the latency-window events
    fst = an.fa("TradingEnv.step")
    lat = fst.calls_to("TradingEnv._process_latent_events")
    mk = fst.calls_to("PortfolioSpace.make_rebalancing_request")
    ord_before(ck, fst, "S4.lead-resolved-at-execution-time", lat, mk, "_process_latent_events() (which advances the clock)", "building the request (which resolves the chain's lead)")
    # the old lead (held, no longer targeted) is always closed, however small: the decision table of the trade loop (C12) says so
    from rules import C12, ledger
    C12.run(ledger._Only(Renamed(ck, "S4:"), {"exempts-untargeted", "threshold-strict", "no-skip-before-the-loop", "no-loop-exit"}), an, "quick")
    fa = an.fa("Rebalancing.make_trades")
    # imbalance includes current holdings (so the old lead appears with -holding): C03-S2
    from rules import C03
    C03.s2(Renamed(ck, "C03:"), an)      # under `absolute` the imbalance is target contracts - NrContracts(current holdings), by value id


def s5(ck, an):
    ff = an.fa("Future.make_events")
    r = returns_in(ff)
    rc = ret_canons(ff)
    ok = len(rc) == 1 and rc[0] in [specv(ff, t).key() for t in ("[EventContractDiscontinued(time=self.expiry, contract=self)]", "[EventContractDiscontinued(self.expiry, self)]",
                                                                   "[EventContractDiscontinued(self.expiry, contract=self)]", "[EventContractDiscontinued(contract=self, time=self.expiry)]")]
    ck.check(ok, "ARGFLOW", "S5.one-discontinuation-at-expiry", ff.f.short, ff.f.loc, "a future yields exactly one EventContractDiscontinued(time=self.expiry, contract=self)",
             f"Future.make_events returns {ast.unparse(r[0].value)[:90] if r else '?'}", construct="return [EventContractDiscontinued(time=self.expiry, contract=self)]")
    fc = an.fa("FutureChain.make_events")
    # value id of what is returned: the events of every listed contract, concatenated in order (an accumulation loop with
    # extend, itertools.chain and the nested comprehension are one and the same after normalisation)
    rc = ret_canons_plain(fc)
    want = specv(fc, "[e for f in self.contracts for e in f.make_events()]").key()
    ck.check(rc == [want], "ARGFLOW", "S5.chain-covers-all-contracts", fc.f.short, fc.f.loc, "the chain returns the discontinuation events of every contract it lists", f"FutureChain.make_events returns {rc}; specified {want}",
             construct="for future in self.contracts: events.extend(future.make_events())")
    fe = an.fa("TradingEnv.__init__")
    mk = [c for c in fe.calls_named("make_events")]
    cp = fe.calls_to("Transmitter._create_partitions", "AbstractTransmitter._create_partitions")
    ok = False
    for add in fe.calls_named("add_events"):
        lp = next((p for p in parents(add) if isinstance(p, ast.For)), None)
        if lp is not None and fe.sym.canon(lp.iter) == "self.action_space.contracts" and isinstance(lp.target, ast.Name) and len(add.args) == 1 \
                and fe.sym.canon(add.args[0]) == specv(fe, f"{lp.target.id}.make_events()", fe.node_of(add).id).key() and not any(isinstance(x, (ast.If, ast.Continue, ast.Break)) for x in ast.walk(lp)):
            ok = True
    ck.check(ok, "ARGFLOW", "S5.env-registers-events", fe.f.short, fe.f.loc, "TradingEnv registers make_events() of every action-space contract with the transmitter", "TradingEnv does not register every contract's events",
             construct="for contract in self.action_space.contracts: self._transmitter.add_events(contract.make_events())")
    if mk and cp:
        okb = all(fe.reachable_from(m, c) and not fe.reachable_from(c, m) for m in mk for c in cp)
        ck.check(okb, "ORD", "S5.events-before-partitions", fe.f.short, fe.loc(cp[0]), "contract events are registered before the partitions are built", "partitions are built before the contract events are registered (expiries would never be delivered)",
                 construct=stmt_text(cp[0]))
    for c in cp:
        ck.check([ast.unparse(a) for a in c.args] == ["latency"], "ARGFLOW", "S5.partitions-with-latency", fe.f.short, fe.loc(c), "partitions are built with the configured latency", f"_create_partitions({[ast.unparse(a) for a in c.args]})",
                 construct=stmt_text(c))
    ex = an.prog.cls("Exchange")
    ck.check("process_EventContractDiscontinued" in ex.methods and "EventContractDiscontinued" in {c.name for c in an.prog.classes.values()}, "MRO", "S5.exchange-handles-discontinuation", "Exchange", ex.loc,
             "the exchange subscribes to EventContractDiscontinued (callback name = process_ + event class name)", "no handler named process_EventContractDiscontinued", construct="process_EventContractDiscontinued")
    fd = an.fa("Exchange.process_EventContractDiscontinued")
    tc = fd.calls_to("LimitOrderBook.terminate")
    ok = len(tc) == 1 and fd.sym.canon(tc[0].func.value) == f"self[{fd.f.params[1]}.contract]" and not fd.syntactic_guards(tc[0])
    ck.check(ok, "EFFECT", "S5.discontinuation-terminates-book", fd.f.short, fd.f.loc, "the handler unconditionally terminates the book of the event's contract (creating it if it was never quoted)",
             "the discontinuation handler does not unconditionally terminate self[event.contract]", construct="self[event.contract].terminate(event)")
    fa = an.fa("Transmitter.add_events")
    ok = any(isinstance(c, ast.Call) and ast.unparse(c) == "self.events.extend(events)" for c in walk_function(fa.f.node))
    ck.check(ok, "ARGFLOW", "S5.add-events-keeps-all", fa.f.short, fa.f.loc, "add_events keeps every event it is given", "add_events does not extend self.events with all events", construct="self.events.extend(events)")
