"""Behaviour of FutureChain construction / FutureChain.make_events and of the
Treasury expiry rule, exercised through the public API. Must pass with and
without the refactor that re-spells their conditions, loops and containers."""
import calendar
from datetime import datetime, timedelta

import pandas
import pytest

from tradingenv.contracts import (
    ES, ETF, NK, VX, ZB, ZF, ZN, ZQ, ZT, Future, FutureChain,
)
from tradingenv.events import EventContractDiscontinued


def last_weekday(year: int, month: int) -> datetime:
    when = datetime(year, month, calendar.monthrange(year, month)[1])
    while when.weekday() >= 5:
        when -= timedelta(days=1)
    return when


class TestTreasuryExpiry:
    @pytest.mark.parametrize(
        "year, month, expiry, cutoff, symbol",
        [
            # Month ends on a Sunday / Saturday / weekday.
            (2019, 3, datetime(2019, 3, 29), datetime(2019, 2, 24), "ZNH19"),
            (2019, 8, datetime(2019, 8, 30), datetime(2019, 7, 24), "ZNQ19"),
            (2019, 12, datetime(2019, 12, 31), datetime(2019, 12, 24), "ZNZ19"),
            # Month starts on a Saturday / Sunday.
            (2019, 6, datetime(2019, 6, 28), datetime(2019, 5, 24), "ZNM19"),
            (2019, 9, datetime(2019, 9, 30), datetime(2019, 8, 24), "ZNU19"),
            # Februaries: leap ending on a Saturday, 28 days ending on a Sunday.
            (2020, 2, datetime(2020, 2, 28), datetime(2020, 1, 24), "ZNG20"),
            (2021, 2, datetime(2021, 2, 26), datetime(2021, 1, 24), "ZNG21"),
            (1970, 1, datetime(1970, 1, 30), datetime(1969, 12, 24), "ZNF70"),
            (2099, 12, datetime(2099, 12, 31), datetime(2099, 12, 24), "ZNZ99"),
        ],
    )
    def test_concrete(self, year, month, expiry, cutoff, symbol):
        future = ZN(year, month)
        assert future.expiry == expiry
        assert type(future.expiry) is pandas.Timestamp
        assert future.expiry.tzinfo is None
        assert future.last_trading_date == cutoff
        assert type(future.last_trading_date) is pandas.Timestamp
        assert future.symbol == symbol

    def test_exhaustive(self):
        for year in range(1970, 2100):
            for month in range(1, 13):
                future = ZF(year, month)
                assert future.expiry == last_weekday(year, month)
                assert future.expiry.weekday() < 5
                assert (future.expiry.year, future.expiry.month) == (
                    year, month
                )
                assert future.last_trading_date < future.expiry
                assert future.symbol == "ZF{}{:02d}".format(
                    ZF.month_codes[month], year % 100
                )

    @pytest.mark.parametrize("cls", [ZQ, ZT, ZF, ZN, ZB])
    def test_every_treasury_class(self, cls):
        future = cls(2021, 10)
        assert future.expiry == datetime(2021, 10, 29)
        assert future.last_trading_date == datetime(2021, 9, 24)
        assert future.symbol == cls.__name__ + "V21"

    def test_hook_called_directly(self):
        future = ZN(2019, 3)
        assert future._get_expiry_date(2022, 4) == datetime(2022, 4, 29)
        assert future._get_expiry_date(year=2022, month=7) == (
            datetime(2022, 7, 29)
        )
        assert future.expiry == datetime(2019, 3, 29)

    @pytest.mark.parametrize("month", [0, 13])
    def test_illegal_month(self, month):
        with pytest.raises(ValueError) as info:
            ZN(2019, month)
        assert type(info.value) is ValueError
        assert "month" in str(info.value)

    def test_non_integer_month(self):
        with pytest.raises(TypeError):
            ZN(2019, "3")


class TestChainArguments:
    def test_nothing_provided(self):
        with pytest.raises(ValueError) as info:
            FutureChain()
        assert str(info.value) == (
            "At least one argument between 'future_cls' and 'futures_chain' "
            "must be provided."
        )

    def test_only_span_provided(self):
        with pytest.raises(ValueError):
            FutureChain(start="2019-01-01", end="2019-12-31", month=1)

    def test_only_future_cls(self):
        chain = FutureChain(future_cls=ES)
        assert chain.contracts[0].symbol == "ESU97"

    def test_only_contracts(self):
        chain = FutureChain(contracts=[ES(2019, 6), ES(2019, 3)])
        assert [c.symbol for c in chain.contracts] == ["ESH19", "ESM19"]

    def test_both_provided_contracts_win(self):
        given = [ES(2019, 6), ES(2019, 3)]
        chain = FutureChain(ES, "2000-01-01", "2001-01-01", contracts=given)
        assert [c.symbol for c in chain.contracts] == ["ESH19", "ESM19"]


class TestChainFromContracts:
    def test_sorted_copy_of_a_list(self):
        given = [ES(2019, 12), ES(2019, 3), ES(2019, 9), ES(2019, 6)]
        snapshot = list(given)
        chain = FutureChain(contracts=given)
        assert [c.symbol for c in chain.contracts] == [
            "ESH19", "ESM19", "ESU19", "ESZ19",
        ]
        # The caller's list is neither reordered nor aliased.
        assert given == snapshot
        assert all(a is b for a, b in zip(given, snapshot))
        assert chain.contracts is not given
        assert type(chain.contracts) is list
        assert {id(c) for c in chain.contracts} == {id(c) for c in given}
        assert chain._last_trading_dates == [
            datetime(2019, 3, 7),
            datetime(2019, 6, 13),
            datetime(2019, 9, 12),
            datetime(2019, 12, 12),
        ]
        assert chain.underlyings is chain.contracts

    def test_tuple_and_generator(self):
        given = (ES(2019, 12), ES(2019, 3))
        assert [c.symbol for c in FutureChain(contracts=given).contracts] == [
            "ESH19", "ESZ19",
        ]
        lazy = (ES(2019, m) for m in (9, 6, 3))
        chain = FutureChain(contracts=lazy)
        assert [c.symbol for c in chain.contracts] == [
            "ESH19", "ESM19", "ESU19",
        ]
        assert type(chain.contracts) is list

    def test_sorting_is_by_cutoff_and_stable(self):
        # ZN and ZT of the same month share the cut-off: input order is kept.
        zn, zt, es = ZN(2019, 6), ZT(2019, 6), ES(2019, 3)
        chain = FutureChain(contracts=[zn, zt, es])
        assert chain.contracts[0] is es
        assert chain.contracts[1] is zn
        assert chain.contracts[2] is zt
        chain = FutureChain(contracts=[zt, zn, es])
        assert chain.contracts[1] is zt
        assert chain.contracts[2] is zn
        # NKM19 stops trading (05-31) before ESM19 (06-13), despite 'NK' > 'ES'.
        chain = FutureChain(contracts=[ES(2019, 6), NK(2019, 6)])
        assert [c.symbol for c in chain.contracts] == ["NKM19", "ESM19"]

    def test_empty(self):
        chain = FutureChain(contracts=[])
        assert chain.contracts == []
        assert chain._last_trading_dates == []
        assert chain.make_events() == []
        chain = FutureChain(ES, contracts=())
        assert chain.contracts == []

    def test_single(self):
        only = VX(2019, 1)
        chain = FutureChain(contracts=[only])
        assert chain.contracts == [only]
        assert chain.contracts[0] is only

    def test_not_iterable(self):
        with pytest.raises(TypeError) as info:
            FutureChain(contracts=5)
        assert str(info.value) == "'int' object is not iterable"

    def test_not_comparable(self):
        with pytest.raises(AttributeError):
            FutureChain(contracts=[ETF("SPY"), ES(2019, 3)])
        with pytest.raises(TypeError):
            FutureChain(contracts=[ES(2019, 3), 7])


class TestChainFromSpan:
    def test_quarterly(self):
        chain = FutureChain(ZN, "2019-01-01", "2019-12-31")
        assert [c.symbol for c in chain.contracts] == [
            "ZNH19", "ZNM19", "ZNU19", "ZNZ19",
        ]
        assert [c.expiry for c in chain.contracts] == [
            datetime(2019, 3, 29),
            datetime(2019, 6, 28),
            datetime(2019, 9, 30),
            datetime(2019, 12, 31),
        ]

    def test_monthly(self):
        chain = FutureChain(VX, "2019-11-01", "2020-02-29", month=1)
        assert [c.symbol for c in chain.contracts] == [
            "VXX19", "VXZ19", "VXF20", "VXG20",
        ]
        assert chain.lead_contract(datetime(2019, 11, 1)).symbol == "VXZ19"

    def test_empty_span(self):
        chain = FutureChain(ES, "2019-01-01", "2019-01-31")
        assert chain.contracts == []
        assert chain.make_events() == []

    def test_ordered_over_the_whole_domain(self):
        for cls in (ES, NK, VX, ZN):
            chain = FutureChain(cls, "1970-01-01", "2099-12-31")
            expiries = [c.expiry for c in chain.contracts]
            cutoffs = [c.last_trading_date for c in chain.contracts]
            assert all(a < b for a, b in zip(expiries, expiries[1:]))
            assert all(a < b for a, b in zip(cutoffs, cutoffs[1:]))
            assert cutoffs == chain._last_trading_dates
            assert len(chain.contracts) == (130 * 12 if cls is VX else 130 * 4)


class _Recorder(Future):
    """A future whose make_events reports a configurable iterable."""

    freq = "QE-DEC"
    multiplier = 1.0
    margin_requirement = 0.1
    calls = []

    def __init__(self, year, month, shape):
        super().__init__(year, month)
        self.shape = shape

    def _get_expiry_date(self, year, month):
        return datetime(year, month, 15)

    def _get_last_trading_date(self, expiry):
        return expiry - timedelta(days=5)

    def make_events(self):
        type(self).calls.append(self.symbol)
        own = EventContractDiscontinued(time=self.expiry, contract=self)
        if self.shape == "none":
            return []
        if self.shape == "tuple-of-two":
            return (own, EventContractDiscontinued(self.expiry, self))
        if self.shape == "generator":
            return (event for event in [own])
        return [own]


class TestMakeEvents:
    def test_one_event_per_contract_in_chain_order(self):
        chain = FutureChain(ES, "2019-01-01", "2020-12-31")
        events = chain.make_events()
        assert type(events) is list
        assert len(events) == len(chain.contracts) == 8
        for event, contract in zip(events, chain.contracts):
            assert type(event) is EventContractDiscontinued
            assert event.time == contract.expiry
            assert event.contract is contract
        again = chain.make_events()
        assert again is not events
        assert [e.contract for e in again] == [e.contract for e in events]
        assert all(a is not b for a, b in zip(again, events))

    def test_treasury_events(self):
        chain = FutureChain(contracts=[ZB(2019, 6), ZB(2019, 3)])
        events = chain.make_events()
        assert [e.time for e in events] == [
            datetime(2019, 3, 29), datetime(2019, 6, 28),
        ]
        assert [e.contract.symbol for e in events] == ["ZBH19", "ZBM19"]

    def test_flattening_and_call_order(self):
        _Recorder.calls = []
        a = _Recorder(2019, 3, "list")
        b = _Recorder(2019, 6, "none")
        c = _Recorder(2019, 9, "tuple-of-two")
        d = _Recorder(2019, 12, "generator")
        chain = FutureChain(contracts=[d, b, c, a])
        assert _Recorder.calls == []
        events = chain.make_events()
        assert _Recorder.calls == [
            "_RecorderH19", "_RecorderM19", "_RecorderU19", "_RecorderZ19",
        ]
        assert [e.contract for e in events] == [a, c, c, d]
        assert [e.contract is x for e, x in zip(events, [a, c, c, d])] == (
            [True] * 4
        )

    def test_error_in_a_contract_propagates(self):
        class Broken(_Recorder):
            def make_events(self):
                type(self).calls.append(self.symbol)
                if self.shape == "boom":
                    raise RuntimeError("boom")
                if self.shape == "scalar":
                    return 5
                return super().make_events()

        Broken.calls = []
        chain = FutureChain(contracts=[
            Broken(2019, 3, "list"), Broken(2019, 6, "boom"),
            Broken(2019, 9, "list"),
        ])
        with pytest.raises(RuntimeError) as info:
            chain.make_events()
        assert str(info.value) == "boom"
        assert info.value.__cause__ is None
        assert info.value.__context__ is None
        # The third contract is never asked.
        assert Broken.calls == ["BrokenH19", "BrokenH19", "BrokenM19"]

        chain = FutureChain(contracts=[Broken(2019, 3, "scalar")])
        with pytest.raises(TypeError) as info:
            chain.make_events()
        assert str(info.value) == "'int' object is not iterable"
