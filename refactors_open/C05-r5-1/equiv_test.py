"""Edit 1 (split): Broker.marking_to_market split into _contracts_to_mark, _settle_variation_margin and _sweep_excess_margin.

Behaviour-equivalence test for property C05 (margin account invariant and NLV
decomposition). The scenarios drive Broker.transact, Broker.marking_to_market,
Broker.holdings_values, Broker.holdings_weights, Broker.net_liquidation_value
and Broker.rebalance through the public API and compare the full observable
account state (quantities, margins, reference prices, values, weights, NLV,
insertion order of the dictionaries, exception types and messages) against
literal values recorded on the unmodified library. The test must pass both
with and without the refactoring.
"""
from collections import defaultdict
from datetime import datetime
import math

import pytest

from tradingenv.broker.broker import Broker, Context, EndOfEpisodeError
from tradingenv.broker.fees import BrokerFees
from tradingenv.broker.rebalancing import Rebalancing
from tradingenv.broker.trade import Trade
from tradingenv.contracts import Cash, Rate, ETF, ES, VX
from tradingenv.events import EventNBBO, EventContractDiscontinued
from tradingenv.exchange import Exchange

T0 = datetime(2019, 1, 2)
T1 = datetime(2019, 1, 9)
ES_ = ES(2019, 6)
VX_ = VX(2019, 3)
SPY = ETF("SPY")
IEF = ETF("IEF")
USD = Cash()


def make_exchange(quotes):
    exchange = Exchange()
    exchange.process_EventNBBO(EventNBBO(T0, Cash(), 1, 1))
    exchange.process_EventNBBO(EventNBBO(T0, Rate("FED funds rate"), 0.0, 0.0))
    for contract, (bid, ask) in quotes.items():
        exchange.process_EventNBBO(EventNBBO(T0, contract, bid, ask))
    return exchange


def quote(exchange, contract, bid, ask):
    exchange.process_EventNBBO(EventNBBO(T0, contract, bid, ask))


def trade(broker, contract, quantity):
    book = broker.exchange[contract]
    broker.transact(
        Trade(T0, contract, quantity, book.bid_price, book.ask_price, broker.fees)
    )


def num(x):
    """Floats are compared exactly; NaN is spelled as a string."""
    x = float(x)
    return "nan" if math.isnan(x) else x


def listing(mapping):
    """Ordered (key, value) listing: insertion order is part of the state."""
    return [(str(k), num(v)) for k, v in mapping.items()]


def state(broker):
    return {
        "quantity": listing(broker.holdings_quantity),
        "margins": listing(broker.holdings_margins),
        "reference": listing(broker._last_marking_to_market_price),
        "books": [str(k) for k in broker.exchange._books],
    }


def check_invariant(broker):
    """The property itself, with a tolerance of a few ulps (the sweep computes
    margin - (margin - target), which may differ from target by rounding)."""
    nlv = broker.net_liquidation_value(raise_if_broke=False)
    quantities = broker.holdings_quantity
    margins = broker.holdings_margins
    fully_paid = 0.0
    for contract, margin in margins.items():
        position = quantities.get(contract, 0.0)
        if contract.margin_requirement == 0:
            assert margin == 0.0
            if position != 0 and not isinstance(contract, Cash):
                book = broker.exchange[contract]
                price = book.bid_price if position >= 0 else book.ask_price
                fully_paid += position * price * contract.multiplier
            continue
        liq_price = broker.exchange[contract].liq_price(position)
        required = (
            contract.margin_requirement
            * contract.multiplier
            * abs(position)
            * liq_price
        )
        assert margin >= 0
        assert margin == pytest.approx(required, rel=1e-12, abs=1e-9)
        if position == 0:
            assert margin == 0.0
    total = quantities[broker.base_currency] + sum(margins.values()) + fully_paid
    assert total == pytest.approx(nlv, rel=1e-12, abs=1e-9)
    if nlv > 0:
        for contract, weight in broker.holdings_weights().items():
            position = quantities[contract]
            if position == 0:
                assert weight == 0.0
                continue
            book = broker.exchange[contract]
            price = book.bid_price if position >= 0 else book.ask_price
            expected = position * price * contract.multiplier / nlv
            assert weight == pytest.approx(expected, rel=1e-12, abs=1e-12)


# ---------------------------------------------------------------------------
# Scenario 1: long future, short future and an ETF, with commissions.
# ---------------------------------------------------------------------------
def scenario_multi_asset():
    records = []
    exchange = make_exchange(
        {ES_: (2500.3, 2500.7), VX_: (17.35, 17.45), SPY: (249.93, 250.11)}
    )
    broker = Broker(
        exchange, deposit=100000.0, fees=BrokerFees(proportional=0.0007, fixed=0.3)
    )

    def rec(tag, **extra):
        item = {"tag": tag}
        item.update(state(broker))
        item.update(extra)
        records.append(item)

    rec("initial")
    trade(broker, ES_, 0.3)
    rec("buy es")
    trade(broker, VX_, -1.7)
    rec("sell vx")
    trade(broker, SPY, 123.0)
    rec("buy spy")
    quote(exchange, ES_, 2471.1, 2472.3)
    quote(exchange, VX_, 19.05, 19.23)
    quote(exchange, SPY, 247.31, 247.42)
    rec("quotes moved")
    broker.marking_to_market(ES_)
    rec("mtm es")
    broker.marking_to_market(SPY)
    rec("mtm spy")
    broker.marking_to_market()
    rec("mtm all")
    broker.marking_to_market()
    rec("mtm all again")
    nlv = broker.net_liquidation_value()
    rec(
        "valuation",
        nlv=num(nlv),
        liquidation=listing(broker.holdings_values(kind="liquidation")),
        notional=listing(broker.holdings_values()),
        weights=listing(broker.holdings_weights()),
    )
    check_invariant(broker)
    trade(broker, ES_, -0.5)
    rec("flip es")
    trade(broker, VX_, 1.7)
    rec("close vx")
    quote(exchange, ES_, 2480.9, 2481.3)
    quote(exchange, VX_, 18.1, 18.3)
    context = broker.context()
    assert isinstance(context, Context)
    rec(
        "context",
        nlv=num(context.nlv),
        weights=listing(context.weights),
        values=listing(context.values),
        nr_contracts=listing(context.nr_contracts),
        margins_ctx=listing(context.margins),
    )
    check_invariant(broker)
    trade(broker, ES_, 0.2)
    trade(broker, SPY, -123.0)
    rec("all flat", nlv=num(broker.net_liquidation_value()))
    check_invariant(broker)
    return records


EXPECTED_MULTI_ASSET = [{'tag': 'initial',
  'quantity': [('Cash(USD)', 100000.0)],
  'margins': [],
  'reference': [],
  'books': ['Cash(USD)', 'Rate(FED funds rate)', 'ES(ESM19)', 'VX(VXH19)', 'ETF(SPY)']},
 {'tag': 'buy es',
  'quantity': [('Cash(USD)', 96216.99265), ('ES(ESM19)', 0.3)],
  'margins': [('ES(ESM19)', 3750.4500000000003)],
  'reference': [('ES(ESM19)', 2500.3)],
  'books': ['Cash(USD)', 'Rate(FED funds rate)', 'ES(ESM19)', 'VX(VXH19)', 'ETF(SPY)']},
 {'tag': 'sell vx',
  'quantity': [('Cash(USD)', 81193.54615), ('ES(ESM19)', 0.3), ('VX(VXH19)', -1.7)],
  'margins': [('ES(ESM19)', 3750.4500000000003), ('VX(VXH19)', 14832.5)],
  'reference': [('ES(ESM19)', 2500.3), ('VX(VXH19)', 17.45)],
  'books': ['Cash(USD)', 'Rate(FED funds rate)', 'ES(ESM19)', 'VX(VXH19)', 'ETF(SPY)']},
 {'tag': 'buy spy',
  'quantity': [('Cash(USD)', 50408.181679),
               ('ES(ESM19)', 0.3),
               ('VX(VXH19)', -1.7),
               ('ETF(SPY)', 123.0)],
  'margins': [('ES(ESM19)', 3750.4500000000003),
              ('VX(VXH19)', 14832.5),
              ('ETF(SPY)', 0.0)],
  'reference': [('ES(ESM19)', 2500.3), ('VX(VXH19)', 17.45), ('ETF(SPY)', 250.11)],
  'books': ['Cash(USD)', 'Rate(FED funds rate)', 'ES(ESM19)', 'VX(VXH19)', 'ETF(SPY)']},
 {'tag': 'quotes moved',
  'quantity': [('Cash(USD)', 50408.181679),
               ('ES(ESM19)', 0.3),
               ('VX(VXH19)', -1.7),
               ('ETF(SPY)', 123.0)],
  'margins': [('ES(ESM19)', 3750.4500000000003),
              ('VX(VXH19)', 14832.5),
              ('ETF(SPY)', 0.0)],
  'reference': [('ES(ESM19)', 2500.3), ('VX(VXH19)', 17.45), ('ETF(SPY)', 250.11)],
  'books': ['Cash(USD)', 'Rate(FED funds rate)', 'ES(ESM19)', 'VX(VXH19)', 'ETF(SPY)']},
 {'tag': 'mtm es',
  'quantity': [('Cash(USD)', 50013.981679),
               ('ES(ESM19)', 0.3),
               ('VX(VXH19)', -1.7),
               ('ETF(SPY)', 123.0)],
  'margins': [('ES(ESM19)', 3706.65), ('VX(VXH19)', 14832.5), ('ETF(SPY)', 0.0)],
  'reference': [('ES(ESM19)', 2471.1), ('VX(VXH19)', 17.45), ('ETF(SPY)', 250.11)],
  'books': ['Cash(USD)', 'Rate(FED funds rate)', 'ES(ESM19)', 'VX(VXH19)', 'ETF(SPY)']},
 {'tag': 'mtm spy',
  'quantity': [('Cash(USD)', 50013.981679),
               ('ES(ESM19)', 0.3),
               ('VX(VXH19)', -1.7),
               ('ETF(SPY)', 123.0)],
  'margins': [('ES(ESM19)', 3706.65), ('VX(VXH19)', 14832.5), ('ETF(SPY)', 0.0)],
  'reference': [('ES(ESM19)', 2471.1), ('VX(VXH19)', 17.45), ('ETF(SPY)', 250.11)],
  'books': ['Cash(USD)', 'Rate(FED funds rate)', 'ES(ESM19)', 'VX(VXH19)', 'ETF(SPY)']},
 {'tag': 'mtm all',
  'quantity': [('Cash(USD)', 45474.98167899999),
               ('ES(ESM19)', 0.3),
               ('VX(VXH19)', -1.7),
               ('ETF(SPY)', 123.0)],
  'margins': [('ES(ESM19)', 3706.65),
              ('VX(VXH19)', 16345.500000000002),
              ('ETF(SPY)', 0.0)],
  'reference': [('ES(ESM19)', 2471.1), ('VX(VXH19)', 19.23), ('ETF(SPY)', 250.11)],
  'books': ['Cash(USD)', 'Rate(FED funds rate)', 'ES(ESM19)', 'VX(VXH19)', 'ETF(SPY)']},
 {'tag': 'mtm all again',
  'quantity': [('Cash(USD)', 45474.98167899999),
               ('ES(ESM19)', 0.3),
               ('VX(VXH19)', -1.7),
               ('ETF(SPY)', 123.0)],
  'margins': [('ES(ESM19)', 3706.65),
              ('VX(VXH19)', 16345.500000000002),
              ('ETF(SPY)', 0.0)],
  'reference': [('ES(ESM19)', 2471.1), ('VX(VXH19)', 19.23), ('ETF(SPY)', 250.11)],
  'books': ['Cash(USD)', 'Rate(FED funds rate)', 'ES(ESM19)', 'VX(VXH19)', 'ETF(SPY)']},
 {'tag': 'valuation',
  'quantity': [('Cash(USD)', 45474.98167899999),
               ('ES(ESM19)', 0.3),
               ('VX(VXH19)', -1.7),
               ('ETF(SPY)', 123.0)],
  'margins': [('ES(ESM19)', 3706.65),
              ('VX(VXH19)', 16345.500000000002),
              ('ETF(SPY)', 0.0),
              ('Cash(USD)', 0.0)],
  'reference': [('ES(ESM19)', 2471.1), ('VX(VXH19)', 19.23), ('ETF(SPY)', 250.11)],
  'books': ['Cash(USD)', 'Rate(FED funds rate)', 'ES(ESM19)', 'VX(VXH19)', 'ETF(SPY)'],
  'nlv': 95946.26167899999,
  'liquidation': [('Cash(USD)', 45474.98167899999),
                  ('ES(ESM19)', 3706.65),
                  ('VX(VXH19)', 16345.500000000002),
                  ('ETF(SPY)', 30419.13)],
  'notional': [('Cash(USD)', 45474.98167899999),
               ('ES(ESM19)', 37066.5),
               ('VX(VXH19)', -32691.000000000004),
               ('ETF(SPY)', 30419.13)],
  'weights': [('Cash(USD)', 0.47396303809253276),
              ('ES(ESM19)', 0.38632563011168203),
              ('VX(VXH19)', -0.3407219773644935),
              ('ETF(SPY)', 0.3170434102140523)]},
 {'tag': 'flip es',
  'quantity': [('Cash(USD)', 46653.78742899999),
               ('ES(ESM19)', -0.2),
               ('VX(VXH19)', -1.7),
               ('ETF(SPY)', 123.0)],
  'margins': [('ES(ESM19)', 2472.3),
              ('VX(VXH19)', 16345.500000000002),
              ('ETF(SPY)', 0.0),
              ('Cash(USD)', 0.0)],
  'reference': [('ES(ESM19)', 2472.3), ('VX(VXH19)', 19.23), ('ETF(SPY)', 250.11)],
  'books': ['Cash(USD)', 'Rate(FED funds rate)', 'ES(ESM19)', 'VX(VXH19)', 'ETF(SPY)']},
 {'tag': 'close vx',
  'quantity': [('Cash(USD)', 62976.10372899999),
               ('ES(ESM19)', -0.2),
               ('VX(VXH19)', 0.0),
               ('ETF(SPY)', 123.0)],
  'margins': [('ES(ESM19)', 2472.3),
              ('VX(VXH19)', 0.0),
              ('ETF(SPY)', 0.0),
              ('Cash(USD)', 0.0)],
  'reference': [('ES(ESM19)', 2472.3), ('VX(VXH19)', 19.14), ('ETF(SPY)', 250.11)],
  'books': ['Cash(USD)', 'Rate(FED funds rate)', 'ES(ESM19)', 'VX(VXH19)', 'ETF(SPY)']},
 {'tag': 'context',
  'quantity': [('Cash(USD)', 62877.10372899999),
               ('ES(ESM19)', -0.2),
               ('VX(VXH19)', 0.0),
               ('ETF(SPY)', 123.0)],
  'margins': [('ES(ESM19)', 2481.3000000000006),
              ('VX(VXH19)', 0.0),
              ('ETF(SPY)', 0.0),
              ('Cash(USD)', 0.0)],
  'reference': [('ES(ESM19)', 2481.3),
                ('VX(VXH19)', 18.200000000000003),
                ('ETF(SPY)', 250.11)],
  'books': ['Cash(USD)', 'Rate(FED funds rate)', 'ES(ESM19)', 'VX(VXH19)', 'ETF(SPY)'],
  'nlv': 95777.53372899999,
  'weights': [('Cash(USD)', 0.6564911548767699),
              ('ES(ESM19)', -0.2590691056026535),
              ('VX(VXH19)', 0.0),
              ('ETF(SPY)', 0.3176019345629647)],
  'values': [('Cash(USD)', 62877.10372899999),
             ('ES(ESM19)', -24813.000000000004),
             ('VX(VXH19)', 0.0),
             ('ETF(SPY)', 30419.13)],
  'nr_contracts': [('Cash(USD)', 62877.10372899999),
                   ('ES(ESM19)', -0.2),
                   ('VX(VXH19)', 0.0),
                   ('ETF(SPY)', 123.0)],
  'margins_ctx': [('ES(ESM19)', 2481.3000000000006),
                  ('VX(VXH19)', 0.0),
                  ('ETF(SPY)', 0.0),
                  ('Cash(USD)', 0.0)]},
 {'tag': 'all flat',
  'quantity': [('Cash(USD)', 95738.27123799999),
               ('ES(ESM19)', 0.0),
               ('VX(VXH19)', 0.0),
               ('ETF(SPY)', 0.0)],
  'margins': [('ES(ESM19)', 0.0),
              ('VX(VXH19)', 0.0),
              ('ETF(SPY)', 0.0),
              ('Cash(USD)', 0.0)],
  'reference': [('ES(ESM19)', 2481.1000000000004),
                ('VX(VXH19)', 18.200000000000003),
                ('ETF(SPY)', 247.31)],
  'books': ['Cash(USD)', 'Rate(FED funds rate)', 'ES(ESM19)', 'VX(VXH19)', 'ETF(SPY)'],
  'nlv': 95738.27123799999}]


def test_multi_asset_history():
    actual = scenario_multi_asset()
    assert len(actual) == len(EXPECTED_MULTI_ASSET)
    for got, expected in zip(actual, EXPECTED_MULTI_ASSET):
        assert got == expected, got["tag"]


# ---------------------------------------------------------------------------
# Scenario 2: numerical dust is cleaned, margin is exactly zero when flat.
# ---------------------------------------------------------------------------
def scenario_round_trip():
    exchange = make_exchange({ES_: (1872.0, 1873.0)})
    broker = Broker(exchange, deposit=1000.0)
    out = []
    for quantity in (0.1, 0.2, -0.3):
        trade(broker, ES_, quantity)
        out.append(state(broker))
    out.append(num(broker.net_liquidation_value()))
    check_invariant(broker)
    return out


EXPECTED_ROUND_TRIP = [{'quantity': [('Cash(USD)', 59.0), ('ES(ESM19)', 0.1)],
  'margins': [('ES(ESM19)', 936.0)],
  'reference': [('ES(ESM19)', 1872.0)],
  'books': ['Cash(USD)', 'Rate(FED funds rate)', 'ES(ESM19)']},
 {'quantity': [('Cash(USD)', -1828.000000000001), ('ES(ESM19)', 0.30000000000000004)],
  'margins': [('ES(ESM19)', 2808.000000000001)],
  'reference': [('ES(ESM19)', 1872.0)],
  'books': ['Cash(USD)', 'Rate(FED funds rate)', 'ES(ESM19)']},
 {'quantity': [('Cash(USD)', 980.0), ('ES(ESM19)', 0.0)],
  'margins': [('ES(ESM19)', 0.0)],
  'reference': [('ES(ESM19)', 1872.5)],
  'books': ['Cash(USD)', 'Rate(FED funds rate)', 'ES(ESM19)']},
 980.0]


def test_round_trip_is_flat_with_zero_margin():
    actual = scenario_round_trip()
    assert actual == EXPECTED_ROUND_TRIP
    final = actual[-2]
    assert final["quantity"][1] == ("ES(ESM19)", 0.0)
    assert final["margins"] == [("ES(ESM19)", 0.0)]


# ---------------------------------------------------------------------------
# Scenario 3: contracts which are skipped by marking to market, and the
# entries that the attempt leaves behind.
# ---------------------------------------------------------------------------
def test_marking_untraded_contracts_side_effects():
    exchange = make_exchange({ES_: (1872.0, 1873.0), SPY: (10.0, 10.5)})
    broker = Broker(exchange)
    books_before = [str(k) for k in exchange._books]
    assert broker.marking_to_market() is None
    assert state(broker) == {
        "quantity": [("Cash(USD)", 100.0)],
        "margins": [],
        "reference": [],
        "books": books_before,
    }
    # Spot product: nothing is looked up at all.
    assert broker.marking_to_market(SPY) is None
    assert broker.marking_to_market(IEF) is None
    assert state(broker)["quantity"] == [("Cash(USD)", 100.0)]
    assert state(broker)["books"] == books_before
    # Margined product without reference price: the position is looked up
    # (leaving a zero entry) but no margin is posted.
    assert broker.marking_to_market(ES_) is None
    assert broker.marking_to_market(VX_) is None
    assert state(broker) == {
        "quantity": [("Cash(USD)", 100.0), ("ES(ESM19)", 0.0), ("VX(VXH19)", 0.0)],
        "margins": [],
        "reference": [],
        "books": books_before + ["VX(VXH19)"],
    }
    assert broker.net_liquidation_value() == 100.0
    assert listing(broker.holdings_weights()) == [
        ("Cash(USD)", 1.0),
        ("ES(ESM19)", 0.0),
        ("VX(VXH19)", 0.0),
    ]
    assert listing(broker.holdings_margins) == [
        ("Cash(USD)", 0.0),
    ]


def test_discontinued_contract_is_skipped_then_valuation_raises():
    exchange = make_exchange({ES_: (1872.0, 1873.0), VX_: (17.0, 17.5)})
    broker = Broker(exchange, deposit=5000.0)
    trade(broker, ES_, 0.01)
    trade(broker, VX_, -0.5)
    before = state(broker)
    quote(exchange, VX_, 16.0, 16.5)
    exchange.process_EventContractDiscontinued(EventContractDiscontinued(T1, ES_))
    assert math.isnan(exchange[ES_].bid_price)
    broker.marking_to_market()
    after = state(broker)
    # ES is untouched (no liquidation price), VX has been marked.
    assert after["margins"][0] == before["margins"][0]
    assert after["reference"][0] == before["reference"][0]
    assert after == {'quantity': [('Cash(USD)', 1030.9000000000005),
              ('ES(ESM19)', 0.01),
              ('VX(VXH19)', -0.5)],
 'margins': [('ES(ESM19)', 93.60000000000001), ('VX(VXH19)', 4125.0)],
 'reference': [('ES(ESM19)', 1872.0), ('VX(VXH19)', 16.5)],
 'books': ['Cash(USD)', 'Rate(FED funds rate)', 'ES(ESM19)', 'VX(VXH19)']}
    with pytest.raises(ValueError) as error:
        broker.net_liquidation_value()
    assert str(error.value) == "Missing liquidation transaction_price for ES(ESM19)."
    with pytest.raises(ValueError) as error:
        broker.holdings_weights()
    assert str(error.value) == "Missing liquidation transaction_price for ES(ESM19)."
    # Once flat in the dead contract the account can be valued again.
    broker._holdings_quantity[ES_] = 0.0
    assert num(broker.net_liquidation_value()) == 5155.900000000001


def test_negative_price_trips_sanity_check_after_sweep():
    exchange = make_exchange({ES_: (1872.0, 1873.0)})
    broker = Broker(exchange, deposit=5000.0)
    trade(broker, ES_, 0.01)
    exchange[ES_].bid_price = -5.0
    with pytest.raises(ValueError) as error:
        broker.marking_to_market()
    assert str(error.value) == 'Unexpected situation during sanity check. Margin for ES(ESM19) is negative: -0.25'
    # The variation margin and the sweep happen before the check.
    assert state(broker) == {'quantity': [('Cash(USD)', 4061.2500000000005), ('ES(ESM19)', 0.01)],
 'margins': [('ES(ESM19)', -0.25)],
 'reference': [('ES(ESM19)', -5.0)],
 'books': ['Cash(USD)', 'Rate(FED funds rate)', 'ES(ESM19)']}
    with pytest.raises(ValueError) as error:
        broker.marking_to_market(ES_)
    assert str(error.value) == 'Unexpected situation during sanity check. Margin for ES(ESM19) is negative: -0.25'


def test_unsupported_kind_and_empty_account():
    exchange = make_exchange({SPY: (10.0, 10.5)})
    broker = Broker(exchange, deposit=50.0)
    with pytest.raises(ValueError) as error:
        broker.holdings_values(kind="market")
    assert str(error.value) == "Unsupported 'kind'."
    # 'kind' is only looked at for non-zero positions with a price.
    empty = Broker(exchange, deposit=0.0)
    values = empty.holdings_values(kind="market")
    assert isinstance(values, defaultdict)
    assert values.default_factory is float
    assert listing(values) == [("Cash(USD)", 0.0)]
    empty._holdings_quantity[IEF] = 2.0
    with pytest.raises(ValueError) as error:
        empty.holdings_values(kind="market")
    assert str(error.value) == "Missing liquidation transaction_price for ETF(IEF)."
    with pytest.raises(EndOfEpisodeError) as error:
        Broker(exchange, deposit=0.0).net_liquidation_value()
    assert str(error.value) == "Net liquidation state of the account is $0.0"
    assert Broker(exchange, deposit=0.0).net_liquidation_value(False) == 0
    # Liquidation values leave a zero margin entry for every position.
    assert listing(broker.holdings_margins) == []
    broker.holdings_values()
    assert listing(broker.holdings_margins) == []
    broker.holdings_values(kind="liquidation")
    assert listing(broker.holdings_margins) == [("Cash(USD)", 0.0)]


def test_broke_account():
    exchange = make_exchange({SPY: (10.0, 10.5), ES_: (1872.0, 1873.0)})
    broker = Broker(exchange, deposit=10.0)
    trade(broker, SPY, -3.0)
    trade(broker, ES_, 0.001)
    quote(exchange, SPY, 14.0, 14.25)
    quote(exchange, ES_, 1700.5, 1701.0)
    with pytest.raises(EndOfEpisodeError) as error:
        broker.net_liquidation_value()
    assert str(error.value) == 'Net liquidation state of the account is $-11.375000000000004'
    assert num(broker.net_liquidation_value(raise_if_broke=False)) == -11.375000000000004
    assert state(broker) == {'quantity': [('Cash(USD)', 22.872499999999995),
              ('ETF(SPY)', -3.0),
              ('ES(ESM19)', 0.001)],
 'margins': [('ETF(SPY)', 0.0), ('ES(ESM19)', 8.502500000000001), ('Cash(USD)', 0.0)],
 'reference': [('ETF(SPY)', 10.0), ('ES(ESM19)', 1700.5)],
 'books': ['Cash(USD)', 'Rate(FED funds rate)', 'ETF(SPY)', 'ES(ESM19)']}
    with pytest.raises(EndOfEpisodeError):
        broker.holdings_weights()
    with pytest.raises(EndOfEpisodeError):
        broker.context()
    check_invariant(broker)


def test_nan_position_is_priced_at_the_ask():
    exchange = make_exchange({SPY: (10.0, 10.5), IEF: (20.0, 20.5)})
    broker = Broker(exchange, deposit=50.0)
    broker._holdings_quantity[SPY] = float("nan")
    exchange[SPY].ask_price = float("nan")
    with pytest.raises(ValueError) as error:
        broker.holdings_values()
    assert str(error.value) == "Missing liquidation transaction_price for ETF(SPY)."
    exchange[SPY].ask_price = 10.5
    exchange[SPY].bid_price = float("nan")
    assert listing(broker.holdings_values()) == [("Cash(USD)", 50.0), ("ETF(SPY)", "nan")]
    # NaN NLV is not 'broke'.
    assert num(broker.net_liquidation_value()) == "nan"
    # Short positions use the ask, long ones the bid, each missing side raises
    # only when it is needed.
    broker._holdings_quantity[SPY] = -2.0
    assert listing(broker.holdings_values("liquidation")) == [
        ("Cash(USD)", 50.0),
        ("ETF(SPY)", -21.0),
    ]
    broker._holdings_quantity[SPY] = 2.0
    with pytest.raises(ValueError):
        broker.holdings_values("liquidation")


def scenario_rebalance():
    exchange = make_exchange(
        {ES_: (2500.3, 2500.7), VX_: (17.35, 17.45), SPY: (249.93, 250.11)}
    )
    broker = Broker(exchange, deposit=25000.0, fees=BrokerFees(proportional=0.0005))
    out = []
    first = Rebalancing([ES_, SPY, VX_], [0.9, 0.35, -0.2], time=T0)
    broker.rebalance(first)
    out.append(state(broker))
    out.append([(str(t.contract), num(t.quantity), num(t.acq_price)) for t in first.trades])
    out.append((num(first.context_pre.nlv), num(first.context_post.nlv)))
    out.append(listing(first.context_post.weights))
    out.append(listing(first.context_post.margins))
    check_invariant(broker)
    quote(exchange, ES_, 2533.1, 2533.4)
    quote(exchange, VX_, 15.2, 15.3)
    quote(exchange, SPY, 252.5, 252.75)
    second = Rebalancing([ES_, SPY], [-0.4, 0.0], time=T1)
    broker.rebalance(second)
    out.append(state(broker))
    out.append([(str(t.contract), num(t.quantity), num(t.acq_price)) for t in second.trades])
    out.append((num(second.context_pre.nlv), num(second.context_post.nlv)))
    out.append(listing(second.context_pre.weights))
    out.append(listing(second.context_post.weights))
    out.append(listing(second.context_post.margins))
    check_invariant(broker)
    return out


EXPECTED_REBALANCE = [{'quantity': [('Cash(USD)', 11435.40824124001),
               ('ES(ESM19)', 0.17994961410804977),
               ('ETF(SPY)', 34.98460677301987),
               ('VX(VXH19)', -0.2881844380403458)],
  'margins': [('Cash(USD)', 0.0),
              ('ES(ESM19)', 2249.6401007717845),
              ('ETF(SPY)', 0.0),
              ('VX(VXH19)', 2514.409221902017)],
  'reference': [('ES(ESM19)', 2500.3), ('ETF(SPY)', 250.11), ('VX(VXH19)', 17.45)],
  'books': ['Cash(USD)', 'Rate(FED funds rate)', 'ES(ESM19)', 'VX(VXH19)', 'ETF(SPY)']},
 [('ES(ESM19)', 0.17994961410804977, 2500.7),
  ('ETF(SPY)', 34.98460677301987, 250.11),
  ('VX(VXH19)', -0.2881844380403458, 17.35)],
 (25000.0, 24943.160334694665),
 [('Cash(USD)', 0.45845867515568745),
  ('ES(ESM19)', 0.9019066030869591),
  ('ETF(SPY)', 0.35054510549005335),
  ('VX(VXH19)', -0.20161111809112672)],
 [('Cash(USD)', 0.0),
  ('ES(ESM19)', 2249.6401007717845),
  ('ETF(SPY)', 0.0),
  ('VX(VXH19)', 2514.409221902017)],
 {'quantity': [('Cash(USD)', 24885.31442133558),
               ('ES(ESM19)', -0.08194792051802224),
               ('ETF(SPY)', 0.0),
               ('VX(VXH19)', 0.0)],
  'margins': [('Cash(USD)', 0.0),
              ('ES(ESM19)', 1038.034309201788),
              ('ETF(SPY)', 0.0),
              ('VX(VXH19)', 0.0)],
  'reference': [('ES(ESM19)', 2533.4), ('ETF(SPY)', 252.5), ('VX(VXH19)', 15.25)],
  'books': ['Cash(USD)', 'Rate(FED funds rate)', 'ES(ESM19)', 'VX(VXH19)', 'ETF(SPY)']},
 [('ES(ESM19)', -0.261897534626072, 2533.1),
  ('ETF(SPY)', -34.98460677301987, 252.5),
  ('VX(VXH19)', 0.2881844380403458, 15.3)],
 (25947.784683025275, 25923.348730537367),
 [('Cash(USD)', 0.48676250549459293),
  ('ES(ESM19)', 0.8783608563610817),
  ('ETF(SPY)', 0.3404380496484681),
  ('VX(VXH19)', -0.16992671844166146)],
 [('Cash(USD)', 0.9599575533241584),
  ('ES(ESM19)', -0.4004244667584157),
  ('ETF(SPY)', 0.0),
  ('VX(VXH19)', 0.0)],
 [('Cash(USD)', 0.0),
  ('ES(ESM19)', 1038.034309201788),
  ('ETF(SPY)', 0.0),
  ('VX(VXH19)', 0.0)]]


def test_rebalance_contexts():
    actual = scenario_rebalance()
    assert len(actual) == len(EXPECTED_REBALANCE)
    for index, (got, expected) in enumerate(zip(actual, EXPECTED_REBALANCE)):
        assert got == expected, index
