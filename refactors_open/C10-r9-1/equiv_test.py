"""Equivalence tests for the memoised sorted timesteps of Transmitter.

Every expectation below is a concrete value observed on the unmodified
library: the file must pass both with and without the edit.
"""
from datetime import datetime, timedelta

import numpy as np
import pandas as pd
import pytest

from tradingenv.contracts import ES, Index
from tradingenv.env import TradingEnv
from tradingenv.events import EventNBBO, IEvent
from tradingenv.features import Feature
from tradingenv.transmitter import Transmitter

SPX, TLT = Index("SPX"), Index("TLT")
DAYS = [datetime(2019, 1, d) for d in range(1, 9)]


def make_prices():
    return pd.DataFrame(
        data=[
            [100.0, 50.0],
            [101.0, 50.5],
            [99.0, 51.0],
            [102.0, 50.0],
            [104.0, 49.5],
            [103.0, 49.0],
            [105.0, 50.5],
            [107.0, 51.5],
        ],
        index=DAYS,
        columns=[SPX, TLT],
    )


FOLDS = {
    "training-set": [datetime(2019, 1, 1), datetime(2019, 1, 5)],
    "test-set": [datetime(2019, 1, 6), datetime(2019, 1, 8)],
}


def make_transmitter(**kwargs):
    transmitter = Transmitter(timesteps=DAYS, folds=dict(FOLDS), **kwargs)
    transmitter.add_prices(make_prices())
    return transmitter


class Tape(Feature):
    """Records every quote it receives, in the order it receives it."""

    def __init__(self):
        super().__init__(name="tape")
        self.tape = list()

    def process_EventNBBO(self, event: EventNBBO):
        self.tape.append((event.time, event.contract.symbol, event.mid_price))


def play(env, actions, **reset_kwargs):
    """Returns (nlv after each step, rewards, times, trades) of one episode."""
    env.reset(**reset_kwargs)
    nlv, rewards, times = list(), list(), [env.now()]
    for action in actions:
        _, reward, done, _ = env.step(np.array(action))
        nlv.append(float(env.broker.net_liquidation_value()))
        rewards.append(float(reward))
        times.append(env.now())
        if done:
            break
    trades = [
        (trade.time, trade.contract.symbol, float(trade.quantity), float(trade.acq_price))
        for rebalancing in env.broker.track_record._rebalancing.values()
        for trade in rebalancing.trades
    ]
    return nlv, rewards, times, trades


ACTIONS = [[0.5, 0.5], [1.0, 0.0], [0.0, 1.0], [0.25, 0.25], [0.6, 0.4],
           [0.1, 0.9], [0.5, 0.5]]


class TestTransmitterSteps:
    def test_steps_of_each_fold_across_repeated_resets(self):
        transmitter = make_transmitter()
        transmitter._create_partitions()
        for _ in range(3):
            transmitter._reset("training-set")
            assert list(transmitter._steps) == DAYS[:5]
            assert transmitter._start_date == datetime(2019, 1, 1)
            assert transmitter._end_date == datetime(2019, 1, 5)
            transmitter._reset("test-set")
            assert list(transmitter._steps) == DAYS[5:]
            assert transmitter._fold_name == "test-set"
            assert transmitter._step_nr == 0
            assert transmitter._current_time is np.nan

    def test_steps_is_a_private_writeable_array_of_each_reset(self):
        """A fold spanning every timestep must not hand out an array that is
        shared with the next reset."""
        transmitter = Transmitter(timesteps=DAYS)
        transmitter.add_prices(make_prices())
        transmitter._reset()
        first = transmitter._steps
        assert isinstance(first, np.ndarray) and first.dtype == object
        assert first.flags.writeable
        first[:] = first[::-1].copy()  # a client scrambling its own copy ...
        transmitter._reset()
        second = transmitter._steps
        assert second is not first
        assert list(second) == DAYS  # ... does not leak in the next episode
        assert list(first) == DAYS[::-1]

    def test_new_events_and_new_partitions_are_seen_by_the_next_reset(self):
        transmitter = Transmitter(timesteps=DAYS[:4])
        transmitter.add_prices(make_prices().iloc[:2])
        transmitter._reset()
        assert list(transmitter._steps) == DAYS[:2]
        # More data, more timesteps, same object.
        transmitter.add_timesteps(DAYS[4:])
        transmitter.add_prices(make_prices().iloc[2:])
        transmitter._create_partitions()
        transmitter._reset()
        assert list(transmitter._steps) == DAYS
        assert len(transmitter) == 8
        # Fewer events again (events is a public attribute).
        transmitter.events = [e for e in transmitter.events if e.time.day % 2]
        transmitter._create_partitions()
        transmitter._reset()
        assert list(transmitter._steps) == DAYS[::2]
        assert len(transmitter) == 4

    def test_partitions_replaced_by_same_sized_ones(self):
        """Same number of keys, different keys: identity must matter."""
        transmitter = Transmitter(timesteps=DAYS)
        transmitter.events = [
            EventNBBO(t, SPX, 1.0, 1.0) for t in DAYS[:4]
        ]
        transmitter._create_partitions()
        transmitter._reset()
        assert list(transmitter._steps) == DAYS[:4]
        transmitter.events = [
            EventNBBO(t, SPX, 1.0, 1.0) for t in DAYS[4:]
        ]
        transmitter._create_partitions()
        transmitter._reset()
        assert list(transmitter._steps) == DAYS[4:]

    def test_timesteps_living_in_one_partition_only(self):
        """With latency some timesteps only have latent events and others
        only non-latent ones. Iterating inserts the missing (empty) keys in
        the other partition: the steps of later episodes must not change."""
        times = [datetime(2019, 1, 1, 10), datetime(2019, 1, 1, 11),
                 datetime(2019, 1, 1, 12), datetime(2019, 1, 1, 13)]
        transmitter = Transmitter(timesteps=times, markov_reset=True)
        transmitter.add_events([
            EventNBBO(times[0], SPX, 1.0, 1.0),  # nonlatent@10 (no previous)
            EventNBBO(times[0] + timedelta(seconds=5), SPX, 2.0, 2.0),  # latent@11
            EventNBBO(times[1] + timedelta(minutes=5), SPX, 3.0, 3.0),  # nonlatent@12
            EventNBBO(times[2] + timedelta(seconds=1), SPX, 4.0, 4.0),  # latent@13
        ])
        transmitter._create_partitions(latency=10)
        assert sorted(transmitter._partition_latent) == [times[1], times[3]]
        assert sorted(transmitter._partition_nonlatent) == [times[0], times[2]]
        assert len(transmitter) == 2
        batches = list()
        for episode in range(3):
            transmitter._reset()
            assert list(transmitter._steps) == times
            batch = list()
            while True:
                try:
                    latent, nonlatent = transmitter._next()
                except StopIteration:
                    break
                batch.append((
                    [e.mid_price for e in latent],
                    [e.mid_price for e in nonlatent],
                ))
            batches.append(batch)
            # The defaultdicts have been filled in by the first pass.
            assert len(transmitter) == 4
            assert sorted(transmitter._partition_latent) == times
        assert batches[0] == [([], [1.0]), ([2.0], []), ([], [3.0]), ([4.0], [])]
        assert batches[0] == batches[1] == batches[2]
        # Abandon an episode mid-way, then restart.
        transmitter._reset()
        transmitter._next()
        transmitter._reset()
        assert list(transmitter._steps) == times
        assert [e.mid_price for e in transmitter._next()[1]] == [1.0]

    def test_warmup_replay_is_chronological_and_bounded(self):
        transmitter = make_transmitter(warmup=timedelta(days=2))
        transmitter._create_partitions()
        for _ in range(2):
            transmitter._reset("test-set")
            latent, nonlatent = transmitter._next()
            assert latent == []
            assert [(e.time, e.contract.symbol, e.mid_price) for e in nonlatent] == [
                (DAYS[3], "SPX", 102.0), (DAYS[3], "TLT", 50.0),
                (DAYS[4], "SPX", 104.0), (DAYS[4], "TLT", 49.5),
                (DAYS[5], "SPX", 103.0), (DAYS[5], "TLT", 49.0),
            ]
            latent, nonlatent = transmitter._next()
            assert [(e.time, e.mid_price) for e in nonlatent] == [
                (DAYS[6], 105.0), (DAYS[6], 50.5)]

    def test_no_events_at_all(self):
        transmitter = Transmitter(timesteps=DAYS)
        transmitter._create_partitions()
        for _ in range(2):
            transmitter._reset()
            assert len(transmitter._steps) == 0
            with pytest.raises(StopIteration):
                transmitter._next()

    def test_sampled_windows_follow_the_global_numpy_stream(self):
        transmitter = make_transmitter()
        transmitter._create_partitions()
        np.random.seed(7)
        windows = list()
        for _ in range(6):
            transmitter._reset("training-set", episode_length=3)
            windows.append((transmitter._start_date.day, transmitter._end_date.day))
            assert len(transmitter._steps) == 3
        np.random.seed(7)
        expected = [int(np.random.choice(range(3))) + 1 for _ in range(6)]
        assert [w[0] for w in windows] == expected
        assert all(end == start + 2 for start, end in windows)
        after = np.random.random()
        np.random.seed(7)
        [np.random.choice(range(3)) for _ in range(6)]
        assert after == np.random.random()

    def test_unknown_fold_is_a_keyerror_before_and_after_a_good_reset(self):
        transmitter = make_transmitter()
        with pytest.raises(KeyError):
            transmitter._reset("validation-set")
        transmitter._reset("test-set")
        with pytest.raises(KeyError):
            transmitter._reset("validation-set")
        assert list(transmitter._steps) == DAYS[5:]


class TestEnvEpisodes:
    def make_env(self, **kwargs):
        return TradingEnv(
            action_space=[SPX, TLT],
            state=[Tape()],
            transmitter=make_transmitter(),
            **kwargs,
        )

    def test_replay_after_completed_and_abandoned_episodes(self):
        env = self.make_env()
        first = play(env, ACTIONS)
        assert first[2] == DAYS[:5]
        assert first[0] == [101.0, 99.0, 97.05882352941177, 97.29195501730104]
        assert first[1] == [
            0.010000000000000009, -0.01980198019801982,
            -0.019607843137254832, 0.0024019607843137614,
        ]
        assert first[3] == [
            (DAYS[0], 'SPX', 0.5, 100.0),
            (DAYS[0], 'TLT', 1.0, 50.0),
            (DAYS[1], 'SPX', 0.5, 101.0),
            (DAYS[1], 'TLT', -1.0, 50.5),
            (DAYS[2], 'TLT', 1.9411764705882353, 51.0),
            (DAYS[2], 'SPX', -1.0, 99.0),
            (DAYS[3], 'SPX', 0.2378892733564014, 102.0),
            (DAYS[3], 'TLT', -1.4558823529411764, 50.0),
        ]
        play(env, ACTIONS[:2])  # abandoned mid-way
        play(env, ACTIONS, fold="test-set")  # completed, other fold
        with pytest.raises(KeyError):
            env.reset(fold="nope")  # ended by an error
        again = play(env, ACTIONS)
        assert again == first
        fresh = play(self.make_env(), ACTIONS)
        assert fresh == first
        # History replayed at reset, in chronological order.
        env.reset(fold="test-set")
        tape = env.state.features[0].tape
        assert [x[0] for x in tape] == [d for d in DAYS[:6] for _ in range(2)]
        assert [x[2] for x in tape[-2:]] == [103.0, 49.0]

    def test_two_environments_interleaved(self):
        alone_a = play(self.make_env(steps_delay=1), ACTIONS)
        alone_b = play(self.make_env(), ACTIONS[::-1], fold="test-set")
        env_a, env_b = self.make_env(steps_delay=1), self.make_env()
        env_b.reset(fold="test-set")
        env_a.reset()
        rew_a, rew_b = list(), list()
        rew_a.append(env_a.step(np.array(ACTIONS[0]))[1])
        rew_b.append(env_b.step(np.array(ACTIONS[::-1][0]))[1])
        rew_b.append(env_b.step(np.array(ACTIONS[::-1][1]))[1])
        for action in ACTIONS[1:4]:
            rew_a.append(env_a.step(np.array(action))[1])
        assert rew_a == alone_a[1]
        assert rew_b == alone_b[1]
        assert alone_b[2] == DAYS[5:]

    def test_shared_transmitter_extended_by_a_second_environment(self):
        """A second environment built on the same transmitter adds the expiry
        events of its futures and re-creates the partitions: the first
        environment must pick the new timesteps up at its next reset, exactly
        as it always did."""

        class Ping(IEvent):
            def __init__(self, time):
                self.time = time

        days = [datetime(2019, 3, d) for d in range(11, 16)]
        prices = pd.DataFrame(
            [[10.0], [11.0], [12.0]], index=days[:3], columns=[SPX])
        transmitter = Transmitter(timesteps=days)
        transmitter.add_prices(prices)
        env = TradingEnv(action_space=[SPX], transmitter=transmitter)
        env.reset()
        assert list(transmitter._steps) == days[:3]
        transmitter.add_events([Ping(days[4])])
        TradingEnv(action_space=[SPX], transmitter=transmitter)
        env.reset()
        assert list(transmitter._steps) == days[:3] + [days[4]]
        nlv = list()
        done = False
        while not done:
            _, _, done, _ = env.step(np.array([1.0]))
            nlv.append(float(env.broker.net_liquidation_value()))
        assert env.now() == days[4]
        assert nlv == pytest.approx([110.0, 120.0, 120.0])

    def test_sampled_episodes_are_reproducible_under_a_seed(self):
        env = self.make_env(episode_length=2)
        np.random.seed(3)
        runs = [play(env, ACTIONS) for _ in range(4)]
        np.random.seed(3)
        env2 = self.make_env(episode_length=2)
        runs2 = [play(env2, ACTIONS) for _ in range(4)]
        assert runs == runs2
        np.random.seed(3)
        starts = [int(np.random.choice(range(3))) for _ in range(4)]
        assert [r[2][0] for r in runs] == [DAYS[i] for i in starts]
        assert all(len(r[2]) == 3 for r in runs)
