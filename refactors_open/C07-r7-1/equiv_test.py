"""Behaviour of TrackRecord (checkpointing and tabular views) pinned down on a
hand-checkable broker scenario and on a short TradingEnv episode. Must pass
with and without the clean-up of tradingenv/broker/track_record.py."""
from tradingenv.broker.rebalancing import Rebalancing
from tradingenv.broker.broker import Broker, Exchange
from tradingenv.broker.track_record import TrackRecord
from tradingenv.broker.fees import BrokerFees
from tradingenv.env import TradingEnv
from tradingenv.events import EventNBBO
from tradingenv.transmitter import Transmitter
from tradingenv.contracts import Cash, Rate, ETF
from datetime import datetime, timedelta
import numpy as np
import pandas as pd
import pytest

SPY, IEF, USD = ETF("SPY"), ETF("IEF"), Cash()
RATE = Rate("FED funds rate")
SECONDS_IN_YEAR = 365 * 24 * 60 * 60
T = [
    datetime(2019, 1, 1),
    datetime(2019, 1, 2),
    datetime(2019, 1, 3),
    datetime(2020, 1, 3),
    datetime(2020, 1, 4),
]


def quote(exchange, contract, bid, ask, time=datetime(2019, 1, 1)):
    exchange.process_EventNBBO(EventNBBO(time, contract, bid, ask))


class Ledger:
    """Independent replay of recorded trades and interest against quotes."""

    def __init__(self, cash):
        self.cash = cash
        self.qty = {}

    def nlv(self, quotes):
        nlv = self.cash
        for contract, qty in self.qty.items():
            bid, ask = quotes[contract]
            nlv += qty * (bid if qty >= 0 else ask)
        return nlv

    def apply(self, rebalancing, quotes):
        self.cash += rebalancing.profit_on_idle_cash
        pre = self.nlv(quotes)
        for trade in rebalancing.trades:
            self.cash -= trade.cost_of_cash + trade.cost_of_commissions
            self.qty[trade.contract] = self.qty.get(trade.contract, 0.) + trade.quantity
        return pre, self.nlv(quotes)


@pytest.fixture()
def scenario():
    """Two idle checkpoints (the second stamped with a pandas Timestamp), then
    three trading checkpoints with spread, proportional + fixed commissions
    and 5% interest on idle cash; ends with a short position."""
    exchange = Exchange()
    quote(exchange, USD, 1, 1)
    quote(exchange, RATE, 0.0, 0.0)
    quote(exchange, SPY, 100, 102)
    quote(exchange, IEF, 50, 50)
    broker = Broker(exchange, deposit=1000.0, fees=BrokerFees(proportional=0.01, fixed=0.5))
    ledger = Ledger(1000.0)
    replay = []
    quotes = {SPY: (100, 102), IEF: (50, 50)}

    def rebalance(*args, **kwargs):
        reb = Rebalancing(*args, **kwargs)
        broker.rebalance(reb)
        replay.append(ledger.apply(reb, dict(quotes)))
        return reb

    rebalance(time=T[0])
    rebalance([USD, SPY], [1, 0], time=pd.Timestamp(2019, 1, 2))
    quote(exchange, RATE, 0.05, 0.05)
    rebalance([SPY, IEF], [0.51, 0.25], time=T[2])
    quote(exchange, SPY, 110, 112)
    quote(exchange, IEF, 48, 49)
    quotes.update({SPY: (110, 112), IEF: (48, 49)})
    rebalance([SPY, IEF], [0.0, -0.5], time=T[3])
    rebalance([SPY, IEF], [0.0, -0.5], time=T[4])
    return broker, replay


NLV_PRE = [1000.0, 1000.0, 1000.1336806171134, 1033.1082284317076, 1008.4853665533958]
NLV_POST = [1000.0, 1000.0, 981.5313278382523, 1008.2800871665102, 1007.8596873625585]
INTEREST = [0.0, 0.0, 0.13368061711349633, 11.571553368770873, 0.20527938688574499]
SPREAD = [0.0, 0.0, 10.001336806171, 25.763549255420, 0.256488144566]
FEES = [0.0, 0.0, 8.601015972690, 14.066597219034, 0.625679190837]


class TestCheckpoint:
    def test_one_entry_per_rebalancing_in_time_order(self, scenario):
        broker, _ = scenario
        tr = broker.track_record
        assert len(tr) == 5
        assert tr._time == T
        assert list(tr._rebalancing) == T
        assert all(type(t) is datetime for t in tr._time)
        assert [tr[i].time for i in range(5)] == [T[0], pd.Timestamp(2019, 1, 2)] + T[2:]
        assert tr[-1] is tr[T[4]]
        assert tr[pd.Timestamp(2019, 1, 2)] is tr[1]
        assert repr(tr) == "TrackRecord(2019-01-01 00:00:00:2020-01-04 00:00:00; items=5)"

    def test_burn_counter_and_trading_flag(self, scenario):
        broker, _ = scenario
        tr = broker.track_record
        assert tr._nr_steps_to_burn == 2
        assert tr._trading_started is True
        # An idle checkpoint after trading has started is not burnt.
        broker.rebalance(Rebalancing(absolute=False, time=datetime(2020, 1, 5)))
        assert len(tr) == 6
        assert tr[-1].trades == []
        assert tr._nr_steps_to_burn == 2
        assert tr._trading_started is True

    def test_flag_stays_false_while_idle(self):
        exchange = Exchange()
        quote(exchange, USD, 1, 1)
        quote(exchange, RATE, 0.0, 0.0)
        broker = Broker(exchange)
        for i in range(3):
            broker.rebalance(Rebalancing(time=datetime(2019, 1, i + 1)))
            assert broker.track_record._trading_started is False
            assert broker.track_record._nr_steps_to_burn == i + 1

    def test_duplicate_timestamp(self, scenario):
        broker, _ = scenario
        tr = broker.track_record
        for time in (datetime(2020, 1, 4), pd.Timestamp(2020, 1, 4)):
            with pytest.raises(ValueError) as info:
                broker.rebalance(Rebalancing(absolute=False, time=time))
            assert str(info.value) == (
                "All RebalancingResponse must have different timestamps. "
                "Duplicated timestamp found: 2020-01-04 00:00:00"
            )
        assert len(tr) == 5
        assert tr._time == T
        assert tr._nr_steps_to_burn == 2

    def test_unfilled_rebalancing_is_stored_before_failing(self):
        """A Rebalancing which never went through Broker.rebalance has no
        trades (Ellipsis): the entry is stored, then len() fails."""
        tr = TrackRecord()
        reb = Rebalancing(time=datetime(2019, 1, 1))
        with pytest.raises(TypeError):
            tr._checkpoint(reb)
        assert tr._time == [datetime(2019, 1, 1)]
        assert tr[0] is reb
        assert tr._nr_steps_to_burn == 0
        assert tr._trading_started is False
        with pytest.raises(AttributeError):
            tr.net_liquidation_value()
        with pytest.raises(AttributeError):
            tr.weights_actual(before_rebalancing=False)
        with pytest.raises(TypeError):
            tr.transaction_costs()

    def test_non_datetime_time_is_stored_as_is(self):
        exchange = Exchange()
        quote(exchange, USD, 1, 1)
        quote(exchange, RATE, 0.0, 0.0)
        broker = Broker(exchange)
        reb = Rebalancing(time=datetime(2019, 1, 1))
        # accrued_interest only needs times that can be subtracted and compared.
        reb.time = np.datetime64('2019-01-01').astype(datetime)
        broker.rebalance(reb)
        assert broker.track_record._time == [reb.time]


class TestViews:
    def test_nlv_matches_independent_ledger(self, scenario):
        broker, replay = scenario
        tr = broker.track_record
        pre = tr.net_liquidation_value().squeeze().tolist()
        post = tr.net_liquidation_value(before_rebalancing=False).squeeze().tolist()
        assert pre == pytest.approx([p for p, _ in replay], rel=1e-12)
        assert post == pytest.approx([p for _, p in replay], rel=1e-12)
        assert pre == pytest.approx(NLV_PRE, rel=1e-13)
        assert post == pytest.approx(NLV_POST, rel=1e-13)
        assert [r.profit_on_idle_cash for r in tr._rebalancing.values()] == pytest.approx(INTEREST, rel=1e-12)
        one_day = 1000 * (1.05 ** (86400 / SECONDS_IN_YEAR) - 1)
        assert tr[2].profit_on_idle_cash == pytest.approx(one_day, rel=1e-12)

    def test_nlv_frame_layout(self, scenario):
        tr = scenario[0].track_record
        df = tr.net_liquidation_value()
        assert isinstance(df, pd.DataFrame)
        assert list(df.columns) == ['Net liquidation value']
        assert df.index.name == 'Date'
        assert list(df.index) == [pd.Timestamp(t) for t in T]
        assert df.dtypes.tolist() == [np.float64]
        burnt = tr.net_liquidation_value(burn=True, name='x', index_name='t')
        assert list(burnt.columns) == ['x']
        assert burnt.index.name == 't'
        assert list(burnt.index) == [pd.Timestamp(t) for t in T[2:]]
        assert burnt['x'].tolist() == pytest.approx(NLV_PRE[2:], rel=1e-13)
        # Any truthy / falsy flag is accepted.
        assert tr.net_liquidation_value(0).squeeze().tolist() == pytest.approx(NLV_POST, rel=1e-13)
        assert tr.net_liquidation_value('yes', burn=1).squeeze().tolist() == pytest.approx(NLV_PRE[2:], rel=1e-13)

    def test_weights_target(self, scenario):
        tr = scenario[0].track_record
        df = tr.weights_target()
        assert list(df.columns) == [SPY, IEF]
        assert df.columns.name == 'Portfolio weights target'
        assert df.index.name == 'Date'
        assert set(df.dtypes) == {np.dtype('float32')}
        expected = np.array([
            [np.nan, np.nan],
            [np.nan, np.nan],
            [np.float32(0.51), 0.25],
            [np.nan, -0.5],
            [np.nan, -0.5],
        ], dtype=np.float32)
        # Cash and zero targets are not stored in the allocation.
        np.testing.assert_array_equal(df.values, expected)
        burnt = tr.weights_target(burn=True, name='w', index_name='t', aggregate_future_chain=True)
        assert burnt.columns.name == 'w'
        assert burnt.index.name == 't'
        assert list(burnt.columns) == [SPY, IEF]
        np.testing.assert_array_equal(burnt.values, expected[2:])

    def test_weights_actual(self, scenario):
        tr = scenario[0].track_record
        pre = tr.weights_actual()
        assert list(pre.columns) == [USD, SPY, IEF]
        assert pre.columns.name == 'Portfolio weights actual'
        assert pre.index.name == 'Date'
        assert set(pre.dtypes) == {np.dtype('float32')}
        np.testing.assert_allclose(
            pre.values,
            [
                [1, np.nan, np.nan],
                [1, np.nan, np.nan],
                [1, np.nan, np.nan],
                [0.235215067863, 0.532445192337, 0.232339724898],
                [1.522878885269, 0.0, -0.522878825665],
            ],
            rtol=1e-6,
        )
        post = tr.weights_actual(before_rebalancing=False, burn=True, aggregate_future_chain=True)
        assert list(post.index) == [pd.Timestamp(t) for t in T[2:]]
        np.testing.assert_allclose(
            post.values,
            [
                [0.235785722733, 0.509476184845, 0.254738092422],
                [1.522985339165, 0.0, -0.522985279560],
                [1.510733485222, 0.0, -0.510733544827],
            ],
            rtol=1e-6,
        )
        # Weights are the snapshot the broker took, cast to float32.
        for i, time in enumerate(T):
            for contract, weight in tr[i].context_pre.weights.items():
                assert pre.loc[time, contract] == np.float32(weight)

    def test_transaction_costs(self, scenario):
        tr = scenario[0].track_record
        df = tr.transaction_costs()
        assert list(df.columns) == ['Profit on idle Cash', 'Spread', 'Broker fees', 'Net liquidation value']
        assert df.index.name == 'Date'
        assert df['Profit on idle Cash'].tolist() == pytest.approx(np.cumsum(INTEREST).tolist(), rel=1e-12)
        assert df['Spread'].tolist() == pytest.approx(np.cumsum(SPREAD).tolist(), rel=1e-9)
        assert df['Broker fees'].tolist() == pytest.approx(np.cumsum(FEES).tolist(), rel=1e-9)
        assert df['Net liquidation value'].tolist() == pytest.approx(NLV_PRE, rel=1e-13)
        raw = tr.transaction_costs(burn=True, index_name='T', cumulative=False)
        assert list(raw.columns) == ['Profit on idle Cash', 'Spread', 'Broker fees']
        assert raw.index.name == 'T'
        assert list(raw.index) == [pd.Timestamp(t) for t in T[2:]]
        assert raw['Spread'].tolist() == pytest.approx(SPREAD[2:], rel=1e-9)
        assert raw['Broker fees'].tolist() == pytest.approx(FEES[2:], rel=1e-9)
        # Per-checkpoint values are the sums over the recorded trades.
        for i, time in enumerate(T[2:], start=2):
            trades = tr[i].trades
            assert raw.loc[time, 'Spread'] == sum(t.cost_of_spread for t in trades)
            assert raw.loc[time, 'Broker fees'] == sum(t.cost_of_commissions for t in trades)
        # Burning a cumulative frame burns before cumulating; NLV joins on index.
        burnt = tr.transaction_costs(burn=True)
        assert burnt['Spread'].tolist() == pytest.approx(np.cumsum(SPREAD[2:]).tolist(), rel=1e-9)
        assert burnt['Net liquidation value'].tolist() == pytest.approx(NLV_PRE[2:], rel=1e-13)

    def test_empty_track_record(self):
        tr = TrackRecord()
        assert len(tr) == 0
        assert tr.net_liquidation_value().shape == (0, 1)
        assert tr.net_liquidation_value(burn=True).shape == (0, 1)
        assert tr.weights_target().shape == (0, 0)
        assert tr.weights_actual(aggregate_future_chain=True).shape == (0, 0)
        costs = tr.transaction_costs()
        assert costs.shape == (0, 4)
        assert list(costs.columns) == ['Profit on idle Cash', 'Spread', 'Broker fees', 'Net liquidation value']
        assert tr.transaction_costs(cumulative=False).shape == (0, 3)
        # The snapshot flag is never evaluated when there is nothing to show.
        ambiguous = np.array([True, False])
        assert tr.net_liquidation_value(before_rebalancing=ambiguous).shape == (0, 1)
        assert tr.weights_actual(before_rebalancing=ambiguous).shape == (0, 0)

    def test_ambiguous_flag_raises_when_not_empty(self, scenario):
        tr = scenario[0].track_record
        with pytest.raises(ValueError):
            tr.net_liquidation_value(before_rebalancing=np.array([True, False]))
        with pytest.raises(ValueError):
            tr.weights_actual(before_rebalancing=np.array([True, False]))


class TestEpisode:
    def make_env(self):
        days = [datetime(2019, 1, d) for d in range(1, 7)]
        spy = [100, 104, 101, 108, 110, 105]
        ief = [50, 49, 51, 50, 52, 53]
        transmitter = Transmitter(timesteps=days)
        events = []
        for day, s, i in zip(days, spy, ief):
            events.append(EventNBBO(day, SPY, s - 0.5, s + 0.5))
            events.append(EventNBBO(day, IEF, i - 0.25, i + 0.25))
            events.append(EventNBBO(day + timedelta(seconds=30), SPY, s + 0.5, s + 1.5))
        transmitter.add_events(events)
        return TradingEnv(
            action_space=[USD, SPY, IEF],
            transmitter=transmitter,
            initial_cash=1000,
        )

    def test_track_record_of_an_episode(self):
        env = self.make_env()
        env.reset()
        actions = ([0.2, 0.5, 0.3], [0.0, 0.7, 0.3], [1.0, 0, 0], [0.1, 0.1, 0.8], [0.5, 0.5, 0.0])
        rewards = []
        done = False
        for action in actions:
            assert not done
            _, reward, done, info = env.step(np.array(action))
            rewards.append(reward)
            assert info["_rebalancing"] is env.broker.track_record[-1]
        assert done
        tr = env.broker.track_record
        assert tr._time == [datetime(2019, 1, d) for d in range(1, 6)]
        assert tr._nr_steps_to_burn == 0
        pre = tr.net_liquidation_value().squeeze().tolist()
        post = tr.net_liquidation_value(False).squeeze().tolist()
        assert pre == pytest.approx(
            [1000.0, 1005.9701492537313, 996.1677295885231, 996.1677295885231, 1020.8749366378127], rel=1e-13)
        assert post == pytest.approx(
            [992.0398009950248, 1004.1279237601129, 996.1677295885231, 987.3199092789512, 1017.1737199728295], rel=1e-13)
        assert rewards == pytest.approx(
            [0.005970149253731183, -0.009744245067788482, 0.0, 0.02480225600110053, -0.026249968264203005], abs=1e-14)
        final = env.broker.net_liquidation_value()
        assert final == pytest.approx(994.0770019493498, rel=1e-13)
        assert np.prod([1 + r for r in rewards]) == pytest.approx(final / 1000, rel=1e-12)
        costs = tr.transaction_costs(cumulative=False)
        assert costs['Broker fees'].tolist() == [0.0] * 5
        assert costs['Profit on idle Cash'].tolist() == [0.0] * 5
        assert costs['Spread'].tolist() == pytest.approx(
            [7.960199004975124, 1.8422254936185407, 9.802424498593664, 8.847820309571816, 11.630910034841952], rel=1e-12)
        target = tr.weights_target()
        # Cash and zero targets are not stored in the allocation.
        assert list(target.columns) == [SPY, IEF]
        nan = np.nan
        np.testing.assert_array_equal(
            target.values,
            np.array([[0.5, 0.3], [0.7, 0.3], [nan, nan], [0.1, 0.8], [0.5, nan]], dtype=np.float32),
        )
