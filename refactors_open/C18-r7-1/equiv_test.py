"""Behaviour of TradingEnvXY.__init__ (bounds, transformer selection, feature
preparation, warm-up trimming, reference rate) pinned to concrete values. Must
pass both with and without the refactoring of edit 1.

Run from the root of the worktree:
    /venv/bin/python -m pytest -q -p no:cacheprovider /tmp/wt-out7/C18/1/equiv_test.py
"""
from tradingenv.env import TradingEnvXY
from tradingenv.contracts import Rate, Asset
from tradingenv.events import EventNBBO, EventNewObservation
from tradingenv.rewards import LogReturn
from sklearn.preprocessing import StandardScaler, PowerTransformer
import numpy as np
import pandas as pd
import pytest


def make_data(n=40, start='2022-01-03', nx=2, ny=2):
    dates = pd.date_range(start, periods=n, freq='B')
    i = np.arange(n, dtype=float)
    X = pd.DataFrame(
        {f'f{k}': np.round(np.sin(i * (k + 1) / 3.0) * (k + 2), 6) for k in range(nx)},
        index=dates,
    )
    Y = pd.DataFrame(
        {f'A{k}': 100.0 + i * (k + 1) + (i % 3) for k in range(ny)},
        index=dates,
    )
    return X, Y


def ts(x):
    return pd.Timestamp(x)


class TestWarmupTrimming:
    def test_start_is_postponed_when_features_and_prices_start_together(self):
        X, Y = make_data()
        env = TradingEnvXY(X, Y, transformer=None, window=3)
        # Features are all kept, prices are postponed by window - 1 rows and
        # the first `window` dates are skipped.
        assert env.X.index[0] == ts('2022-01-03')
        assert env.Y.index[0] == ts('2022-01-05')
        assert env.X.shape == (40, 2)
        assert env.Y.shape == (38, 2)
        assert env.start == ts('2022-01-10')
        assert env.end == ts('2022-02-25')
        assert len(env._transmitter.timesteps) == 33
        obs = env.reset()
        np.testing.assert_array_equal(obs, [
            [1.682942, 2.727892],
            [1.943876, 1.371818],
            [1.990816, -0.571704],
        ])
        np.testing.assert_array_equal(obs, X.loc['2022-01-06':'2022-01-10'].values)
        assert env.now() == ts('2022-01-10')

    def test_enough_features_before_prices(self):
        X, Y = make_data()
        env = TradingEnvXY(X, Y.iloc[10:], transformer=None, window=4)
        # Only window - 1 rows of features before the first price are kept.
        assert env.X.index[0] == ts('2022-01-12')
        assert env.Y.index[0] == ts('2022-01-17')
        assert env.X.shape == (33, 2)
        assert env.Y.shape == (30, 2)
        # 2022-01-17 is a NYSE holiday, then four dates are skipped.
        assert env.start == ts('2022-01-24')
        assert env.end == ts('2022-02-25')
        obs = env.reset()
        np.testing.assert_array_equal(obs, [
            [-1.513605, 2.968075],
            [-1.858029, 2.062654],
            [-1.99791, 0.273952],
            [-1.917849, -1.632063],
        ])

    def test_window_one(self):
        X, Y = make_data()
        env = TradingEnvXY(X, Y, transformer=None)
        assert env.X.index[0] == ts('2022-01-03')
        assert env.Y.index[0] == ts('2022-01-03')
        assert env.start == ts('2022-01-04')
        obs = env.reset()
        np.testing.assert_array_equal(obs, [[0.654389, 1.855109]])
        assert env.observation_space.shape == (1, 2)

    @pytest.mark.parametrize('window', [1, 2, 5, 30])
    def test_never_before_full_window(self, window):
        X, Y = make_data(n=80)
        env = TradingEnvXY(X, Y, transformer=None, window=window)
        obs = env.reset()
        t = env.now()
        assert obs.shape == (window, 2)
        np.testing.assert_array_equal(obs, X.loc[:t].iloc[-window:].values)
        assert env.observation_space.contains(obs)
        assert env.observation_space.high.max() == 5
        assert env.observation_space.low.min() == -5


class TestBounds:
    def test_string_bounds_wider_than_prices_on_the_left(self):
        X, Y = make_data()
        env = TradingEnvXY(X, Y, start='2021-12-01', end='2022-02-10', transformer=None)
        assert env.start == ts('2022-01-04')
        assert env.end == ts('2022-02-10')
        assert (env.X.index[0], env.X.index[-1]) == (ts('2022-01-03'), ts('2022-02-10'))
        assert (env.Y.index[0], env.Y.index[-1]) == (ts('2022-01-03'), ts('2022-02-10'))

    def test_string_bounds_wider_than_prices_on_the_right(self):
        X, Y = make_data()
        env = TradingEnvXY(X, Y, start='2022-01-20', end='2023-01-01', transformer=None, window=2)
        assert env.start == ts('2022-01-24')
        assert env.end == ts('2022-02-25')
        assert (env.X.index[0], env.X.index[-1]) == (ts('2022-01-19'), ts('2022-02-25'))
        assert (env.Y.index[0], env.Y.index[-1]) == (ts('2022-01-20'), ts('2022-02-25'))

    def test_timestamp_bounds(self):
        X, Y = make_data()
        env = TradingEnvXY(X, Y, start=ts('2022-01-20'), end=ts('2022-02-01'), transformer=None, window=2)
        assert env.start == ts('2022-01-24')
        assert env.end == ts('2022-02-01')
        assert (env.X.index[0], env.X.index[-1]) == (ts('2022-01-19'), ts('2022-02-01'))
        assert (env.Y.index[0], env.Y.index[-1]) == (ts('2022-01-20'), ts('2022-02-01'))

    def test_bounds_ignore_leading_and_trailing_missing_prices(self):
        X, Y = make_data()
        Y.iloc[:3] = np.nan
        Y.iloc[-2:] = np.nan
        env = TradingEnvXY(X, Y, transformer=None)
        assert env.Y.index[0] == ts('2022-01-06')
        assert env.Y.index[-1] == ts('2022-02-23')
        assert env.X.index[0] == ts('2022-01-06')
        assert env.X.index[-1] == ts('2022-02-23')
        assert env.start == ts('2022-01-07')
        assert env.end == ts('2022-02-23')


class TestFeaturePreparation:
    def test_missing_values_are_forward_filled_then_zeroed_then_clipped(self):
        X, Y = make_data()
        X.iloc[0:2, 0] = np.nan
        X.iloc[5:8, 1] = np.nan
        env = TradingEnvXY(X, Y, transformer=None, clip=1.5)
        np.testing.assert_array_equal(env.X.iloc[:10].values, [
            [0., 0.],
            [0., 1.5],
            [1.23674, 1.5],
            [1.5, 1.5],
            [1.5, 1.371818],
            [1.5, 1.371818],
            [1.5, 1.371818],
            [1.446172, 1.371818],
            [0.914545, -1.5],
            [0.28224, -0.838246],
        ])
        assert env.X.min().tolist() == [-1.5, -1.5]
        assert env.X.max().tolist() == [1.5, 1.5]
        # The table given by the user is left untouched.
        assert np.isnan(X.iloc[0, 0]) and np.isnan(X.iloc[6, 1])
        assert X.iloc[3, 0] == 1.682942

    def test_features_are_reindexed_on_price_dates(self):
        X, Y = make_data()
        X = X.iloc[::2]  # every other day is missing from the features
        env = TradingEnvXY(X, Y, transformer=None, window=2)
        assert env.X.index.equals(Y.index)
        np.testing.assert_array_equal(env.X.iloc[1].values, env.X.iloc[0].values)
        np.testing.assert_array_equal(env.X.iloc[3].values, X.iloc[1].values)
        obs = env.reset()
        assert env.now() == ts('2022-01-06')
        np.testing.assert_array_equal(obs, [
            [1.23674, 2.915814],
            [1.23674, 2.915814],
        ])

    def test_features_after_end_are_dropped(self):
        X, Y = make_data()
        env = TradingEnvXY(X, Y.iloc[:20], transformer=None)
        assert env.X.index[-1] == Y.index[19]
        assert env.end == Y.index[19]


class TestTransformers:
    def test_no_transformer(self):
        X, Y = make_data()
        env = TradingEnvXY(X, Y, transformer=None)
        assert isinstance(env.transformer, StandardScaler)
        assert env.transformer.with_mean is False
        assert env.transformer.with_std is False
        np.testing.assert_array_equal(env.X.values, X.values)

    def test_zscore(self):
        X, Y = make_data()
        env = TradingEnvXY(X, Y, transformer='z-score', window=2)
        assert type(env.transformer) is StandardScaler
        np.testing.assert_allclose(env.transformer.mean_, [0.0242583, 0.06683537], rtol=1e-6)
        np.testing.assert_allclose(env.transformer.scale_, [1.3795582, 2.09234776], rtol=1e-6)
        np.testing.assert_allclose(env.X.iloc[:3].values, [
            [-0.017584107667075282, -0.03194276608258835],
            [0.45676267805779974, 0.8546732339728377],
            [0.8788912972944718, 1.3616181220299766],
        ], rtol=1e-9)

    def test_zscore_fitted_until_transformer_end(self):
        X, Y = make_data()
        env = TradingEnvXY(X, Y, transformer='z-score', window=2, transformer_end='2022-01-31')
        assert env.transformer.n_samples_seen_ == 21
        np.testing.assert_allclose(env.transformer.mean_, [0.03837629, 0.10732476], rtol=1e-6)
        np.testing.assert_allclose(env.transformer.scale_, [1.34951283, 2.05944498], rtol=1e-6)
        assert isinstance(env._reward, LogReturn)
        assert env._reward.scale == pytest.approx(0.012373984560957502, rel=1e-9)

    def test_yeo_johnson_is_default(self):
        X, Y = make_data()
        env = TradingEnvXY(X, Y, window=2)
        assert type(env.transformer) is PowerTransformer
        assert env.transformer.method == 'yeo-johnson'
        np.testing.assert_allclose(env.transformer.lambdas_, [1.045313, 1.03896201], rtol=1e-5)
        np.testing.assert_allclose(env.X.iloc[:3].values, [
            [-0.03897697735025072, -0.05660471307783339],
            [0.4411330715971667, 0.8508862800324007],
            [0.8759834111901635, 1.3820234063266315],
        ], rtol=1e-5)

    def test_fitted_instance_is_used_as_is(self):
        X, Y = make_data()
        scaler = StandardScaler().fit(X.iloc[:5])
        mean, scale = scaler.mean_.copy(), scaler.scale_.copy()
        env = TradingEnvXY(X, Y, transformer=scaler, window=2)
        assert env.transformer is scaler
        assert scaler.n_samples_seen_ == 5
        np.testing.assert_array_equal(scaler.mean_, mean)
        np.testing.assert_allclose(env.X.values, ((X - mean) / scale).clip(-5, 5).values, rtol=1e-12)

    def test_unfitted_instance_is_fitted(self):
        X, Y = make_data()
        scaler = StandardScaler()
        env = TradingEnvXY(X, Y, transformer=scaler, end='2022-01-31')
        assert env.transformer is scaler
        assert scaler.n_samples_seen_ == 21

    @pytest.mark.parametrize('bad', ['minmax', 0, 1.5, ''])
    def test_unsupported_transformer(self, bad):
        X, Y = make_data()
        with pytest.raises(ValueError) as e:
            TradingEnvXY(X, Y, transformer=bad)
        assert str(e.value) == f"Unsupported transformer: {bad}"

    def test_unsupported_reward(self):
        X, Y = make_data()
        with pytest.raises(NotImplementedError) as e:
            TradingEnvXY(X, Y, reward='pnl')
        assert str(e.value) == "Unsupported reward: pnl"

    def test_unsupported_transformer_is_reported_before_unsupported_reward(self):
        X, Y = make_data()
        with pytest.raises(ValueError):
            TradingEnvXY(X, Y, transformer='minmax', reward='pnl')


class TestRate:
    def test_zero_rate_by_default(self):
        X, Y = make_data()
        env = TradingEnvXY(X, Y, transformer=None)
        events = env._transmitter.events
        assert not [e for e in events if isinstance(e, EventNBBO) and isinstance(e.contract, Rate)]
        assert env._broker_fees.interest_rate == Rate('Zero Rate')

    def test_given_rate_is_served_between_start_and_end(self):
        X, Y = make_data()
        rate = pd.Series(0.01 + np.arange(40) * 0.001, index=X.index, name='FED')
        env = TradingEnvXY(X, Y, transformer=None, rate=rate, window=3)
        quotes = [e for e in env._transmitter.events if isinstance(e, EventNBBO) and e.contract == Rate('FED')]
        assert len(quotes) == 38
        assert quotes[0].time == ts('2022-01-05')
        assert quotes[0].bid_price == quotes[0].ask_price == 0.012
        assert quotes[-1].time == ts('2022-02-25')
        assert quotes[-1].bid_price == quotes[-1].ask_price == 0.049
        assert env._broker_fees.interest_rate == Rate('FED')
        # The series of the user keeps its name.
        assert rate.name == 'FED'
        env.reset()
        assert env.exchange[Rate('FED')].mid_price == pytest.approx(0.015)

    def test_rate_as_single_column_frame(self):
        X, Y = make_data()
        rate = pd.Series(0.01 + np.arange(40) * 0.001, index=X.index, name='FED')
        env = TradingEnvXY(X, Y, transformer=None, rate=rate.to_frame())
        quotes = [e for e in env._transmitter.events if isinstance(e, EventNBBO) and e.contract == Rate('FED')]
        assert len(quotes) == 40

    def test_rate_as_percentage_is_rejected(self):
        X, Y = make_data()
        rate = pd.Series(1. + np.arange(40) * 0.1, index=X.index, name='FED')
        with pytest.raises(ValueError) as e:
            TradingEnvXY(X, Y, rate=rate)
        assert str(e.value) == (
            "Argument `rate` is expressed as a percentage and it "
            "shouldn't. For example, 1% should be expressed as 0.01."
        )


class TestSpaces:
    def test_spaces_and_contracts(self):
        X, Y = make_data(nx=3, ny=2)
        env = TradingEnvXY(X, Y, transformer=None, window=6, stride=4, max_long=0.8, max_short=-0.3)
        assert env.observation_space.shape == (2, 3)
        assert env.observation_space.high.tolist() == [[5.0] * 3] * 2
        assert env.observation_space.low.tolist() == [[-5.0] * 3] * 2
        assert list(env.Y.columns) == [Asset('A0'), Asset('A1')]
        assert list(env.action_space.contracts) == [Asset('A0'), Asset('A1')]
        assert env.action_space.high.tolist() == [0.8, 0.8]
        assert env.action_space.low.tolist() == [-0.3, -0.3]
        obs = env.reset()
        t = env.now()
        np.testing.assert_array_equal(obs, X.loc[:t].iloc[-6:].values[::-4][::-1])

    def test_full_episode_serves_the_published_table(self):
        X, Y = make_data()
        env = TradingEnvXY(X, Y, transformer='z-score', window=3, stride=2, clip=1.)
        obs = env.reset()
        done = False
        nr_steps = 0
        while not done:
            t = env.now()
            expected = env.X.loc[:t].iloc[-3:].values[::-2][::-1]
            np.testing.assert_array_equal(obs, expected)
            assert np.abs(obs).max() <= 1.
            assert t in env.Y.index
            obs, reward, done, info = env.step(np.array([0.5, 0.5]))
            nr_steps += 1
        assert nr_steps == 32
        assert env.now() == ts('2022-02-25')
