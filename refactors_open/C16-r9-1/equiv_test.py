"""Equivalence test for edit 1 (kind B): level() fast path + single
`index.date`, validate() reading `.values` once, tearsheet() measuring the
risk-free CAGR once. Must pass with and without the edit."""
import datetime

import numpy as np
import pandas as pd
import pytest

import tradingenv  # noqa: F401  (registers the metrics on pandas objects)
from tradingenv.metrics import BDAYS


def _daily(values, start="2019-01-01", freq="B", name=None):
    index = pd.date_range(start=start, periods=len(values), freq=freq)
    return pd.Series(np.asarray(values, dtype=float), index, name=name)


VALUES = [1.0, 1.01, 1.03, 0.99, 1.02, 1.03, 1.0, 0.98]


# --------------------------------------------------------------------- level
def test_level_returns_same_object_for_daily_midnight_index():
    series = _daily(VALUES)
    assert series.level() is series
    frame = pd.DataFrame({"a": VALUES, "b": VALUES[::-1]}, index=series.index)
    assert frame.level() is frame


def test_level_returns_same_object_for_one_intraday_stamp_per_day():
    # Not normalised (16:00 stamps) but still one observation per day.
    index = pd.date_range("2019-01-01 16:00", periods=5, freq="D")
    series = pd.Series([1.0, 1.1, 1.2, 1.1, 1.3], index)
    assert not index.is_normalized
    assert series.level() is series


def test_level_keeps_last_observation_of_each_day_intraday():
    index = pd.DatetimeIndex(
        [
            "2019-01-01 00:00",
            "2019-01-01 12:00",
            "2019-01-02 00:00",
            "2019-01-03 09:30",
            "2019-01-03 16:00",
            "2019-01-03 23:59",
        ]
    )
    series = pd.Series([1.0, 2.0, 3.0, 4.0, 5.0, 6.0], index, name="x")
    level = series.level()
    assert list(level.index) == [
        datetime.date(2019, 1, 1),
        datetime.date(2019, 1, 2),
        datetime.date(2019, 1, 3),
    ]
    assert level.index.dtype == object
    assert level.tolist() == [2.0, 3.0, 6.0]
    assert level.name == "x"
    assert series.simple_returns().tolist() == [0.5, 1.0]
    # Scale invariance of a returns based metric on the intraday series.
    assert (series * 7.0).simple_returns().tolist() == [0.5, 1.0]
    frame = pd.DataFrame({"a": series, "b": series * 2})
    level = frame.level()
    assert level["a"].tolist() == [2.0, 3.0, 6.0]
    assert level["b"].tolist() == [4.0, 6.0, 12.0]


def test_level_collapses_two_local_midnights_of_the_same_day_tz_aware():
    # Atlantic/Azores, 2021-10-31: clocks go back from 01:00 to 00:00, so local
    # midnight happens twice. The index is normalised (all local midnights),
    # has no duplicates, is increasing - and still has two rows on one date.
    index = pd.DatetimeIndex(
        ["2021-10-30 00:00", "2021-10-31 00:00", "2021-10-31 00:00", "2021-11-01 00:00"],
        tz="Atlantic/Azores",
        ambiguous=[False, True, False, False],
    )
    assert index.is_normalized and not index.has_duplicates
    assert index.is_monotonic_increasing
    series = pd.Series([1.0, 2.0, 3.0, 4.0], index)
    level = series.level()
    assert list(level.index) == [
        datetime.date(2021, 10, 30),
        datetime.date(2021, 10, 31),
        datetime.date(2021, 11, 1),
    ]
    assert level.tolist() == [1.0, 3.0, 4.0]
    assert series.simple_returns().tolist() == [2.0, 4.0 / 3.0 - 1]
    assert series.drawdown().tolist() == [0.0, 0.0, 0.0]


def test_level_tz_aware_one_observation_per_day_is_returned_as_is():
    index = pd.date_range("2019-01-01", periods=4, freq="D", tz="Europe/London")
    series = pd.Series([1.0, 1.5, 1.2, 1.8], index)
    assert series.level() is series
    assert series.max_drawdown() == 1.2 / 1.5 - 1


def test_level_of_empty_series_is_the_series_itself():
    series = pd.Series([], index=pd.DatetimeIndex([]), dtype=float)
    assert series.level() is series


# ------------------------------------------------------------------ validate
@pytest.mark.parametrize(
    "series, message",
    [
        (
            pd.Series([1, np.nan, 3], pd.date_range("2019-01-01", periods=3)),
            "Missing values are not allowed.",
        ),
        (
            pd.Series([1, -1, 3], pd.date_range("2019-01-01", periods=3)),
            "all values must be positive.",
        ),
        (
            pd.Series([1, 0.0, 3], pd.date_range("2019-01-01", periods=3)),
            "all values must be positive.",
        ),
        (
            pd.Series(
                [1, 2, 3],
                pd.DatetimeIndex(["2019-01-01", "2019-01-02", "2019-01-02"]),
            ),
            "Duplicate indices have been found",
        ),
        (pd.Series([1, 2, 3]), "Input index must be a DatetimeIndex"),
        (
            pd.Series(
                [1, 2, 3], pd.DatetimeIndex(["2019-01-01", pd.NaT, "2019-01-02"])
            ),
            "Input must not missing values in the index.",
        ),
        (
            pd.Series(
                [1, 2, 3],
                pd.DatetimeIndex(["2019-01-02", "2019-01-03", "2019-01-01"]),
            ),
            "Input index must be monotonic increasing.",
        ),
    ],
)
def test_invalid_levels_are_rejected_everywhere(series, message):
    for call in (
        series.validate,
        series.level,
        series.cagr,
        series.volatility,
        series.max_drawdown,
        series.sharpe_ratio,
        series.to_frame("x").validate,
        series.to_frame("x").drawdown,
    ):
        with pytest.raises(ValueError) as error:
            call()
        assert message in str(error.value)


def test_first_failing_check_wins():
    # NaN value AND non positive value AND duplicated, unsorted index.
    series = pd.Series(
        [np.nan, -1.0, 3.0],
        pd.DatetimeIndex(["2019-01-02", "2019-01-02", "2019-01-01"]),
    )
    with pytest.raises(ValueError, match="Missing values"):
        series.validate()
    with pytest.raises(ValueError, match="must be positive"):
        series.fillna(1.0).validate()
    with pytest.raises(ValueError, match="Duplicate"):
        series.fillna(1.0).abs().validate()
    with pytest.raises(TypeError):
        pd.Series(["a", "b"], pd.date_range("2019-01-01", periods=2)).validate()


def test_validate_mixed_dtype_frame_and_no_mutation():
    index = pd.date_range("2019-01-01", periods=4, freq="D")
    frame = pd.DataFrame({"i": [1, 2, 3, 4], "f": [1.0, 1.5, 1.2, 1.8]}, index)
    before = frame.copy(deep=True)
    assert frame.validate() is None
    assert frame.level() is frame
    pd.testing.assert_frame_equal(frame, before)
    assert frame.dtypes.tolist() == [np.dtype("int64"), np.dtype("float64")]
    years = 3 / 365
    cagr = frame.cagr()
    assert cagr["i"] == (4 / 1) ** (1 / years) - 1
    assert cagr["f"] == (1.8 / 1.0) ** (1 / years) - 1
    frame.loc[index[1], "f"] = -1.0
    with pytest.raises(ValueError, match="must be positive"):
        frame.validate()


# ------------------------------------------------------------------- metrics
def test_metrics_equal_their_definitions_and_are_scale_invariant():
    series = _daily(VALUES)
    values = np.asarray(VALUES)
    returns = values[1:] / values[:-1] - 1
    years = (series.index[-1] - series.index[0]).days / 365
    for scale in (1.0, 1000.0, 1 / 3):
        scaled = series * scale
        assert scaled.cagr() == pytest.approx((0.98 / 1.0) ** (1 / years) - 1, rel=1e-12)
        assert scaled.volatility() == pytest.approx(
            np.sqrt(252) * returns.std(ddof=1), rel=1e-12
        )
        drawdown = values / np.maximum.accumulate(values) - 1
        assert scaled.drawdown().to_numpy() == pytest.approx(drawdown, abs=1e-12)
        assert scaled.max_drawdown() == pytest.approx(0.98 / 1.03 - 1, rel=1e-12)
        assert scaled.martin_risk() == pytest.approx(
            np.sqrt(np.mean(drawdown ** 2)), rel=1e-12
        )
        assert scaled.downside_volatility() == pytest.approx(
            np.sqrt(252) * returns[returns < 0].std(ddof=1), rel=1e-12
        )
        assert scaled.upside_volatility() == pytest.approx(
            np.sqrt(252) * returns[returns > 0].std(ddof=1), rel=1e-12
        )
        assert scaled.value_at_risk(0.05) == pytest.approx(
            np.quantile(returns, 0.05), rel=1e-12
        )
    assert series.volatility() == pytest.approx(0.4208213960697436, rel=1e-9)
    assert BDAYS == 252


# ----------------------------------------------------------------- tearsheet
def _tearsheet_inputs():
    index = pd.date_range("2019-01-01", periods=8, freq="B")
    nlv = pd.Series(VALUES, index, name="nlv")
    risk_free = pd.Series(
        [1.0, 1.0001, 1.0002, 1.0004, 1.0005, 1.0006, 1.0008, 1.0009],
        index,
        name="cash",
    )
    benchmark = pd.Series(
        [1.0, 1.011, 1.0298, 0.991, 1.0208, 1.031, 1.0, 0.979], index, name="bm"
    )
    return nlv, risk_free, benchmark


def test_tearsheet_with_risk_free_series_matches_the_individual_metrics():
    nlv, risk_free, benchmark = _tearsheet_inputs()
    sheet = nlv.tearsheet(benchmark=benchmark, risk_free=risk_free)
    assert list(sheet.columns) == [0]
    col = sheet[0]
    years = 9 / 365
    rf_cagr = (1.0009 / 1.0) ** (1 / years) - 1
    cagr = (0.98 / 1.0) ** (1 / years) - 1
    assert col[("Context", "From")] == datetime.date(2019, 1, 1)
    assert col[("Context", "To")] == datetime.date(2019, 1, 10)
    assert col[("Context", "Years")] == years
    assert col[("Context", "Observations")] == 8
    assert col[("Context", "Risk-free asset")] == "cash"
    assert col[("Context", "Risk-free CAGR")] == pytest.approx(rf_cagr, rel=1e-12)
    assert col[("Return", "CAGR")] == pytest.approx(cagr, rel=1e-12)
    # Bit for bit the same as the stand-alone calls with the series ...
    assert col[("Context", "Risk-free CAGR")] == risk_free.cagr()
    assert col[("Return", "CAGR over cash")] == nlv.excess_cagr(risk_free)
    assert col[("Return", "CAGR over cash")] == nlv.cagr() - risk_free.cagr()
    assert col[("Risk-adjusted return", "Sharpe ratio")] == nlv.sharpe_ratio(risk_free)
    assert col[("Risk-adjusted return", "Sortino ratio")] == nlv.sortino_ratio(risk_free)
    assert col[("Risk-adjusted return", "Calmar ratio")] == nlv.calmar_ratio(risk_free)
    assert col[("Risk-adjusted return", "Martin ratio")] == nlv.martin_ratio(risk_free)
    assert col[("Risk-adjusted return", "Omega ratio")] == nlv.omega_ratio(risk_free)
    # ... and with the number.
    rate = risk_free.cagr()
    assert col[("Risk-adjusted return", "Sharpe ratio")] == nlv.sharpe_ratio(rate)
    assert col[("Risk-adjusted return", "Omega ratio")] == nlv.omega_ratio(rate)
    # Textbook definitions.
    assert col[("Risk-adjusted return", "Sharpe ratio")] == pytest.approx(
        (cagr - rf_cagr) / nlv.volatility(), rel=1e-12
    )
    assert col[("Risk-adjusted return", "Calmar ratio")] == pytest.approx(
        (cagr - rf_cagr) / -(0.98 / 1.03 - 1), rel=1e-12
    )
    assert col[("Outperformance", "Benchmark id")] == "bm"
    assert col[("Outperformance", "CAGR over benchmark")] == nlv.cagr() - benchmark.cagr()
    assert col[("Outperformance", "Information ratio")] == nlv.information_ratio(benchmark)
    assert col[("Outperformance", "CAPM Beta")] == nlv.beta(benchmark, risk_free)
    assert col[("Outperformance", "CAPM Alpha")] == nlv.alpha(benchmark, risk_free)
    assert list(sheet.index.get_level_values(0).unique()) == [
        "Context", "Return", "Risk", "Risk-adjusted return", "Outperformance",
    ]
    assert len(sheet) == 29
    # Scale invariance of the whole sheet (the levels only enter as ratios).
    scaled = (nlv * 4.0).rename("nlv").tearsheet(
        benchmark=benchmark * 0.5, risk_free=risk_free * 8.0
    )
    for key in sheet.index:
        if key[0] == "Context" or key[1] == "Benchmark id":
            assert scaled[0][key] == col[key]
        else:
            assert scaled[0][key] == pytest.approx(col[key], rel=1e-9, nan_ok=True)


def test_tearsheet_with_numeric_risk_free():
    nlv, _, _ = _tearsheet_inputs()
    sheet = nlv.tearsheet(risk_free=0.02)[0]
    synthetic = nlv.make_series_from_cagr(0.02, "RiskFree")
    assert sheet[("Context", "Risk-free asset")] == "RiskFree"
    assert sheet[("Context", "Risk-free CAGR")] == synthetic.cagr()
    assert sheet[("Return", "CAGR over cash")] == nlv.cagr() - synthetic.cagr()
    assert sheet[("Risk-adjusted return", "Sharpe ratio")] == nlv.sharpe_ratio(synthetic)
    assert sheet[("Risk-adjusted return", "Martin ratio")] == nlv.martin_ratio(synthetic)
    sheet0 = nlv.tearsheet()[0]
    assert sheet0[("Context", "Risk-free CAGR")] == 0.0
    assert sheet0[("Return", "CAGR over cash")] == nlv.cagr()
    assert sheet0[("Risk-adjusted return", "Calmar ratio")] == nlv.cagr() / -nlv.max_drawdown()


def test_tearsheet_rejects_invalid_risk_free_or_levels():
    nlv, risk_free, benchmark = _tearsheet_inputs()
    bad = risk_free.copy()
    bad.iloc[3] = np.nan
    with pytest.raises(ValueError, match="Missing values"):
        nlv.tearsheet(risk_free=bad)
    bad = risk_free.copy()
    bad.iloc[3] = 0.0
    with pytest.raises(ValueError, match="must be positive"):
        nlv.tearsheet(risk_free=bad)
    bad = nlv.copy()
    bad.iloc[-1] = -0.5
    with pytest.raises(ValueError, match="must be positive"):
        bad.tearsheet(risk_free=risk_free, benchmark=benchmark)


def test_tearsheet_with_multi_column_risk_free_frame_fails_as_before():
    nlv, risk_free, _ = _tearsheet_inputs()
    frame = pd.DataFrame({"a": risk_free, "b": risk_free * 2})
    with pytest.raises(AttributeError, match="name"):
        nlv.tearsheet(risk_free=frame)
    # A column called 'name' makes `frame.name` resolve; the parsed rate is
    # then a Series (one CAGR per column) and omega_ratio rejects it.
    frame = pd.DataFrame({"name": risk_free, "b": risk_free * 2})
    with pytest.raises(ValueError, match="Input index must be a DatetimeIndex"):
        nlv.tearsheet(risk_free=frame)


def test_tearsheet_intraday_inputs():
    index = pd.date_range("2019-01-01 09:00", periods=12, freq="12h")
    nlv = pd.Series(np.linspace(1.0, 1.2, 12) * np.array([1, 0.99] * 6), index, name="nlv")
    risk_free = pd.Series(np.linspace(1.0, 1.001, 12), index, name="cash")
    sheet = nlv.tearsheet(risk_free=risk_free)[0]
    daily = nlv.iloc[1::2]
    returns = daily.to_numpy()[1:] / daily.to_numpy()[:-1] - 1
    assert sheet[("Context", "Observations")] == 12
    assert sheet[("Risk", "Volatility")] == pytest.approx(
        np.sqrt(252) * returns.std(ddof=1), rel=1e-12
    )
    assert sheet[("Risk-adjusted return", "Sharpe ratio")] == nlv.sharpe_ratio(risk_free)
    assert sheet[("Risk-adjusted return", "Sharpe ratio")] == pytest.approx(
        (nlv.cagr() - risk_free.cagr()) / (np.sqrt(252) * returns.std(ddof=1)), rel=1e-12
    )
