"""Behaviour of Rebalancing.make_trades / Broker.rebalance that must be the
same before and after splitting make_trades in private methods."""
from tradingenv.broker.broker import Broker, EndOfEpisodeError
from tradingenv.broker.fees import BrokerFees
from tradingenv.broker.rebalancing import Rebalancing
from tradingenv.broker.trade import Trade
from tradingenv.contracts import Cash, ETF, ES, Rate
from tradingenv.events import EventNBBO, EventContractDiscontinued
from tradingenv.exchange import Exchange
from datetime import datetime, timedelta
import pytest

T0 = datetime(2020, 1, 2)
SPY, IEF, ESH = ETF('SPY'), ETF('IEF'), ES(2020, 3)


def make_broker(deposit=1000.0, spread=True, fees=None):
    quotes = {
        Cash(): (1.0, 1.0),
        Rate('FED funds rate'): (0.0, 0.0),
        SPY: (99.0, 100.0) if spread else (100.0, 100.0),
        IEF: (49.0, 50.0) if spread else (50.0, 50.0),
        ESH: (2000.0, 2002.0) if spread else (2000.0, 2000.0),
    }
    exchange = Exchange()
    for contract, (bid, ask) in quotes.items():
        exchange.process_EventNBBO(EventNBBO(T0, contract, bid, ask))
    return Broker(exchange, Cash(), deposit, fees or BrokerFees())


def exact(trades):
    return [
        (t.time, t.contract, t.quantity, t.bid_price, t.ask_price)
        for t in trades
    ]


def test_weights_from_cash_long_short_and_cash_key_ignored():
    broker = make_broker()
    reb = Rebalancing([Cash(), SPY, IEF], [0.7, 0.6, -0.3], time=T0)
    trades = reb.make_trades(broker)
    assert exact(trades) == [
        (T0, SPY, 0.6 * 1000.0 / 100.0 / 1.0, 99.0, 100.0),
        (T0, IEF, -0.3 * 1000.0 / 49.0 / 1.0, 49.0, 50.0),
    ]
    assert trades[0].quantity == 6.0
    assert trades[1].quantity == pytest.approx(-6.122448979591836, rel=1e-15)
    # make_trades does not execute anything.
    assert broker.holdings_quantity == {Cash(): 1000.0}
    broker.rebalance(reb)
    assert exact(reb.trades) == exact(trades)
    held = broker.holdings_quantity
    # position x multiplier x execution side quote == w x NLV before trading.
    assert held[SPY] * 1.0 * 100.0 == pytest.approx(0.6 * 1000.0, rel=1e-14)
    assert held[IEF] * 1.0 * 49.0 == pytest.approx(-0.3 * 1000.0, rel=1e-14)
    assert held[Cash()] == pytest.approx(1000.0 - 600.0 + 300.0, rel=1e-14)
    assert reb.context_pre.nlv == 1000.0
    # Spread paid: 6 * 1 on SPY and 300 / 49 * 1 on IEF.
    assert reb.context_post.nlv == pytest.approx(1000.0 - 6.0 - 300.0 / 49.0, rel=1e-14)
    assert reb.profit_on_idle_cash == 0.0


def test_absolute_rebalance_closes_contract_absent_from_target():
    broker = make_broker(spread=False)
    broker.rebalance(Rebalancing([SPY, IEF], [2, 5], measure='nr-contracts', time=T0))
    assert broker.holdings_quantity == {Cash(): 550.0, SPY: 2.0, IEF: 5.0}
    reb = Rebalancing([SPY], [0.5], time=T0 + timedelta(days=1))
    broker.rebalance(reb)
    assert exact(reb.trades) == [
        (reb.time, SPY, 3.0, 100.0, 100.0),
        (reb.time, IEF, -5.0, 50.0, 50.0),
    ]
    assert broker.holdings_quantity == {Cash(): 500.0, SPY: 5.0, IEF: 0.0}
    assert reb.context_post.weights == {Cash(): 0.5, SPY: 0.5, IEF: 0.0}
    assert reb.context_post.nlv == reb.context_pre.nlv == 1000.0


def test_frictionless_second_rebalance_trades_nothing():
    broker = make_broker(spread=False)
    target = [0.25, -0.5, 1.5]
    first = Rebalancing([SPY, IEF, ESH], target, time=T0)
    broker.rebalance(first)
    assert [t.contract for t in first.trades] == [SPY, IEF, ESH]
    assert [t.quantity for t in first.trades] == [2.5, -10.0, 0.015]
    weights = first.context_post.weights
    assert weights[SPY] == pytest.approx(0.25, rel=1e-12)
    assert weights[IEF] == pytest.approx(-0.5, rel=1e-12)
    assert weights[ESH] == pytest.approx(1.5, rel=1e-12)
    assert first.context_post.nlv == pytest.approx(1000.0, rel=1e-12)
    assert broker.holdings_margins[ESH] == pytest.approx(150.0, rel=1e-12)
    second = Rebalancing([SPY, IEF, ESH], target, time=T0 + timedelta(days=1))
    broker.rebalance(second)
    for trade in second.trades:
        assert abs(trade.notional) < 1e-9
    assert second.context_post.nlv == pytest.approx(1000.0, rel=1e-12)


def test_nr_contracts_not_fractional_truncates_towards_zero_and_skips_zero_lots():
    broker = make_broker()
    broker.rebalance(Rebalancing([SPY, IEF], [0.2, 2.5], measure='nr-contracts', time=T0))
    reb = Rebalancing(
        [SPY, IEF, ESH], [3.9, -1.4, 0.9], measure='nr-contracts',
        fractional=False, time=T0 + timedelta(days=1),
    )
    trades = reb.make_trades(broker)
    # imbalance: SPY 3.7 -> 3, IEF -3.9 -> -3, ES 0.9 -> 0 -> skipped.
    assert exact(trades) == [
        (reb.time, SPY, 3, 99.0, 100.0),
        (reb.time, IEF, -3, 49.0, 50.0),
    ]
    assert [type(t.quantity) for t in trades] == [int, int]


def test_nr_contracts_reached_exactly_and_relative_request():
    broker = make_broker()
    broker.rebalance(Rebalancing([SPY, ESH], [4, -0.01], measure='nr-contracts', time=T0))
    assert broker.holdings_quantity[SPY] == 4.0
    assert broker.holdings_quantity[ESH] == -0.01
    reb = Rebalancing(
        [SPY, IEF], [-1.5, 2], measure='nr-contracts', absolute=False,
        time=T0 + timedelta(days=1),
    )
    broker.rebalance(reb)
    # Relative request: ES is left alone, SPY is shifted, IEF is opened.
    assert exact(reb.trades) == [
        (reb.time, SPY, -1.5, 99.0, 100.0),
        (reb.time, IEF, 2, 49.0, 50.0),
    ]
    assert broker.holdings_quantity[SPY] == 2.5
    assert broker.holdings_quantity[IEF] == 2.0
    assert broker.holdings_quantity[ESH] == -0.01


def test_margin_skips_small_imbalances_but_not_liquidations():
    broker = make_broker(spread=False)
    broker.rebalance(Rebalancing([SPY, IEF], [1, 0.2], measure='nr-contracts', time=T0))
    # SPY weight 0.1, IEF weight 0.01. New target SPY 0.12 (imbalance 0.02 <
    # margin -> skipped), IEF absent (imbalance 0.01 < margin, but liquidated
    # anyway), ES 0.06 (traded).
    reb = Rebalancing([SPY, ESH], [0.12, 0.06], margin=0.05, time=T0 + timedelta(days=1))
    broker.rebalance(reb)
    assert [t.contract for t in reb.trades] == [ESH, IEF]
    assert reb.trades[0].quantity == pytest.approx(0.0006, rel=1e-12)
    assert reb.trades[1].quantity == -0.2
    assert broker.holdings_quantity[SPY] == 1.0
    assert broker.holdings_quantity[IEF] == 0.0


def test_missing_price_raises_only_if_needed():
    broker = make_broker()
    broker.exchange[IEF].terminate(EventContractDiscontinued(T0, IEF))
    not_needed = Rebalancing([SPY, IEF], [0.5, 0.0], time=T0)
    assert exact(not_needed.make_trades(broker)) == [(T0, SPY, 5.0, 99.0, 100.0)]
    needed = Rebalancing([SPY, IEF], [0.5, 0.1], time=T0)
    with pytest.raises(ValueError, match='Unexpected sign: nan'):
        needed.make_trades(broker)
    with pytest.raises(ValueError, match='Missing bid price for contract ETF\\(IEF\\)'):
        Rebalancing([IEF], [1], measure='nr-contracts', time=T0).make_trades(broker)
    with pytest.raises(ValueError, match='Unexpected sign: nan'):
        Rebalancing([IEF], [float('nan')], measure='nr-contracts', fractional=False, time=T0).make_trades(broker)


def test_empty_request_and_duplicate_timestamps():
    broker = make_broker()
    reb = Rebalancing(time=T0)
    assert reb.make_trades(broker) == []
    broker.rebalance(reb)
    assert reb.trades == []
    assert reb.context_pre.nlv == reb.context_post.nlv == 1000.0
    assert broker.track_record._time == [T0]
    with pytest.raises(ValueError, match='Duplicated timestamp'):
        broker.rebalance(Rebalancing([SPY], [0.5], time=T0))
    # Trades were executed before the failure to checkpoint.
    assert broker.holdings_quantity[SPY] == 5.0


def test_fees_are_paid_from_cash_and_target_is_still_reached():
    broker = make_broker(fees=BrokerFees(proportional=0.01, fixed=1.0))
    reb = Rebalancing([SPY, ESH], [0.5, -2.0], time=T0)
    broker.rebalance(reb)
    assert exact(reb.trades) == [
        (T0, SPY, 5.0, 99.0, 100.0),
        (T0, ESH, -2.0 * 1000.0 / 2000.0 / 50.0, 2000.0, 2002.0),
    ]
    assert reb.trades[0].cost_of_commissions == 1.0 + 500.0 * 0.01
    assert reb.trades[1].cost_of_commissions == 1.0 + 2000.0 * 0.01
    assert broker.holdings_quantity[SPY] * 100.0 == 0.5 * 1000.0
    assert broker.holdings_quantity[ESH] * 50.0 * 2000.0 == -2.0 * 1000.0


def test_broke_account_raises_end_of_episode():
    broker = make_broker(deposit=0.0)
    with pytest.raises(EndOfEpisodeError):
        Rebalancing([SPY], [0.5], time=T0).make_trades(broker)
    with pytest.raises(EndOfEpisodeError):
        broker.rebalance(Rebalancing([SPY], [0.5], time=T0))
    assert broker.track_record._time == []


def test_unsupported_measure():
    with pytest.raises(ValueError, match="Unsupported argument for 'measure'."):
        Rebalancing([SPY], [0.5], measure='notional')
    assert Rebalancing([SPY], [1], time=T0).make_trades(make_broker()) == [
        Trade(T0, SPY, 10.0, 99.0, 100.0)
    ]
