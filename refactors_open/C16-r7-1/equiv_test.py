"""Behaviour of validate / level / returns / cagr / nr_* must be the same with
and without the clean-up of tradingenv/metrics.py (edit 1)."""
from datetime import date, datetime
import math

import numpy as np
import pandas as pd
import pytest

import tradingenv.metrics  # noqa: F401  (registers the methods on pandas)

MSG_MISSING = "Missing values are not allowed."
MSG_POSITIVE = (
    "This method can only work with level data, so all values must be positive."
)
MSG_DUPLICATES = "Duplicate indices have been found"
MSG_DATETIME = "Input index must be a DatetimeIndex"
MSG_INDEX_NANS = "Input must not missing values in the index."
MSG_SORTED = "Input index must be monotonic increasing."


def daily(values, start="2019-01-01", freq="D"):
    return pd.Series(
        [float(v) for v in values],
        pd.date_range(start, periods=len(values), freq=freq),
    )


def message_of(data, method="validate"):
    with pytest.raises(ValueError) as info:
        getattr(data, method)()
    assert type(info.value) is ValueError
    assert info.value.__cause__ is None
    return str(info.value)


class TestValidate:
    def test_valid_series_and_frame_return_none(self):
        series = daily([1, 2, 3])
        assert series.validate() is None
        assert series.to_frame("a").validate() is None
        assert pd.Series([], pd.DatetimeIndex([]), dtype=float).validate() is None

    @pytest.mark.parametrize("as_frame", [False, True])
    def test_each_single_defect_has_its_own_message(self, as_frame):
        def make(values, index):
            series = pd.Series(values, index, dtype=float)
            return series.to_frame("a") if as_frame else series

        idx = pd.date_range("2019-01-01", periods=3)
        assert message_of(make([1, np.nan, 3], idx)) == MSG_MISSING
        assert message_of(make([1, 0, 3], idx)) == MSG_POSITIVE
        assert message_of(make([1, -2, 3], idx)) == MSG_POSITIVE
        assert message_of(make([1, 2, 3], idx[[0, 1, 1]])) == MSG_DUPLICATES
        assert message_of(make([1, 2, 3], [0, 1, 2])) == MSG_DATETIME
        assert message_of(make([1, 2, 3], ["a", "b", "c"])) == MSG_DATETIME
        nat = pd.DatetimeIndex(["2019-01-01", pd.NaT, "2019-01-03"])
        assert message_of(make([1, 2, 3], nat)) == MSG_INDEX_NANS
        assert message_of(make([1, 2, 3], idx[::-1])) == MSG_SORTED
        assert message_of(make([1, 2, 3], idx[[0, 2, 1]])) == MSG_SORTED

    def test_priority_of_the_checks(self):
        idx = pd.date_range("2019-01-01", periods=3)
        # values are checked before the index, NaN before sign
        assert message_of(pd.Series([np.nan, -1.0, 1.0], [0, 0, 1])) == MSG_MISSING
        assert message_of(pd.Series([2.0, -1.0, 1.0], [0, 0, 1])) == MSG_POSITIVE
        # duplicates < datetime < NaT < sorted
        assert message_of(pd.Series([1.0, 2.0, 3.0], [1, 1, 0])) == MSG_DUPLICATES
        assert message_of(pd.Series([1.0, 2.0, 3.0], [2, 1, 0])) == MSG_DATETIME
        nat2 = pd.DatetimeIndex([pd.NaT, "2019-01-01", pd.NaT])
        assert message_of(pd.Series([1.0, 2.0, 3.0], nat2)) == MSG_DUPLICATES
        nat1 = pd.DatetimeIndex(["2019-01-03", pd.NaT, "2019-01-01"])
        assert message_of(pd.Series([1.0, 2.0, 3.0], nat1)) == MSG_INDEX_NANS
        both = pd.DataFrame({"a": [1.0, np.nan, 3.0], "b": [1.0, 0.0, -3.0]}, idx)
        assert message_of(both) == MSG_MISSING

    def test_infinite_and_non_numeric_values(self):
        idx = pd.date_range("2019-01-01", periods=2)
        assert pd.Series([1.0, np.inf], idx).validate() is None
        assert message_of(pd.Series([1.0, -np.inf], idx)) == MSG_POSITIVE
        with pytest.raises(TypeError):
            pd.Series(["a", "b"], idx).validate()

    def test_metrics_reject_invalid_levels(self):
        bad = daily([1, np.nan, 3])
        for method in ("level", "simple_returns", "log_returns", "cagr"):
            assert message_of(bad, method) == MSG_MISSING
        unsorted = daily([1, 2, 3]).iloc[::-1]
        for method in ("level", "simple_returns", "log_returns", "cagr"):
            assert message_of(unsorted, method) == MSG_SORTED


class TestLevel:
    def test_daily_level_is_the_object_itself(self):
        series = daily([1, 2, 3])
        assert series.level() is series
        frame = series.to_frame("a")
        assert frame.level() is frame

    def test_intraday_level_keeps_last_observation_of_each_day(self):
        series = pd.Series(
            [1.0, 2.0, 3.0, 4.0, 5.0],
            pd.DatetimeIndex(
                [
                    "2019-01-01 02:00",
                    "2019-01-01 20:00",
                    "2019-01-03 05:15:02",
                    "2019-01-03 05:16:01",
                    "2019-01-03 05:16:02",
                ]
            ),
            name="x",
        )
        level = series.level()
        assert level is not series
        assert list(level.index) == [date(2019, 1, 1), date(2019, 1, 3)]
        assert level.index.dtype == object
        assert level.tolist() == [2.0, 5.0]
        assert level.name == "x"
        frame = pd.DataFrame({"a": series, "b": series * 2})
        level = frame.level()
        assert list(level.index) == [date(2019, 1, 1), date(2019, 1, 3)]
        assert level.values.tolist() == [[2.0, 4.0], [5.0, 10.0]]
        assert list(level.columns) == ["a", "b"]

    def test_level_calls_validate_exactly_once(self, monkeypatch):
        calls = []
        original = pd.Series.validate
        monkeypatch.setattr(
            pd.Series, "validate", lambda self: calls.append(1) or original(self)
        )
        daily([1, 2, 3]).level()
        assert calls == [1]


class TestReturns:
    def test_simple_and_log_returns(self):
        series = daily([1, 2, 3, 1.5])
        simple = series.simple_returns()
        assert simple.tolist() == [1.0, 0.5, -0.5]
        assert simple.index.equals(series.index[1:])
        log = series.log_returns()
        assert log.index.equals(series.index[1:])
        expected = [math.log(2.0) - math.log(1.0), math.log(3.0) - math.log(2.0),
                    math.log(1.5) - math.log(3.0)]
        assert log.tolist() == pytest.approx(expected, rel=0, abs=1e-15)
        assert float(log.sum()) == pytest.approx(math.log(1.5), abs=1e-15)

    def test_returns_of_frames_and_scale_invariance(self):
        frame = pd.DataFrame(
            {"a": [1.0, 2.0, 4.0], "b": [8.0, 4.0, 5.0]},
            pd.date_range("2019-01-01", periods=3),
        )
        simple = frame.simple_returns()
        assert simple.values.tolist() == [[1.0, -0.5], [1.0, 0.25]]
        assert list(simple.columns) == ["a", "b"]
        pd.testing.assert_frame_equal((frame * 4).simple_returns(), simple)
        pd.testing.assert_frame_equal(
            (frame * 4).log_returns(), frame.log_returns(), rtol=0, atol=1e-15
        )

    def test_intraday_returns_use_daily_closes(self):
        index = pd.DatetimeIndex(
            ["2019-01-01 10:00", "2019-01-01 16:00", "2019-01-02 10:00",
             "2019-01-02 16:00", "2019-01-04 16:00"]
        )
        series = pd.Series([1.0, 2.0, 3.0, 4.0, 3.0], index)
        simple = series.simple_returns()
        assert simple.tolist() == [1.0, -0.25]
        assert list(simple.index) == [date(2019, 1, 2), date(2019, 1, 4)]
        assert series.log_returns().tolist() == pytest.approx(
            [math.log(2.0), math.log(0.75)], abs=1e-15
        )

    def test_two_observations_and_single_observation(self):
        assert daily([4, 5]).simple_returns().tolist() == [0.25]
        assert len(daily([4]).simple_returns()) == 0
        assert len(daily([4]).log_returns()) == 0


class TestSpanAndCagr:
    def test_span_ignores_leading_and_trailing_missing_values(self):
        series = daily([np.nan, 1, 2, np.nan, 3, np.nan], start="2018-12-30")
        assert series.nr_calendar_days() == 3
        assert type(series.nr_calendar_days()) is int
        assert series.nr_observations() == 4
        assert series.nr_years() == 3 / 365
        frame = series.to_frame("a")
        assert frame.nr_calendar_days() == 3
        assert frame.nr_observations() == 4

    def test_span_of_business_days_and_intraday(self):
        series = daily(range(1, 262), start="2017-12-31", freq="B")
        assert series.nr_calendar_days() == 364
        assert series.nr_observations() == 261
        assert series.nr_years() == 364 / 365
        index = pd.DatetimeIndex(["2019-01-01 23:00", "2019-01-03 01:00"])
        assert pd.Series([1.0, 2.0], index).nr_calendar_days() == 1
        index = pd.DatetimeIndex(["2019-01-01 01:00", "2019-01-03 23:00"])
        assert pd.Series([1.0, 2.0], index).nr_calendar_days() == 2

    def test_cagr_definition(self):
        series = pd.Series([1.0, 2.0], [datetime(2017, 12, 31), datetime(2018, 12, 31)])
        assert series.cagr() == 1.0
        series = pd.Series([2.0, 3.0, 4.5], pd.DatetimeIndex(
            ["2016-01-01", "2016-07-01", "2017-12-31"]))
        years = 730 / 365
        assert years == 2.0
        assert series.cagr() == pytest.approx(0.5, abs=1e-15)
        assert (1 + series.cagr()) ** years == pytest.approx(4.5 / 2.0, abs=1e-14)
        assert (series * 1000).cagr() == series.cagr()
        frame = pd.DataFrame({"a": series, "b": [8.0, 1.0, 2.0]})
        cagr = frame.cagr()
        assert list(cagr.index) == ["a", "b"]
        assert cagr["a"] == series.cagr()
        assert cagr["b"] == pytest.approx(-0.5, abs=1e-15)

    def test_cagr_of_intraday_levels(self):
        index = pd.DatetimeIndex(
            ["2018-01-01 10:00", "2018-01-01 16:00", "2018-07-01 12:00",
             "2019-01-01 09:00", "2019-01-01 15:00"]
        )
        series = pd.Series([10.0, 1.0, 3.0, 7.0, 4.0], index)
        # last/first of the *daily* levels (1 -> 4) over 365 days
        assert series.cagr() == pytest.approx(3.0, abs=1e-14)

    def test_cagr_error_paths(self):
        index = pd.DatetimeIndex(["2019-01-01 10:00", "2019-01-01 16:00"])
        with pytest.raises(ZeroDivisionError):
            pd.Series([1.0, 2.0], index).cagr()
        with pytest.raises(TypeError):
            pd.Series([], pd.DatetimeIndex([]), dtype=float).cagr()
        with pytest.raises(ZeroDivisionError):
            daily([1]).cagr()
