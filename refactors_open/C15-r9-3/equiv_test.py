"""Equivalence test for edit 3 (kind B): Transmitter._reset memoises the
sorted array of timesteps with events instead of sorting it at every reset.

Every test must pass with AND without the edit. The scenarios are those that
a careless memo would get wrong: a memo keyed on the fold name or on the
number of timesteps only, a memo that survives Transmitter._create_partitions,
a memo shared across instances, a memoised array leaked through
Transmitter._steps, a fold window read once and for all.
"""
from tradingenv.transmitter import Transmitter
from tradingenv.events import IEvent
from tradingenv.env import TradingEnv
from tradingenv.contracts import Index
from datetime import datetime, timedelta
import numpy as np
import pandas as pd
import pickle
import copy
import pytest


class Ev(IEvent):
    def __init__(self, time):
        self.time = time


DAYS = [datetime(2019, 1, 1) + timedelta(days=i) for i in range(10)]


def make(skip=(7,), **kwargs):
    """10 daily timesteps; day 7 carries no event (it is not event-bearing).
    Folds overlap on purpose."""
    transmitter = Transmitter(
        timesteps=DAYS,
        folds={
            'train': [datetime(2019, 1, 1), datetime(2019, 1, 6)],
            'test': [datetime(2019, 1, 5), datetime(2019, 1, 10)],
            'all': [datetime.min, datetime.max],
            'gap': [datetime(2019, 1, 2, 12), datetime(2019, 1, 4, 12)],
        },
        **kwargs
    )
    transmitter.add_events([Ev(d) for i, d in enumerate(DAYS) if i not in skip])
    return transmitter


def positions(transmitter):
    return [DAYS.index(t) for t in transmitter._steps]


def same_state(a, b):
    return all(
        np.array_equal(x, y) if isinstance(x, np.ndarray) else x == y
        for x, y in zip(a, b)
    )


class TestSameEpisodes:
    def test_sequence_of_starts_and_global_stream(self):
        transmitter = make()
        np.random.seed(123)
        actual = list()
        for _ in range(12):
            transmitter._reset('test', episode_length=3)
            actual.append(positions(transmitter))
            assert transmitter._start_date == transmitter._steps[0]
            assert transmitter._end_date == transmitter._steps[-1]
            assert transmitter._step_nr == 0
            assert transmitter._now() is np.nan
        assert actual == [
            [6, 8, 9], [5, 6, 8], [6, 8, 9], [6, 8, 9], [4, 5, 6], [6, 8, 9],
            [6, 8, 9], [5, 6, 8], [6, 8, 9], [5, 6, 8], [6, 8, 9], [5, 6, 8],
        ]
        assert np.random.randint(10 ** 9) == 793837664
        np.random.seed(7)
        actual = list()
        for _ in range(10):
            transmitter._reset('train', episode_length=2, sampling_span=3)
            actual.append(DAYS.index(transmitter._start_date))
        assert actual == [1, 4, 3, 4, 4, 3, 3, 0, 2, 3]
        assert np.random.randint(10 ** 9) == 769786948

    def test_alternating_folds_and_lengths(self):
        """A memo keyed on too little (fold only, length only) fails here."""
        transmitter = make()
        np.random.seed(0)
        for _ in range(3):
            transmitter._reset('train')
            assert positions(transmitter) == [0, 1, 2, 3, 4, 5]
            assert (transmitter._start_date, transmitter._end_date) == (DAYS[0], DAYS[5])
            transmitter._reset('test')
            assert positions(transmitter) == [4, 5, 6, 8, 9]
            transmitter._reset('test', episode_length=5)
            assert positions(transmitter) == [4, 5, 6, 8, 9]
            transmitter._reset('train', episode_length=6)
            assert positions(transmitter) == [0, 1, 2, 3, 4, 5]
            transmitter._reset('gap', episode_length=2)
            assert positions(transmitter) == [2, 3]
            transmitter._reset('all')
            assert positions(transmitter) == [0, 1, 2, 3, 4, 5, 6, 8, 9]
            assert (transmitter._start_date, transmitter._end_date) == (datetime.min, datetime.max)
            transmitter._reset('all', episode_length=9)
            assert positions(transmitter) == [0, 1, 2, 3, 4, 5, 6, 8, 9]
            assert (transmitter._start_date, transmitter._end_date) == (DAYS[0], DAYS[9])
            for fold, length, fitting in [
                ('test', 3, [[4, 5, 6], [5, 6, 8], [6, 8, 9]]),
                ('test', 4, [[4, 5, 6, 8], [5, 6, 8, 9]]),
                ('train', 5, [[0, 1, 2, 3, 4], [1, 2, 3, 4, 5]]),
            ]:
                seen = set()
                for _ in range(60):
                    transmitter._reset(fold, length)
                    assert positions(transmitter) in fitting
                    seen.add(tuple(positions(transmitter)))
                assert len(seen) == len(fitting)

    def test_refused_requests(self):
        transmitter = make()
        transmitter._reset('train')
        np.random.seed(5)
        state = np.random.get_state()
        for fold, kwargs in [
            ('gap', dict(episode_length=3)),
            ('gap', dict(episode_length=1)),
            ('test', dict(episode_length=6, sampling_span=2)),
        ]:
            with pytest.raises(ValueError):
                transmitter._reset(fold, **kwargs)
            assert same_state(state, np.random.get_state())
            assert positions(transmitter) == [0, 1, 2, 3, 4, 5]
            assert transmitter._fold_name == 'train'
        with pytest.raises(KeyError):
            transmitter._reset('unknown-fold')
        # ... and they do not prevent the following ones from being served.
        transmitter._reset('gap', episode_length=2)
        assert positions(transmitter) == [2, 3]

    def test_next_after_reset(self):
        transmitter = make()
        np.random.seed(3)
        for _ in range(5):
            transmitter._reset('test', episode_length=3)
            expected = list(transmitter._steps)
            visited = list()
            latent, nonlatent = transmitter._next()
            visited.append(transmitter._now())
            # Everything since the origin of times at the first step.
            assert latent == []
            assert [e.time for e in nonlatent] == [d for d in DAYS if d <= expected[0] and d != DAYS[7]]
            for _ in range(2):
                latent, nonlatent = transmitter._next()
                visited.append(transmitter._now())
                assert [e.time for e in latent + nonlatent] == [transmitter._now()]
            with pytest.raises(StopIteration):
                transmitter._next()
            assert visited == expected


class TestMemoIsNeverStale:
    def test_partitions_created_again_with_more_events(self):
        transmitter = make()
        transmitter._reset('test')
        assert positions(transmitter) == [4, 5, 6, 8, 9]
        # Day 7 becomes event-bearing: same number of folds, same fold name.
        transmitter.add_events([Ev(DAYS[7])])
        transmitter._reset('test')
        assert positions(transmitter) == [4, 5, 6, 8, 9]  # partitions not created again yet
        transmitter._create_partitions()
        transmitter._reset('test')
        assert positions(transmitter) == [4, 5, 6, 7, 8, 9]
        transmitter._reset('all', episode_length=10)
        assert positions(transmitter) == list(range(10))

    def test_partitions_created_again_with_same_number_of_timesteps(self):
        """A timestep is replaced by an intraday one: a memo validated on the
        number of timesteps only would be stale."""
        transmitter = make(skip=())
        transmitter._reset('test')
        assert positions(transmitter) == [4, 5, 6, 7, 8, 9]
        assert len(transmitter._steps) == 6
        noon = datetime(2019, 1, 8, 12)
        transmitter.timesteps.remove(DAYS[7])
        transmitter.add_timesteps([noon])
        transmitter._create_partitions()
        transmitter._reset('test')
        assert list(transmitter._steps) == [DAYS[4], DAYS[5], DAYS[6], noon, DAYS[8], DAYS[9]]
        # The event of the removed timestep now fires at noon.
        assert [e.time for e in transmitter._partition_nonlatent[noon]] == [DAYS[7]]
        assert DAYS[7] not in transmitter._partition_nonlatent

    def test_partitions_created_again_with_latency(self):
        transmitter = make()
        transmitter._reset('test')
        transmitter._create_partitions(latency=3600)
        transmitter._reset('test')
        assert positions(transmitter) == [4, 5, 6, 8, 9]
        with pytest.raises(ValueError):
            transmitter._create_partitions(latency=24 * 3600)
        transmitter._reset('train', episode_length=6)
        assert positions(transmitter) == [0, 1, 2, 3, 4, 5]

    def test_timestep_appearing_in_a_partition(self):
        """Partitions are defaultdict: reading a missing timestep adds it."""
        transmitter = make()
        transmitter._reset('test')
        assert positions(transmitter) == [4, 5, 6, 8, 9]
        assert transmitter._partition_nonlatent[DAYS[7]] == []
        transmitter._reset('test')
        assert positions(transmitter) == [4, 5, 6, 7, 8, 9]
        # One timestep out, one in: same number as at the previous reset.
        noon = datetime(2019, 1, 9, 12)
        del transmitter._partition_nonlatent[DAYS[8]]
        transmitter._partition_latent[noon].append(Ev(noon))
        transmitter._reset('test')
        assert list(transmitter._steps) == [DAYS[4], DAYS[5], DAYS[6], DAYS[7], noon, DAYS[9]]

    def test_fold_window_modified_in_place(self):
        window = [DAYS[1], DAYS[3]]
        transmitter = Transmitter(DAYS, folds={'x': window})
        transmitter.add_events([Ev(d) for d in DAYS])
        transmitter._reset('x')
        assert positions(transmitter) == [1, 2, 3]
        window[1] = DAYS[6]
        transmitter._reset('x')
        assert positions(transmitter) == [1, 2, 3, 4, 5, 6]
        assert transmitter._end_date == DAYS[6]
        transmitter._reset('x', episode_length=6)
        assert positions(transmitter) == [1, 2, 3, 4, 5, 6]

    def test_steps_of_an_episode_are_not_shared_with_the_next_one(self):
        transmitter = make()
        transmitter._reset('all')
        first = transmitter._steps
        assert positions(transmitter) == [0, 1, 2, 3, 4, 5, 6, 8, 9]
        first[:] = DAYS[0]  # vandalise the array of the episode
        transmitter._reset('all')
        assert transmitter._steps is not first
        assert positions(transmitter) == [0, 1, 2, 3, 4, 5, 6, 8, 9]
        transmitter._steps[0] = DAYS[9]
        transmitter._reset('train', episode_length=6)
        assert positions(transmitter) == [0, 1, 2, 3, 4, 5]
        second = transmitter._steps
        transmitter._reset('train', episode_length=6)
        assert transmitter._steps is not second
        assert not np.shares_memory(transmitter._steps, second)

    def test_instances_are_independent(self):
        a = make()
        b = make(skip=(2, 3))
        a._reset('train')
        b._reset('train')
        assert positions(a) == [0, 1, 2, 3, 4, 5]
        assert positions(b) == [0, 1, 4, 5]
        a._reset('train')
        assert positions(a) == [0, 1, 2, 3, 4, 5]
        c = copy.deepcopy(b)
        c.add_events([Ev(DAYS[2])])
        c._create_partitions()
        c._reset('train')
        b._reset('train')
        assert [DAYS.index(t) for t in c._steps] == [0, 1, 2, 4, 5]
        assert positions(b) == [0, 1, 4, 5]

    def test_pickle_round_trip(self):
        transmitter = make()
        transmitter._reset('test')
        clone = pickle.loads(pickle.dumps(transmitter))
        clone._reset('train')
        assert positions(clone) == [0, 1, 2, 3, 4, 5]
        assert positions(transmitter) == [4, 5, 6, 8, 9]

    def test_lazy_creation_of_partitions(self):
        transmitter = make()
        assert transmitter._partition_nonlatent is None
        transmitter._reset('gap')
        assert positions(transmitter) == [2, 3]
        assert sorted(transmitter._partition_nonlatent) == DAYS[:7] + DAYS[8:]

    def test_timestamps_and_empty_transmitter(self):
        idx = pd.date_range('2019-01-01', periods=6, freq='D')
        transmitter = Transmitter(idx)
        transmitter._reset()
        assert transmitter._steps.tolist() == []
        with pytest.raises(ValueError):
            transmitter._reset(episode_length=2)
        transmitter.add_events([Ev(t) for t in idx[1:]])
        transmitter._create_partitions()
        for _ in range(2):
            transmitter._reset()
            assert list(transmitter._steps) == list(idx[1:])
            assert all(isinstance(t, pd.Timestamp) for t in transmitter._steps)
            assert transmitter._steps.dtype == object


class TestEnv:
    def test_two_envs_on_the_same_transmitter(self):
        idx = pd.date_range('2019-01-01', periods=12, freq='D')
        prices = pd.DataFrame(
            {Index('A'): np.arange(1., 13.), Index('B'): np.arange(2., 14.)},
            index=idx,
        )
        prices.iloc[5] = np.nan  # no quote: not an event-bearing timestep
        transmitter = Transmitter(
            idx, folds={'train': [idx[0], idx[7]], 'test': [idx[6], idx[11]]}
        )
        transmitter.add_prices(prices)
        env = TradingEnv(
            action_space=[Index('A'), Index('B')],
            transmitter=transmitter,
            episode_length=3,
        )
        np.random.seed(11)
        actual = list()
        for fold in ['train', 'test', 'train', 'test']:
            env.reset(fold)
            times = [env.now()]
            done = False
            while not done:
                _, _, done, _ = env.step(np.array([0.5, 0.5]))
                times.append(env.now())
            actual.append([list(idx).index(t) for t in times])
        assert actual == [[1, 2, 3, 4], [6, 7, 8, 9], [3, 4, 6, 7], [7, 8, 9, 10]]
        # Quotes of the missing day come later: a new env creates partitions
        # again on the same transmitter.
        late = pd.DataFrame({Index('A'): [6.], Index('B'): [7.]}, index=[idx[5]])
        transmitter.add_prices(late)
        env.reset('train', 7)
        assert [list(idx).index(t) for t in transmitter._steps] == [0, 1, 2, 3, 4, 6, 7]
        env2 = TradingEnv(
            action_space=[Index('A'), Index('B')],
            transmitter=transmitter,
        )
        env2.reset('train', 8)
        assert [list(idx).index(t) for t in transmitter._steps] == [0, 1, 2, 3, 4, 5, 6, 7]
        env.reset('train', 8)
        assert [list(idx).index(t) for t in transmitter._steps] == [0, 1, 2, 3, 4, 5, 6, 7]
        with pytest.raises(ValueError):
            env.reset('train', 9)
