"""Behaviour of TradingEnvXY._make_timesteps / _make_transmitter and of
Transmitter.add_prices (quotes widened by the spread, trading dates without
holidays and without the first `window` dates, warm-up horizon, order of the
scheduled events) pinned to concrete values. Must pass both with and without
the refactoring of edit 2.

Run from the root of the worktree:
    /venv/bin/python -m pytest -q -p no:cacheprovider /tmp/wt-out7/C18/2/equiv_test.py
"""
from tradingenv.env import TradingEnvXY
from tradingenv.transmitter import Transmitter
from tradingenv.contracts import Rate, Asset, ETF
from tradingenv.events import EventNBBO, EventNewObservation
from datetime import timedelta
import itertools
import numpy as np
import pandas as pd
import pytest


def make_data(n=40, start='2022-01-03', freq='B', nx=2, ny=2):
    dates = pd.date_range(start, periods=n, freq=freq)
    i = np.arange(n, dtype=float)
    X = pd.DataFrame(
        {f'f{k}': np.round(np.sin(i * (k + 1) / 3.0) * (k + 2), 6) for k in range(nx)},
        index=dates,
    )
    Y = pd.DataFrame(
        {f'A{k}': 100.0 + i * (k + 1) + (i % 3) for k in range(ny)},
        index=dates,
    )
    return X, Y


def ts(x):
    return pd.Timestamp(x)


def quotes(env, contract):
    return [
        e for e in env._transmitter.events
        if isinstance(e, EventNBBO) and e.contract == contract
    ]


class TestAddPrices:
    def make_prices(self):
        return pd.DataFrame(
            {ETF('SPY'): [100, np.nan, 102.5], ETF('IEF'): [np.nan, 50, 51]},
            index=pd.date_range('2022-01-03', periods=3),
        )

    def test_no_spread_by_default_and_missing_prices_are_skipped(self):
        prices = self.make_prices()
        transmitter = Transmitter(timesteps=prices.index)
        assert transmitter.add_prices(prices) is None
        actual = [
            (e.time, e.contract, e.bid_price, e.ask_price, e.mid_price, e.bid_size, e.ask_size)
            for e in transmitter.events
        ]
        assert actual == [
            (ts('2022-01-03'), ETF('SPY'), 100.0, 100.0, 100.0, np.inf, np.inf),
            (ts('2022-01-05'), ETF('SPY'), 102.5, 102.5, 102.5, np.inf, np.inf),
            (ts('2022-01-04'), ETF('IEF'), 50.0, 50.0, 50.0, np.inf, np.inf),
            (ts('2022-01-05'), ETF('IEF'), 51.0, 51.0, 51.0, np.inf, np.inf),
        ]
        assert all(type(e) is EventNBBO for e in transmitter.events)
        assert all(type(e.bid_price) is float for e in transmitter.events)
        # The table of the user is untouched.
        assert prices.isna().sum().tolist() == [1, 1]
        assert prices.iloc[0, 0] == 100
        assert transmitter.timesteps == list(prices.index)

    def test_spread_is_split_evenly_around_the_mid_price(self):
        prices = self.make_prices()
        transmitter = Transmitter(timesteps=prices.index)
        transmitter.add_prices(prices, spread=0.1)
        actual = [(e.time, e.contract, e.bid_price, e.ask_price) for e in transmitter.events]
        assert actual == [
            (ts('2022-01-03'), ETF('SPY'), 95.0, 105.0),
            (ts('2022-01-05'), ETF('SPY'), 97.375, 107.625),
            (ts('2022-01-04'), ETF('IEF'), 47.5, 52.5),
            (ts('2022-01-05'), ETF('IEF'), 48.45, 53.55),
        ]
        # Events accumulate, integer spread given positionally.
        transmitter.add_prices(prices[[ETF('IEF')]], 1)
        actual = [(e.time, e.contract, e.bid_price, e.ask_price) for e in transmitter.events[4:]]
        assert actual == [
            (ts('2022-01-04'), ETF('IEF'), 25.0, 75.0),
            (ts('2022-01-05'), ETF('IEF'), 25.5, 76.5),
        ]
        assert len(transmitter.events) == 6

    def test_quotes_are_bitwise_equal_with_awkward_floats(self):
        prices = self.make_prices() * 1 / 3
        transmitter = Transmitter(timesteps=prices.index)
        transmitter.add_prices(prices, spread=0.0002)
        actual = [(e.bid_price, e.ask_price) for e in transmitter.events]
        assert actual == [
            (33.330000000000005, 33.336666666666666),
            (34.16325, 34.17008333333333),
            (16.665000000000003, 16.668333333333333),
            (16.9983, 17.0017),
        ]
        for e, p in zip(transmitter.events, [100 / 3, 102.5 / 3, 50 / 3, 51 / 3]):
            assert e.bid_price == p - p * 0.0002 / 2
            assert e.ask_price == p + p * 0.0002 / 2

    def test_empty_and_all_missing_tables(self):
        prices = self.make_prices()
        transmitter = Transmitter(timesteps=prices.index)
        transmitter.add_prices(prices.iloc[:0], 0.1)
        transmitter.add_prices(prices * np.nan, 0.1)
        transmitter.add_prices(pd.Series(name=Rate('Zero Rate'), dtype=float).to_frame())
        assert transmitter.events == []

    def test_infinite_price(self):
        prices = pd.DataFrame({ETF('SPY'): [np.inf]}, index=[ts('2022-01-03')])
        transmitter = Transmitter(timesteps=prices.index)
        transmitter.add_prices(prices, 0.1)
        [event] = transmitter.events
        assert event.bid_price != event.bid_price  # inf - inf
        assert event.ask_price == np.inf
        transmitter.add_prices(prices)  # inf * 0 is nan
        assert np.isnan(transmitter.events[1].bid_price)
        assert np.isnan(transmitter.events[1].ask_price)


class TestQuotesOfTabularEnv:
    def test_quotes_are_given_prices_widened_by_spread(self):
        X, Y = make_data()
        Y.iloc[4, 0] = np.nan
        env = TradingEnvXY(X, Y, transformer=None, window=2, spread=0.01)
        a0 = quotes(env, Asset('A0'))
        assert len(a0) == 38  # 39 rows from 2022-01-04, one is missing
        actual = [(e.time, e.bid_price, e.ask_price, e.mid_price, e.bid_size, e.ask_size) for e in a0[:5]]
        assert actual == [
            (ts('2022-01-04'), 101.49, 102.51, 102.0, np.inf, np.inf),
            (ts('2022-01-05'), 103.48, 104.52, 104.0, np.inf, np.inf),
            (ts('2022-01-06'), 102.485, 103.515, 103.0, np.inf, np.inf),
            (ts('2022-01-10'), 106.465, 107.535, 107.0, np.inf, np.inf),
            (ts('2022-01-11'), 105.47, 106.53, 106.0, np.inf, np.inf),
        ]
        a1 = quotes(env, Asset('A1'))
        assert len(a1) == 39
        assert [(e.time, e.bid_price, e.ask_price) for e in a1[:3]] == [
            (ts('2022-01-04'), 102.485, 103.515),
            (ts('2022-01-05'), 105.47, 106.53),
            (ts('2022-01-06'), 105.47, 106.53),
        ]
        for e in a0 + a1:
            price = env.Y.loc[e.time, e.contract]
            assert e.bid_price == price - price * 0.01 / 2
            assert e.ask_price == price + price * 0.01 / 2

    def test_events_are_scheduled_in_order_prices_then_observations_then_rate(self):
        X, Y = make_data()
        Y.iloc[4, 0] = np.nan
        rate = pd.Series(0.01, index=X.index, name='FED')
        env = TradingEnvXY(X, Y, transformer=None, window=2, spread=0.01, rate=rate)
        kinds = [(type(e).__name__, getattr(e, 'contract', None)) for e in env._transmitter.events]
        assert [(k, len(list(g))) for k, g in itertools.groupby(kinds)] == [
            (('EventNBBO', Asset('A0')), 38),
            (('EventNBBO', Asset('A1')), 39),
            (('EventNewObservation', None), 40),
            (('EventNBBO', Rate('FED')), 39),
        ]
        # The reference rate is not widened by the spread.
        for e in quotes(env, Rate('FED')):
            assert e.bid_price == e.ask_price == 0.01
            assert e.bid_size == e.ask_size == np.inf

    def test_observation_events_are_the_rows_of_the_published_table(self):
        X, Y = make_data()
        env = TradingEnvXY(X, Y, transformer=None, window=2)
        events = [e for e in env._transmitter.events if isinstance(e, EventNewObservation)]
        assert len(events) == 40
        assert [e.time for e in events] == list(env.X.index)
        assert events[0].time == ts('2022-01-03')
        assert events[0].data == {'f0': 0.0, 'f1': 0.0}
        assert list(events[0].data) == ['f0', 'f1']
        assert events[5].time == ts('2022-01-10')
        assert events[5].to_list() == [1.990816, -0.571704]
        for e in events:
            assert e.to_list() == env.X.loc[e.time].tolist()

    def test_quotes_seen_by_the_exchange_while_stepping(self):
        X, Y = make_data()
        env = TradingEnvXY(X, Y, transformer=None, window=2, spread=0.02, steps_delay=0)
        env.reset()
        done = False
        nr_steps = 0
        while not done:
            t = env.now()
            for contract in env.Y.columns:
                price = env.Y.loc[t, contract]
                assert env.exchange[contract].bid_price == price - price * 0.02 / 2
                assert env.exchange[contract].ask_price == price + price * 0.02 / 2
                assert env.exchange[contract].mid_price == pytest.approx(price)
            _, _, done, _ = env.step(np.array([0.3, 0.3]))
            nr_steps += 1
        assert nr_steps == 34
        assert env.now() == ts('2022-02-25')


class TestTimesteps:
    def test_holidays_and_first_window_dates_are_skipped(self):
        X, Y = make_data()
        env = TradingEnvXY(X, Y, transformer=None, window=2)
        timesteps = env._transmitter.timesteps
        assert isinstance(timesteps, list)
        assert len(timesteps) == 35
        assert timesteps[0] == ts('2022-01-06')
        assert timesteps[-1] == ts('2022-02-25')
        assert ts('2022-01-17') not in timesteps  # Martin Luther King
        assert ts('2022-02-21') not in timesteps  # Presidents day
        assert ts('2022-01-18') in timesteps
        assert all(t in env.Y.index for t in timesteps)
        assert timesteps == sorted(timesteps)
        assert env.start == ts('2022-01-06')
        assert env.end == ts('2022-02-25')

    def test_static_helper(self):
        X, Y = make_data()
        timesteps = TradingEnvXY._make_timesteps(X.iloc[3:], Y.iloc[:30], 'NYSE', 3)
        assert isinstance(timesteps, pd.DatetimeIndex)
        assert timesteps[0] == ts('2022-01-11')
        assert timesteps[-1] == ts('2022-02-11')
        assert len(timesteps) == 23
        assert ts('2022-01-17') not in timesteps
        # Window longer than the data: no timesteps at all.
        assert len(TradingEnvXY._make_timesteps(X, Y, 'NYSE', 100)) == 0
        assert len(TradingEnvXY._make_timesteps(X, Y, 'NYSE', 0)) == 38

    @pytest.mark.parametrize('calendar, nr_steps, closed', [
        ('LSE', 53, ['2022-04-01', '2022-04-02', '2022-04-03', '2022-04-15', '2022-04-18', '2022-05-02', '2022-05-30']),
        ('NYSE', 55, ['2022-04-01', '2022-04-02', '2022-04-03', '2022-04-15', '2022-05-30']),
    ])
    def test_calendar_with_weekends_in_the_data(self, calendar, nr_steps, closed):
        X, Y = make_data(n=60, start='2022-04-01', freq='D')
        env = TradingEnvXY(X, Y, transformer=None, window=2, calendar=calendar)
        timesteps = env._transmitter.timesteps
        assert len(timesteps) == nr_steps
        assert timesteps[:2] == [ts('2022-04-04'), ts('2022-04-05')]
        # First date is a warm up row, then two dates are skipped (window),
        # then only holidays (not week-ends) are skipped.
        assert [str(t.date()) for t in Y.index if t not in timesteps] == closed

    def test_intraday(self):
        X, Y = make_data(n=100, start='2022-01-14', freq='6h')
        env = TradingEnvXY(X, Y, transformer=None, window=3, spread=0)
        timesteps = env._transmitter.timesteps
        assert len(timesteps) == 94
        assert timesteps[:3] == [ts('2022-01-15 06:00'), ts('2022-01-15 12:00'), ts('2022-01-15 18:00')]
        assert [str(t) for t in Y.index if t not in timesteps] == [
            '2022-01-14 00:00:00', '2022-01-14 06:00:00', '2022-01-14 12:00:00',
            '2022-01-14 18:00:00', '2022-01-15 00:00:00', '2022-01-17 00:00:00',
        ]
        first = env._transmitter.events[0]
        assert (first.time, first.bid_price, first.ask_price) == (ts('2022-01-14 12:00'), 104.0, 104.0)

    def test_features_on_a_shorter_range_than_prices(self):
        X, Y = make_data()
        env = TradingEnvXY(X.iloc[5:30], Y, transformer=None, window=2)
        timesteps = env._transmitter.timesteps
        assert (len(timesteps), timesteps[0], timesteps[-1]) == (35, ts('2022-01-06'), ts('2022-02-25'))
        assert (env.X.index[0], env.X.index[-1]) == (ts('2022-01-03'), ts('2022-02-25'))
        assert (env.Y.index[0], env.Y.index[-1]) == (ts('2022-01-04'), ts('2022-02-25'))

    def test_unknown_calendar(self):
        X, Y = make_data()
        with pytest.raises(Exception) as e:
            TradingEnvXY(X, Y, transformer=None, calendar='NOT-A-CALENDAR')
        assert 'NOT-A-CALENDAR' in str(e.value)


class TestWarmupHorizon:
    @pytest.mark.parametrize('window, warmup, markov_reset, first, nr_steps', [
        (1, None, True, '2022-01-04', 115),
        (2, timedelta(days=7), False, '2022-01-06', 113),
        (3, timedelta(days=9), False, '2022-01-10', 111),
        (30, timedelta(days=63), False, '2022-03-28', 58),
    ])
    def test_horizon(self, window, warmup, markov_reset, first, nr_steps):
        X, Y = make_data(n=120)
        env = TradingEnvXY(X, Y, transformer=None, window=window)
        transmitter = env._transmitter
        assert transmitter._warmup == warmup
        assert type(transmitter._warmup) is type(warmup)
        assert bool(transmitter._markov_reset) is markov_reset
        assert transmitter.timesteps[0] == ts(first)
        assert len(transmitter.timesteps) == nr_steps
        obs = env.reset()
        assert env.now() == ts(first)
        np.testing.assert_array_equal(obs, X.loc[:first].iloc[-window:].values)

    def test_reset_in_the_middle_of_the_data_has_a_full_window(self):
        X, Y = make_data(n=120)
        folds = {
            'training-set': [ts('2022-01-01'), ts('2022-03-31')],
            'test-set': [ts('2022-04-01'), ts('2022-07-01')],
        }
        env = TradingEnvXY(X, Y, transformer=None, window=5, stride=2, folds=folds)
        obs = env.reset(fold='test-set')
        assert env.now() == ts('2022-04-01')
        np.testing.assert_array_equal(obs, X.loc[:'2022-04-01'].iloc[-5:].values[::-2][::-1])
        obs, _, _, _ = env.step(np.array([0.5, 0.5]))
        assert env.now() == ts('2022-04-04')
        np.testing.assert_array_equal(obs, X.loc[:'2022-04-04'].iloc[-5:].values[::-2][::-1])
        obs = env.reset(fold='training-set')
        assert env.now() == ts('2022-01-14')
