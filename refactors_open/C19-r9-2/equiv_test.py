"""Equivalence tests for the closed-form n-th Friday used by ES and NK.

They go through the public API (ES, NK, FutureChain) and must pass both with
and without the change.
"""
import calendar
from datetime import datetime, timedelta

import pytest

import tradingenv.contracts as contracts
from tradingenv.contracts import ES, NK, Future, FutureChain
from tradingenv.events import EventContractDiscontinued


def oracle_nth_friday(year, month, n):
    """Independent oracle: n is 1-based. Uses calendar.monthcalendar."""
    fridays = [
        week[calendar.FRIDAY]
        for week in calendar.monthcalendar(year, month)
        if week[calendar.FRIDAY] != 0
    ]
    return datetime(year, month, fridays[n - 1])


class TestConcreteValues:
    @pytest.mark.parametrize(
        "year, month, third, second",
        [
            # 2019-03-01 is a Friday: the first Friday is the 1st.
            (2019, 3, 15, 8),
            # 2020-08-01 is a Saturday: the first Friday is the 7th, i.e. the
            # latest possible. An off-by-one in the closed form shows up here.
            (2020, 8, 21, 14),
            # 2021-04-01 is a Thursday: first Friday is the 2nd.
            (2021, 4, 16, 9),
            # February, non-leap, starting on a Friday (2019-02-01).
            (2019, 2, 15, 8),
            # February, leap, starting on a Saturday (2020-02-01).
            (2020, 2, 21, 14),
            (2020, 3, 20, 13),
            (2018, 12, 21, 14),
            (1970, 1, 16, 9),
            (1999, 12, 17, 10),
            (2000, 1, 21, 14),
            (2099, 12, 18, 11),
        ],
    )
    def test_expiry_days(self, year, month, third, second):
        es = ES(year, month)
        nk = NK(year, month)
        assert es.expiry == datetime(year, month, third)
        assert nk.expiry == datetime(year, month, second)
        assert es.last_trading_date == datetime(year, month, third) - timedelta(days=8)
        assert nk.last_trading_date == datetime(year, month, second) - timedelta(days=14)

    def test_symbols(self):
        assert ES(2019, 9).symbol == "ESU19"
        assert NK(2020, 12).symbol == "NKZ20"
        assert ES(2000, 1).symbol == "ESF00"
        assert NK(1999, 6).symbol == "NKM99"

    def test_type_is_plain_datetime_at_midnight(self):
        for cls in (ES, NK):
            expiry = cls(2020, 8).expiry
            assert type(expiry) is datetime
            assert expiry.tzinfo is None
            assert (expiry.hour, expiry.minute, expiry.second,
                    expiry.microsecond) == (0, 0, 0, 0)
            assert type(cls(2020, 8).last_trading_date) is datetime

    def test_every_call_returns_a_new_object(self):
        es = ES(2020, 3)
        a = es._get_expiry_date(2020, 3)
        b = es._get_expiry_date(2020, 3)
        assert a == b
        assert a is not b
        assert ES(2020, 3).expiry is not ES(2020, 3).expiry


class TestExhaustive:
    def test_all_years_and_months(self):
        for year in range(1970, 2100):
            for month in range(1, 13):
                es = ES(year, month)
                nk = NK(year, month)
                assert es.expiry == oracle_nth_friday(year, month, 3)
                assert nk.expiry == oracle_nth_friday(year, month, 2)
                assert es.expiry.weekday() == calendar.FRIDAY
                assert nk.expiry.weekday() == calendar.FRIDAY
                assert 15 <= es.expiry.day <= 21
                assert 8 <= nk.expiry.day <= 14
                assert es.last_trading_date < es.expiry
                assert nk.last_trading_date < nk.expiry
                code = Future.month_codes[month] + "{:02d}".format(year % 100)
                assert es.symbol == "ES" + code
                assert nk.symbol == "NK" + code

    def test_extreme_supported_years(self):
        assert ES(1, 1).expiry == datetime(1, 1, 19)
        assert NK(1, 2).expiry == datetime(1, 2, 9)
        # The second Friday of January of year 1 is the 12th: the expiry is
        # fine but the last trading date (14 days earlier) is before year 1.
        with pytest.raises(OverflowError):
            NK(1, 1)
        assert ES(9999, 12).expiry == datetime(9999, 12, 17)
        assert NK(9999, 12).expiry == datetime(9999, 12, 10)


class TestErrors:
    @pytest.mark.parametrize("cls", [ES, NK])
    def test_bad_month(self, cls):
        for month in (0, 13, -1):
            with pytest.raises(calendar.IllegalMonthError) as exc:
                cls(2020, month)
            assert str(month) in str(exc.value)

    @pytest.mark.parametrize("cls", [ES, NK])
    def test_bad_year(self, cls):
        for year in (0, 10000, -1):
            with pytest.raises(ValueError) as exc:
                cls(year, 3)
            assert str(exc.value) == "year {} is out of range".format(year)
            assert not isinstance(exc.value, calendar.IllegalMonthError)

    @pytest.mark.parametrize("cls", [ES, NK])
    def test_bad_types(self, cls):
        with pytest.raises(TypeError):
            cls(2020.0, 3)
        with pytest.raises(TypeError):
            cls(2020, 3.0)
        with pytest.raises(TypeError):
            cls("2020", 3)
        with pytest.raises(TypeError):
            cls(2020, None)

    @pytest.mark.parametrize("cls", [ES, NK])
    def test_numpy_integers_are_accepted(self, cls):
        import numpy as np
        a = cls(np.int64(2020), np.int32(8))
        b = cls(2020, 8)
        assert a.expiry == b.expiry
        assert type(a.expiry) is datetime
        assert a.symbol == b.symbol

    @pytest.mark.parametrize("cls", [ES, NK])
    def test_day_names_from_a_non_english_locale(self, cls, monkeypatch):
        """strftime('%A') depends on LC_TIME. The implementation looks up the
        day named 'Friday', so with e.g. a German locale no such day is found
        and IndexError is raised. We simulate the locale by replacing the
        datetime class used by the module."""
        names = ["Montag", "Dienstag", "Mittwoch", "Donnerstag", "Freitag",
                 "Samstag", "Sonntag"]

        class GermanDatetime(datetime):
            def strftime(self, fmt):
                if fmt == "%A":
                    return names[self.weekday()]
                return super().strftime(fmt)

        monkeypatch.setattr(contracts, "datetime", GermanDatetime)
        with pytest.raises(IndexError):
            cls(2020, 3)


class TestChain:
    def test_es_chain(self):
        # Quarter ends are used: 2019-12-31 is after "2019-12" (=2019-12-01).
        chain = FutureChain(ES, "2018-03", "2019-12")
        assert [c.symbol for c in chain.contracts] == [
            "ESH18", "ESM18", "ESU18", "ESZ18",
            "ESH19", "ESM19", "ESU19",
        ]
        assert [c.expiry for c in chain.contracts] == [
            datetime(2018, 3, 16), datetime(2018, 6, 15),
            datetime(2018, 9, 21), datetime(2018, 12, 21),
            datetime(2019, 3, 15), datetime(2019, 6, 21),
            datetime(2019, 9, 20),
        ]
        assert chain.lead_contract(datetime(2018, 4, 1)).symbol == "ESM18"
        assert chain.lead_contract(datetime(2018, 3, 8)).symbol == "ESM18"
        assert chain.lead_contract(datetime(2018, 3, 7)).symbol == "ESH18"

    def test_nk_chain(self):
        chain = FutureChain(NK, "2020-01", "2020-12")
        assert [c.symbol for c in chain.contracts] == [
            "NKH20", "NKM20", "NKU20"]
        assert [c.expiry for c in chain.contracts] == [
            datetime(2020, 3, 13), datetime(2020, 6, 12),
            datetime(2020, 9, 11),
        ]

    @pytest.mark.parametrize("cls, start", [(ES, "1997-09"), (NK, "1990-11")])
    def test_long_chain_is_ordered_with_one_event_per_contract(self, cls, start):
        chain = FutureChain(cls, start, "2099-12")
        contracts_ = chain.contracts
        assert len(contracts_) > 400
        for a, b in zip(contracts_, contracts_[1:]):
            assert a.expiry < b.expiry
            assert a.last_trading_date < b.last_trading_date
        assert len({c.symbol for c in contracts_ if c.expiry.year < 2000}) == \
            len([c for c in contracts_ if c.expiry.year < 2000])
        assert len({c.symbol for c in contracts_ if c.expiry.year >= 2000}) == \
            len([c for c in contracts_ if c.expiry.year >= 2000])
        events = chain.make_events()
        assert len(events) == len(contracts_)
        for event, contract in zip(events, contracts_):
            assert type(event) is EventContractDiscontinued
            assert event.contract is contract
            assert event.time == contract.expiry
