"""Equivalence test for edit 1 (memo of the last bisection in
FutureChain._lead_contract_idx + make_events as a comprehension).

Passes on the unmodified tree and on the tree with the edit applied. The
scenarios are the ones a careless memo would get wrong: same instant asked
twice, time going backwards, equal instants of different kind (naive/aware,
datetime/Timestamp), two chains sharing the same clock object, month offsets,
explicit `now` interleaved with the global clock, copies and pickles of a
primed chain, instants past the end of the chain, and a roll executed by the
broker through Exchange.__getitem__ / _Allocation.
"""
from tradingenv.contracts import (
    AbstractContract, FutureChain, Future, ES, VX, ZN, NK, Cash, Rate
)
from tradingenv.events import EventNBBO, EventContractDiscontinued
from tradingenv.exchange import Exchange
from tradingenv.broker.broker import Broker
from tradingenv.broker.rebalancing import Rebalancing
from tradingenv.broker.allocation import Weights, NrContracts
from datetime import datetime, timedelta, timezone
import copy
import pickle
import pandas as pd
import pytest

US = timedelta(microseconds=1)


@pytest.fixture(autouse=True)
def restore_clock():
    saved = AbstractContract.now
    yield
    AbstractContract.now = saved
    for cls in (Future, FutureChain, ES, VX):
        if 'now' in vars(cls):
            delattr(cls, 'now')


def brute_force_lead(chain: FutureChain, now, month: int = 0):
    """Earliest listed contract whose last trading date is strictly later
    than `now`, shifted by `month`."""
    later = [c for c in chain.contracts if c.last_trading_date > now]
    return later[month]


def es_chain(month=0):
    return FutureChain(ES, '2019-01-01', '2019-12-31', month=month)


class TestResolution:
    def test_known_calendar(self):
        chain = es_chain()
        assert [c.symbol for c in chain.contracts] == [
            'ESH19', 'ESM19', 'ESU19', 'ESZ19']
        assert [c.last_trading_date for c in chain.contracts] == [
            datetime(2019, 3, 7), datetime(2019, 6, 13),
            datetime(2019, 9, 12), datetime(2019, 12, 12)]

    def test_same_instant_asked_many_times(self):
        chain = es_chain()
        AbstractContract.now = datetime(2019, 4, 1)
        for _ in range(5):
            assert chain.symbol == 'ESM19'
            assert chain.lead_contract() is chain.contracts[1]
            assert chain.static_hashing() is chain.contracts[1]
            assert hash(chain) == hash('ESM19')
            assert chain._lead_contract_idx() == 1

    def test_exact_last_trading_instants_forward_and_backward(self):
        chain = es_chain()
        instants = []
        for contract in chain.contracts[:-1]:
            ltd = contract.last_trading_date
            instants += [ltd - US, ltd, ltd + US]
        expected = ['ESH19', 'ESM19', 'ESM19',
                    'ESM19', 'ESU19', 'ESU19',
                    'ESU19', 'ESZ19', 'ESZ19']
        for order in (instants, instants[::-1], instants[::2] + instants[1::2]):
            for now in order:
                AbstractContract.now = now
                want = expected[instants.index(now)]
                # Twice: the second call sees whatever the first one left.
                assert chain.symbol == want
                assert chain.symbol == want
                assert chain.lead_contract() is brute_force_lead(chain, now)

    def test_clock_going_back_is_not_sticky(self):
        chain = es_chain()
        AbstractContract.now = datetime(2019, 11, 1)
        assert chain.symbol == 'ESZ19'
        AbstractContract.now = datetime(2019, 5, 1)
        assert chain.symbol == 'ESM19'
        AbstractContract.now = datetime.min
        assert chain.symbol == 'ESH19'
        AbstractContract.now = datetime(2019, 11, 1)
        assert chain.symbol == 'ESZ19'

    def test_instance_level_clock(self):
        chain = es_chain()
        other = es_chain()
        chain.now = datetime(2019, 7, 3)
        assert chain.symbol == 'ESU19'
        assert other.symbol == 'ESH19'  # still datetime.min
        chain.now = datetime(2019, 2, 3)
        assert chain.symbol == 'ESH19'

    def test_explicit_now_interleaved_with_global_clock(self):
        chain = es_chain()
        AbstractContract.now = datetime(2019, 4, 1)
        assert chain.symbol == 'ESM19'
        assert chain.lead_contract(datetime(2019, 10, 1)).symbol == 'ESZ19'
        assert chain.symbol == 'ESM19'
        assert chain.lead_contract(datetime(2019, 1, 1)).symbol == 'ESH19'
        assert chain.lead_contract(datetime(2019, 1, 1), month=2).symbol == 'ESU19'
        assert chain.symbol == 'ESM19'
        assert chain._lead_contract_idx(datetime(2019, 9, 12)) == 3
        assert chain._lead_contract_idx() == 1

    def test_equal_instants_of_different_kind(self):
        chain = es_chain()
        naive = datetime(2019, 6, 13)
        stamp = pd.Timestamp('2019-06-13')
        assert naive == stamp
        AbstractContract.now = naive
        assert chain.symbol == 'ESU19'
        AbstractContract.now = stamp
        assert chain.symbol == 'ESU19'
        AbstractContract.now = pd.Timestamp('2019-06-12 23:59:59.999999999')
        assert chain.symbol == 'ESM19'

    def test_aware_instant_raises_even_after_naive_one_was_resolved(self):
        chain = es_chain()
        naive = datetime(2019, 4, 1)
        AbstractContract.now = naive
        assert chain.symbol == 'ESM19'
        aware = datetime(2019, 4, 1, tzinfo=timezone.utc)
        for _ in range(2):
            with pytest.raises(TypeError):
                chain.lead_contract(aware)
        AbstractContract.now = aware
        with pytest.raises(TypeError):
            chain.symbol
        # ... and the failure did not poison the chain.
        AbstractContract.now = naive
        assert chain.symbol == 'ESM19'

    def test_not_an_instant_raises(self):
        chain = es_chain()
        AbstractContract.now = datetime(2019, 4, 1)
        assert chain.symbol == 'ESM19'
        for _ in range(2):
            with pytest.raises(TypeError):
                chain.lead_contract('2019-04-01')
        assert chain.symbol == 'ESM19'

    def test_past_the_end_raises_index_error_every_time(self):
        chain = es_chain()
        AbstractContract.now = datetime(2019, 12, 11)
        assert chain.symbol == 'ESZ19'
        AbstractContract.now = datetime(2019, 12, 12)
        for _ in range(3):
            with pytest.raises(IndexError):
                chain.symbol
            with pytest.raises(IndexError):
                hash(chain)
            assert chain._lead_contract_idx() == 4
        AbstractContract.now = datetime(2019, 12, 11)
        assert chain.symbol == 'ESZ19'

    def test_month_offsets_share_the_same_clock_object(self):
        m0, m1, m2 = es_chain(0), es_chain(1), es_chain(2)
        for now, want in [
            (datetime(2019, 3, 6), ('ESH19', 'ESM19', 'ESU19')),
            (datetime(2019, 3, 7), ('ESM19', 'ESU19', 'ESZ19')),
            (datetime(2019, 1, 7), ('ESH19', 'ESM19', 'ESU19')),
        ]:
            AbstractContract.now = now
            for _ in range(2):
                assert (m0.symbol, m1.symbol, m2.symbol) == want
        AbstractContract.now = datetime(2019, 6, 13)
        assert (m0.symbol, m1.symbol) == ('ESU19', 'ESZ19')
        with pytest.raises(IndexError):
            m2.symbol
        assert m0.lead_contract(month=1) == m1.lead_contract()

    def test_changing_the_month_offset_is_seen_immediately(self):
        chain = es_chain()
        AbstractContract.now = datetime(2019, 4, 1)
        assert chain.symbol == 'ESM19'
        chain._month = 1
        assert chain.symbol == 'ESU19'
        chain._month = 0
        assert chain.symbol == 'ESM19'

    def test_chains_of_different_classes_share_the_same_clock_object(self):
        es = FutureChain(ES, '2019-01-01', '2019-12-31')
        vx = FutureChain(VX, '2019-01-01', '2019-12-31')
        zn = FutureChain(ZN, '2019-01-01', '2019-12-31')
        nk = FutureChain(NK, '2019-01-01', '2019-12-31')
        now = datetime(2019, 4, 15)
        AbstractContract.now = now
        for _ in range(2):
            assert es.symbol == 'ESM19'
            assert vx.symbol == 'VXK19'
            assert zn.symbol == 'ZNM19'
            assert nk.symbol == 'NKM19'
        for chain in (es, vx, zn, nk):
            assert chain.lead_contract() is brute_force_lead(chain, now)
        # VX: last trading dates are pd.Timestamp (expiry - BDay(2)).
        ltd = vx.contracts[3].last_trading_date
        assert ltd == pd.Timestamp('2019-04-15')
        AbstractContract.now = ltd - US
        assert vx.symbol == 'VXJ19'
        AbstractContract.now = ltd
        assert vx.symbol == 'VXK19'

    def test_every_day_of_the_span_against_brute_force(self):
        chains = [FutureChain(cls, '2018-01-01', '2020-12-31', month=m)
                  for cls in (ES, VX, ZN, NK) for m in (0, 1)]
        last_idx = {id(chain): -1 for chain in chains}
        for day in pd.date_range('2018-01-01', '2020-06-01', freq='D'):
            now = day.to_pydatetime()
            AbstractContract.now = now
            for chain in chains:
                lead = chain.lead_contract()
                assert lead is brute_force_lead(chain, now, chain._month)
                assert lead.last_trading_date > now
                assert chain.static_hashing() is lead
                idx = chain.contracts.index(lead)
                assert idx >= last_idx[id(chain)]
                last_idx[id(chain)] = idx

    def test_copies_and_pickles_of_a_primed_chain(self):
        chain = es_chain()
        AbstractContract.now = datetime(2019, 4, 1)
        assert chain.symbol == 'ESM19'
        clones = [copy.copy(chain), copy.deepcopy(chain),
                  pickle.loads(pickle.dumps(chain))]
        for clone in clones:
            assert clone.symbol == 'ESM19'
        AbstractContract.now = datetime(2019, 7, 1)
        for clone in clones + [chain]:
            assert clone.symbol == 'ESU19'
            assert clone == chain

    def test_chain_built_from_contracts(self):
        chain = FutureChain(contracts=[ES(2020, 9), ES(2020, 3), ES(2020, 6)])
        AbstractContract.now = datetime(2020, 3, 12)
        assert chain.symbol == 'ESM20'
        AbstractContract.now = datetime(2020, 3, 11, 23, 59)
        assert chain.symbol == 'ESH20'
        assert chain == 'ESH20'
        assert {chain: 1}[ES(2020, 3)] == 1


class TestMakeEvents:
    def test_order_and_content(self):
        chain = es_chain()
        events = chain.make_events()
        assert type(events) is list
        assert [type(e) for e in events] == [EventContractDiscontinued] * 4
        assert [e.contract for e in events] == chain.contracts
        assert all(e.contract is c for e, c in zip(events, chain.contracts))
        assert [e.time for e in events] == [
            datetime(2019, 3, 15), datetime(2019, 6, 21),
            datetime(2019, 9, 20), datetime(2019, 12, 20)]
        assert chain.make_events() is not events

    def test_contract_with_several_or_no_events(self):
        class Noisy(ES):
            def make_events(self):
                events = super().make_events()
                if self.expiry.month == 6:
                    return []
                return events + events

        chain = FutureChain(Noisy, '2019-01-01', '2019-12-31')
        events = chain.make_events()
        assert [e.contract.symbol for e in events] == [
            'NoisyH19', 'NoisyH19', 'NoisyU19', 'NoisyU19',
            'NoisyZ19', 'NoisyZ19']


def make_broker(quotes, deposit=1000000.):
    exchange = Exchange()
    t0 = datetime(2019, 1, 1)
    exchange.process_EventNBBO(EventNBBO(t0, Cash(), 1, 1))
    exchange.process_EventNBBO(EventNBBO(t0, Rate('FED funds rate'), 0., 0.))
    for contract, (bid, ask) in quotes.items():
        exchange.process_EventNBBO(EventNBBO(t0, contract, bid, ask))
    return Broker(exchange=exchange, deposit=deposit)


class TestRollThroughBroker:
    QUOTES = {
        ES(2019, 3): (2800., 2801.),
        ES(2019, 6): (2810., 2811.),
        ES(2019, 9): (2820., 2821.),
    }

    def rebalance(self, broker, chain, weight, now, margin=0.0):
        AbstractContract.now = now
        rebalancing = Rebalancing([chain], [weight], margin=margin, time=now)
        broker.rebalance(rebalancing)
        return rebalancing

    @pytest.mark.parametrize('weight', [0.5, -0.5])
    def test_roll_at_the_exact_last_trading_instant(self, weight):
        chain = es_chain()
        broker = make_broker(self.QUOTES)
        h19, m19, u19 = ES(2019, 3), ES(2019, 6), ES(2019, 9)

        r1 = self.rebalance(broker, chain, weight, datetime(2019, 3, 6, 23))
        assert [t.contract for t in r1.trades] == [h19]
        px = 2801. if weight > 0 else 2800.
        q1 = weight * 1000000. / px / 50.
        assert broker.holdings_quantity[h19] == q1
        assert broker.exchange[chain] is broker.exchange[h19]
        assert Weights({chain: weight}) == {h19: weight}

        # Exact last trading instant of ESH19: the chain is ESM19 from now.
        r2 = self.rebalance(
            broker, chain, weight, datetime(2019, 3, 7), margin=0.02)
        assert broker.exchange[chain] is broker.exchange[m19]
        assert NrContracts({chain: 3.}) == {m19: 3.}
        assert sorted(t.contract.symbol for t in r2.trades) == ['ESH19', 'ESM19']
        by_contract = {t.contract: t for t in r2.trades}
        assert by_contract[h19].quantity == -q1
        assert by_contract[h19].acq_price == (2800. if weight > 0 else 2801.)
        nlv = r2.context_pre.nlv
        assert nlv == pytest.approx(1000000. - abs(q1) * 50., rel=1e-12)
        px = 2811. if weight > 0 else 2810.
        assert by_contract[m19].quantity == weight * nlv / px / 50.
        holdings = broker.holdings_quantity
        assert holdings[h19] == 0
        assert holdings[m19] == weight * nlv / px / 50.
        assert u19 not in holdings

        # Old lead expires: nothing is held in it, nlv can still be computed.
        event = EventContractDiscontinued(h19.expiry, h19)
        broker.exchange.process_EventContractDiscontinued(event)
        assert not broker.exchange[h19].is_alive
        assert broker.net_liquidation_value() > 0

    def test_old_lead_below_threshold_is_still_closed(self):
        chain = es_chain()
        broker = make_broker(self.QUOTES)
        h19, m19 = ES(2019, 3), ES(2019, 6)
        self.rebalance(broker, chain, 0.01, datetime(2019, 3, 1))
        assert broker.holdings_quantity[h19] == 0.01 * 1000000. / 2801. / 50.
        # Imbalance of both legs (1%) is below the threshold (5%): the new
        # lead is not opened, but the old one is closed nonetheless.
        r = self.rebalance(broker, chain, 0.01, datetime(2019, 3, 8), margin=0.05)
        assert [t.contract for t in r.trades] == [h19]
        assert broker.holdings_quantity[h19] == 0
        assert m19 not in broker.holdings_quantity

    def test_no_roll_no_trade_when_on_target(self):
        chain = es_chain()
        broker = make_broker(self.QUOTES)
        self.rebalance(broker, chain, 0.5, datetime(2019, 3, 1))
        r = self.rebalance(broker, chain, 0.5, datetime(2019, 3, 2), margin=0.02)
        assert r.trades == []
