"""Equivalence tests for edit 2 (kind B): observation events built from the
rows of the underlying array instead of DataFrame.iterrows() + bound methods
hoisted in State.process_EventNewObservation.

Run from the root of the checkout under test so that `tradingenv` is imported
from it, e.g.:

    cd /tmp/wt9/C18 && /venv/bin/python -m pytest -q -p no:cacheprovider \
        /tmp/wt-out9/C18/2/equiv_test.py

The file must pass both with and without the edit.
"""
from datetime import datetime
import math

import numpy as np
import pandas as pd
import pytest
from sklearn.base import BaseEstimator, OneToOneFeatureMixin, TransformerMixin

from tradingenv.contracts import Asset
from tradingenv.env import TradingEnvXY
from tradingenv.events import EventNBBO, EventNewObservation
from tradingenv.state import State


# --------------------------------------------------------------------- data
def small_dataset():
    """15 business days from Mon 2022-01-10. 2022-01-17 is a NYSE holiday."""
    dates = pd.date_range('2022-01-10', periods=15, freq='B')
    X = pd.DataFrame(
        {
            'f0': [np.nan, 1, np.nan, 7, -9, 2, 0.5, np.nan, np.nan, -1, 4, 2.5, np.nan, 1.5, -0.5],
            'f1': [np.nan, np.nan, 2, 2, 2, -8, 1, 1, 0, 0, np.nan, 3, 3.5, -3.5, 0.25],
        },
        dates,
    )
    Y = pd.DataFrame(
        {'A': [100. + i for i in range(15)], 'B': [50. - i for i in range(15)]},
        dates,
    )
    Y.loc[dates[7], 'A'] = np.nan
    rate = pd.Series(0.01, dates, name='rf')
    return X, Y, rate


def random_dataset(seed, n=70, x_offset=-12, nx=3):
    rng = np.random.default_rng(seed)
    ydates = pd.date_range('2022-01-03', periods=n, freq='B')
    xdates = pd.date_range(ydates[0] + x_offset * pd.Timedelta(days=1), periods=n + 25, freq='B')
    X = pd.DataFrame(rng.normal(0, 2, (len(xdates), nx)), xdates, columns=[f'c{i}' for i in range(nx)])
    X['c0'] = np.exp(X['c0'])
    X = X.mask(rng.random(X.shape) < 0.15)
    X = X.drop(X.index[[20, 21, 33]])
    Y = pd.DataFrame(
        100 * np.exp(np.cumsum(rng.normal(0, 0.01, (n, 2)), axis=0)),
        ydates, columns=['P', 'Q'],
    )
    Y.iloc[5, 0] = np.nan
    Y.iloc[17:19, 1] = np.nan
    Y.iloc[30, :] = np.nan
    rate = pd.Series(0.01 + 0.001 * rng.random(n), ydates, name='rf')
    return X, Y, rate


class Cast(OneToOneFeatureMixin, TransformerMixin, BaseEstimator):
    """User supplied transformer publishing a table which is NOT float64 (or
    whose labels are not strings)."""

    def __init__(self, dtype=np.float32):
        self.dtype = dtype

    def fit(self, X, y=None):
        self.feature_names_in_ = np.asarray(X.columns, dtype=object)
        self.n_features_in_ = X.shape[1]
        return self

    def transform(self, X):
        return (X * 3).fillna(0).astype(self.dtype)


# ------------------------------------------------------------------- oracle
def expected_observation(env, t, window, stride):
    rows = env.X.loc[:t].iloc[-window:].to_numpy()
    if stride:
        rows = rows[::-stride][::-1]
    return rows


def walk(env, fold=None):
    obs = env.reset() if fold is None else env.reset(fold)
    out = [(env.now(), obs)]
    n = len(env.action_space.contracts)
    done, i = False, 0
    while not done:
        obs, _, done, _ = env.step(np.full(n, ((i % 5) - 2) / (4 * n)))
        out.append((env.now(), obs))
        i += 1
    return out


def observation_events(env):
    return [e for e in env._transmitter.events if isinstance(e, EventNewObservation)]


def check_events_are_the_rows_of_the_table(env, scalar_type=np.float64):
    """One event per row of the published table, in row order, each a dict
    {column label -> value of the row} with keys in column order."""
    events = observation_events(env)
    assert len(events) == len(env.X)
    labels = list(env.X.columns)
    for event, (t, row) in zip(events, zip(env.X.index, env.X.to_numpy())):
        assert type(event) is EventNewObservation
        assert event.time == t and isinstance(event.time, pd.Timestamp)
        assert type(event.data) is dict
        assert list(event.data) == labels
        assert [type(k) for k in event.data] == [type(k) for k in labels]
        values = list(event.data.values())
        assert all(type(v) is scalar_type for v in values), [type(v) for v in values]
        assert np.array(values, dtype=env.X.to_numpy().dtype).tobytes() == row.tobytes()
        assert event.to_list() == values
        assert len(event) == len(labels)
        assert event[labels[0]] == values[0]
    # Every event owns its dict.
    assert len({id(e.data) for e in events}) == len(events)


# -------------------------------------------------------------------- tests
def test_small_env_events_and_their_order_in_the_transmitter():
    X, Y, rate = small_dataset()
    env = TradingEnvXY(X, Y, transformer=None, window=3, stride=2, clip=3., spread=0.02, rate=rate)
    check_events_are_the_rows_of_the_table(env)
    events = observation_events(env)
    # Hand-computed payloads (ffill, then 0-fill, then clip at 3).
    assert events[0].time == pd.Timestamp('2022-01-10') and events[0].data == {'f0': 0., 'f1': 0.}
    assert events[3].time == pd.Timestamp('2022-01-13') and events[3].data == {'f0': 3., 'f1': 2.}
    assert events[5].time == pd.Timestamp('2022-01-17') and events[5].data == {'f0': 2., 'f1': -3.}
    assert events[-1].time == pd.Timestamp('2022-01-28') and events[-1].data == {'f0': -.5, 'f1': .25}
    # Order in which things were handed to the transmitter: quotes of A, quotes
    # of B, observations, rate (then whatever the contracts add).
    a, b = env.Y.columns
    rf = env._broker_fees.interest_rate
    kinds = [
        e.contract if isinstance(e, EventNBBO) else 'obs'
        for e in env._transmitter.events
    ]
    # Warm-up postponed the start by two dates (13 dates of prices left); A has
    # one missing price.
    assert kinds == [a] * 12 + [b] * 13 + ['obs'] * 15 + [rf] * 13


def test_small_env_observations_hand_computed():
    X, Y, rate = small_dataset()
    env = TradingEnvXY(X, Y, transformer=None, window=3, stride=2, clip=3., spread=0.02, rate=rate)
    steps = walk(env)
    assert [t for t, _ in steps] == list(pd.to_datetime([
        '2022-01-18', '2022-01-19', '2022-01-20', '2022-01-21', '2022-01-24',
        '2022-01-25', '2022-01-26', '2022-01-27', '2022-01-28']))
    np.testing.assert_array_equal(steps[0][1], [[-3., 2.], [.5, 1.]])
    np.testing.assert_array_equal(steps[1][1], [[2., -3.], [.5, 1.]])
    np.testing.assert_array_equal(steps[2][1], [[.5, 1.], [.5, 0.]])
    np.testing.assert_array_equal(steps[-1][1], [[2.5, 3.], [-.5, .25]])
    for t, obs in steps:
        assert obs.dtype == np.float64
        assert obs in env.observation_space
        np.testing.assert_array_equal(obs, expected_observation(env, t, 3, 2))
    # A second episode replays exactly the same thing (state is re-initialised
    # and warmed up again from the very same events).
    again = walk(env)
    assert [t for t, _ in again] == [t for t, _ in steps]
    for (_, o1), (_, o2) in zip(steps, again):
        assert o1.tobytes() == o2.tobytes()


def test_window_one_serves_the_row_of_the_day():
    X, Y, rate = small_dataset()
    env = TradingEnvXY(X, Y, transformer=None, window=1, clip=5.)
    check_events_are_the_rows_of_the_table(env)
    steps = walk(env)
    assert steps[0][0] == pd.Timestamp('2022-01-11')
    np.testing.assert_array_equal(steps[0][1], [[1., 0.]])
    np.testing.assert_array_equal(steps[3][1], [[-5., 2.]])   # 14 Jan, -9 clipped
    np.testing.assert_array_equal(steps[4][1], [[.5, 1.]])    # 18 Jan (17th is closed)
    for t, obs in steps:
        np.testing.assert_array_equal(obs, env.X.loc[[t]].to_numpy())


@pytest.mark.parametrize('window,stride,transformer,clip', [
    (1, None, 'z-score', 5.),
    (3, None, 'yeo-johnson', 5.),
    (5, 2, 'z-score', 1.5),
    (4, 4, None, 2.),
    (7, 3, 'yeo-johnson', 4.),
    (30, 7, 'z-score', 5.),
    (2, 5, None, 0.5),
])
def test_random_env_serves_its_published_table(window, stride, transformer, clip):
    X, Y, rate = random_dataset(seed=window, nx=4)
    env = TradingEnvXY(X, Y, transformer=transformer, window=window, stride=stride,
                       clip=clip, spread=0.004, rate=rate)
    check_events_are_the_rows_of_the_table(env)
    m = window if stride is None else math.ceil(window / stride)
    assert env.observation_space.shape == (m, 4)
    assert not env.X.isna().any().any() and float(env.X.abs().max().max()) <= clip
    timesteps = env._transmitter.timesteps
    assert set(timesteps) <= set(Y.index)
    assert not {pd.Timestamp('2022-01-17'), pd.Timestamp('2022-02-21'), pd.Timestamp('2022-04-15')} & set(timesteps)
    assert len(env.X.loc[:timesteps[0]]) >= window
    steps = walk(env)
    assert [t for t, _ in steps] == timesteps
    for t, obs in steps:
        assert obs.shape == (m, 4) and obs.dtype == np.float64
        assert obs in env.observation_space
        np.testing.assert_array_equal(obs, expected_observation(env, t, window, stride))
    # Quotes and rate at the last step.
    t = steps[-1][0]
    for col in Y.columns:
        price = float(Y[col].loc[:t].dropna().iloc[-1])
        book = env.exchange[Asset(col)]
        assert (book.bid_price, book.ask_price) == (price - price * 0.004 / 2, price + price * 0.004 / 2)
    assert env.exchange[env._broker_fees.interest_rate].mid_price == rate.loc[t]


def test_integer_feature_labels_from_a_user_transformer():
    """Labels are python ints (not strings), table is float64."""
    X, Y, rate = random_dataset(seed=11)
    X.columns = [10, 20, 30]
    env = TradingEnvXY(X, Y, transformer=Cast(np.float64), window=3, stride=2, clip=4.)
    assert list(env.X.columns) == [10, 20, 30]
    assert all(type(c) is int for c in observation_events(env)[0].data)
    check_events_are_the_rows_of_the_table(env)
    for t, obs in walk(env):
        np.testing.assert_array_equal(obs, expected_observation(env, t, 3, 2))
        assert float(np.abs(obs).max()) <= 4.


@pytest.mark.parametrize('dtype,scalar_type', [(np.float32, np.float32), (np.int64, np.int64)])
def test_published_table_which_is_not_float64(dtype, scalar_type):
    """A user transformer may publish float32 / integer tables: the payload of
    the events keeps the scalar type of the table and so do observations."""
    X, Y, rate = random_dataset(seed=12)
    env = TradingEnvXY(X, Y, transformer=Cast(dtype), window=2, clip=5.)
    assert set(env.X.dtypes) == {np.dtype(dtype)}
    check_events_are_the_rows_of_the_table(env, scalar_type)
    steps = walk(env)
    for t, obs in steps:
        assert obs.dtype == np.dtype(dtype)
        np.testing.assert_array_equal(obs, expected_observation(env, t, 2, None))


def test_folds():
    X, Y, rate = random_dataset(seed=6)
    folds = {
        'training-set': [datetime(2022, 1, 1), datetime(2022, 2, 20)],
        'test-set': [datetime(2022, 2, 21), datetime(2022, 5, 1)],
    }
    env = TradingEnvXY(X, Y, transformer='z-score', window=4, stride=3, folds=folds)
    steps = walk(env, 'test-set')
    assert steps[0][0] == pd.Timestamp('2022-02-22')
    for t, obs in steps:
        np.testing.assert_array_equal(obs, expected_observation(env, t, 4, 3))


class CountingObservation(EventNewObservation):
    calls = 0

    def to_list(self):
        type(self).calls += 1
        return super().to_list()


def test_state_queue_padding_call_count_and_no_aliasing():
    CountingObservation.calls = 0
    state = State(['u', 'v'], window=3)
    t0 = datetime(2022, 1, 3)
    first = CountingObservation(t0, {'u': 1., 'v': np.nan})
    state.process_EventNewObservation(first)
    # window paddings + the observation itself, each from its own to_list().
    assert CountingObservation.calls == 4
    assert state.last_event is first
    assert len(state.queue) == 3 and state.queue.maxlen == 3
    rows = [slot[0] for slot in state.queue]
    assert all(type(slot) is list and len(slot) == 1 for slot in state.queue)
    assert len({id(r) for r in rows}) == 3, "slots of the queue must not alias each other"
    assert len({id(slot) for slot in state.queue}) == 3
    # Mutating one slot does not leak into the others.
    state.queue[0][0][0] = 99.
    np.testing.assert_array_equal(state.parse(), [[99., np.nan], [1., np.nan], [1., np.nan]])
    second = CountingObservation(t0, {'u': 2., 'v': 3.})
    state.process_EventNewObservation(second)
    assert CountingObservation.calls == 5
    assert state.last_event is second
    np.testing.assert_array_equal(state.parse(), [[1., np.nan], [1., np.nan], [2., 3.]])
    # Payload is copied at event creation and at every to_list().
    second.data['u'] = -1.
    np.testing.assert_array_equal(state.parse(), [[1., np.nan], [1., np.nan], [2., 3.]])
    # reset() forgets everything, next event pads again.
    state.reset()
    assert len(state.queue) == 0 and state.last_event is None
    state.process_EventNewObservation(second)
    assert CountingObservation.calls == 9
    np.testing.assert_array_equal(state.parse(), [[-1., 3.]] * 3)


def test_state_with_stride_through_notify():
    """Through IEvent.notify: callback, last_update, history."""
    state = State(2, window=4, stride=3)
    for i in range(1, 7):
        t = datetime(2022, 1, i)
        EventNewObservation(t, {0: i / 2, 1: -i / 4}).notify([state])
        assert state.last_update == t
    # queue = 3,4,5,6 -> from the most recent backwards with stride 3: 6, 3.
    np.testing.assert_array_equal(state.parse(), [[1.5, -.75], [3., -1.5]])
    assert list(state.history) == [datetime(2022, 1, i) for i in range(1, 7)]
    np.testing.assert_array_equal(state.history[datetime(2022, 1, 1)], [[.5, -.25], [.5, -.25]])
    np.testing.assert_array_equal(state.history[datetime(2022, 1, 5)], [[1., -.5], [2.5, -1.25]])
