"""Behaviour pinned for LimitOrderBook / Exchange: key resolution of futures
chains, quotes, book termination at expiry and price history. The expected
values were computed on the unmodified library; the test must pass with and
without the refactor."""
from datetime import datetime
from types import SimpleNamespace
import math

import numpy as np
import pandas as pd
import pytest

from tradingenv.contracts import (
    AbstractContract, Cash, ES, ETF, FutureChain,
)
from tradingenv.env import TradingEnv
from tradingenv.events import EventContractDiscontinued, EventNBBO
from tradingenv.exchange import Exchange, LimitOrderBook
from tradingenv.spaces import BoxPortfolio

T0 = datetime(2020, 3, 2)
T1 = datetime(2020, 3, 12)  # last trading date of ESH20
T2 = datetime(2020, 3, 20)  # expiry of ESH20


@pytest.fixture(autouse=True)
def _reset_clock():
    AbstractContract.now = datetime.min
    yield
    AbstractContract.now = datetime.min


def make_chain():
    return FutureChain(contracts=[ES(2020, 3), ES(2020, 6), ES(2020, 9)])


def make_exchange():
    exchange = Exchange()
    for contract, bid, ask, bid_size, ask_size in [
        (ES(2020, 3), 2941.75, 2942.0, 10, 20),
        (ES(2020, 6), 2940.0, 2940.25, 30, 40),
        (ES(2020, 9), 2938.75, 2939.0, 50, 60),
        (ETF('SPY'), 293.24, 293.25, 70, 80),
    ]:
        exchange.process_EventNBBO(
            EventNBBO(T0, contract, bid, ask, bid_size, ask_size))
    return exchange


def test_limit_order_book_prices_by_sign():
    lob = LimitOrderBook(bid_price=99.5, ask_price=100.5)
    assert lob.acq_price(3) == 100.5
    assert lob.acq_price(-3) == 99.5
    assert lob.acq_price(0) == 100.0
    assert lob.acq_price(-0.0) == 100.0
    assert lob.liq_price(3) == 99.5
    assert lob.liq_price(-3) == 100.5
    assert lob.liq_price(0) == 100.0
    assert lob.acq_price(float('inf')) == 100.5
    assert lob.acq_price(np.float64(-1e-300)) == 99.5
    assert lob.spread == 1.0
    assert repr(lob) == "99.5 : 100.5"
    for bad in (float('nan'), np.nan):
        with pytest.raises(ValueError) as info:
            lob.acq_price(bad)
        assert str(info.value) == "Unexpected sign: nan"
        with pytest.raises(ValueError):
            lob.liq_price(bad)
    with pytest.raises(TypeError):
        lob.acq_price(None)
    with pytest.raises(ValueError):  # ambiguous truth value
        lob.acq_price(np.array([1.0, -1.0]))
    empty = LimitOrderBook()
    assert math.isnan(empty.acq_price(1)) and math.isnan(empty.mid_price)
    assert empty.is_alive is True and empty.time is None
    assert dict(empty.history) == {}


def test_limit_order_book_update_terminate_and_history():
    lob = LimitOrderBook()
    lob.update(EventNBBO(T0, ETF('SPY'), 10.0, 11.0, 1, 2))
    lob.update(EventNBBO(T1, ETF('SPY'), 12.0, 14.0, 3, 4))
    assert list(lob.history) == [
        "time", "bid_price", "ask_price", "mid_price", "bid_size", "ask_size"]
    assert dict(lob.history) == {
        "time": [T0, T1],
        "bid_price": [10.0, 12.0],
        "ask_price": [11.0, 14.0],
        "mid_price": [10.5, 13.0],
        "bid_size": [1, 3],
        "ask_size": [2, 4],
    }
    assert (lob.bid_price, lob.ask_price, lob.bid_size, lob.ask_size, lob.time) \
        == (12.0, 14.0, 3, 4, T1)
    frame = lob.to_frame()
    assert frame.name == "mid_price"
    assert list(frame.index) == [T0, T1] and list(frame) == [10.5, 13.0]
    assert list(lob.to_frame("ask_size")) == [2, 4]

    # A failing update leaves a partially written history (time, bid, ask).
    broken = LimitOrderBook()
    with pytest.raises(TypeError):
        broken.update(SimpleNamespace(
            time=T0, bid_price=None, ask_price=None, bid_size=1, ask_size=2))
    assert dict(broken.history) == {
        "time": [T0], "bid_price": [None], "ask_price": [None], "mid_price": []}

    history = lob.history
    lob.terminate(EventContractDiscontinued(T2, ETF('SPY')))
    assert lob.history is history
    assert lob.history["mid_price"] == [10.5, 13.0]
    assert lob.is_alive is False
    assert lob.time == T2
    assert all(math.isnan(x) for x in (
        lob.bid_price, lob.ask_price, lob.bid_size, lob.ask_size,
        lob.mid_price, lob.spread))
    assert repr(lob) == "nan : nan"


def test_exchange_resolves_chain_to_live_lead():
    chain = make_chain()
    exchange = make_exchange()
    assert len(exchange) == 4
    AbstractContract.now = T0
    assert exchange[chain] is exchange[ES(2020, 3)]
    assert exchange[chain] is exchange["ESH20"]
    assert exchange[chain] is exchange._books[ES(2020, 3)]
    AbstractContract.now = T1  # exact last trading instant: already rolled
    assert exchange[chain] is exchange[ES(2020, 6)]
    assert exchange[chain] is not exchange[ES(2020, 3)]
    AbstractContract.now = datetime(2020, 6, 11)
    assert exchange[chain] is exchange["ESU20"]
    assert len(exchange) == 4
    AbstractContract.now = datetime(2020, 9, 10)  # chain exhausted
    with pytest.raises(IndexError):
        exchange[chain]
    assert len(exchange) == 4
    # Unknown keys create an empty book, like any defaultdict.
    book = exchange["unknown"]
    assert isinstance(book, LimitOrderBook) and math.isnan(book.mid_price)
    assert len(exchange) == 5
    assert list(exchange._books)[-1] == "unknown"
    assert repr(exchange) == (
        "{ES(ESH20): '2941.75 : 2942.0', ES(ESM20): '2940.0 : 2940.25', "
        "ES(ESU20): '2938.75 : 2939.0', ETF(SPY): '293.24 : 293.25'}")
    with pytest.raises(TypeError):
        exchange[[ES(2020, 3)]]  # unhashable key


def test_exchange_quote_arrays():
    chain = make_chain()
    exchange = make_exchange()
    keys = [chain, ETF('SPY'), ES(2020, 9)]
    AbstractContract.now = T0
    np.testing.assert_array_equal(
        exchange.bid_prices(keys), np.array([2941.75, 293.24, 2938.75]))
    np.testing.assert_array_equal(
        exchange.ask_prices(keys), np.array([2942.0, 293.25, 2939.0]))
    np.testing.assert_array_equal(
        exchange.mid_prices(keys), np.array([2941.875, 293.245, 2938.875]))
    np.testing.assert_array_equal(
        exchange.spreads(keys),
        np.array([2942.0 - 2941.75, 293.25 - 293.24, 2939.0 - 2938.75]))
    signs = np.array([1.0, -1.0, 0.0])
    np.testing.assert_array_equal(
        exchange.acq_prices(keys, signs), np.array([2942.0, 293.24, 2938.875]))
    np.testing.assert_array_equal(
        exchange.liq_prices(keys, signs), np.array([2941.75, 293.25, 2938.875]))
    AbstractContract.now = T1
    np.testing.assert_array_equal(
        exchange.bid_prices(keys), np.array([2940.0, 293.24, 2938.75]))
    np.testing.assert_array_equal(
        exchange.acq_prices(keys, signs), np.array([2940.25, 293.24, 2938.875]))
    # Edge cases: no keys, generators, unknown contracts.
    for method in (exchange.bid_prices, exchange.ask_prices,
                   exchange.mid_prices, exchange.spreads):
        out = method([])
        assert isinstance(out, np.ndarray) and out.shape == (0,)
        assert out.dtype == np.float64
    np.testing.assert_array_equal(
        exchange.mid_prices(k for k in ["ESH20", "SPY"]),
        np.array([2941.875, 293.245]))
    assert len(exchange) == 4
    out = exchange.mid_prices([ETF('SPY'), ETF('IEF')])
    assert out[0] == 293.245 and math.isnan(out[1])
    assert len(exchange) == 5  # a book was created for IEF
    # Keys without a matching sign are not even looked up.
    out = exchange.acq_prices([ETF('SPY'), ETF('TLT')], np.array([1.0]))
    np.testing.assert_array_equal(out, np.array([293.25]))
    assert len(exchange) == 5
    with pytest.raises(ValueError):
        exchange.acq_prices([ETF('SPY')], np.array([np.nan]))


def test_exchange_events_and_termination_at_expiry():
    chain = make_chain()
    exchange = make_exchange()
    assert exchange.last_update == T0
    AbstractContract.now = T1
    # A quote addressed to the chain lands in the book of the live lead.
    exchange.process_EventNBBO(EventNBBO(T1, chain, 2950.0, 2951.0))
    assert exchange[ES(2020, 6)].history["mid_price"] == [2940.125, 2950.5]
    assert exchange[ES(2020, 3)].history["mid_price"] == [2941.875]
    assert exchange.last_update == T1

    AbstractContract.now = T2
    event = EventContractDiscontinued(T2, ES(2020, 3))
    assert exchange.process_EventContractDiscontinued(event) is None
    old = exchange[ES(2020, 3)]
    assert old.is_alive is False and old.time == T2
    assert math.isnan(old.bid_price) and math.isnan(old.ask_price)
    assert old.history["time"] == [T0]
    assert exchange[ES(2020, 6)].is_alive is True
    assert exchange[chain] is exchange[ES(2020, 6)]
    # Later quotes of the dead contract are ignored but move the clock.
    later = datetime(2020, 3, 23)
    exchange.process_EventNBBO(EventNBBO(later, ES(2020, 3), 1.0, 2.0))
    assert math.isnan(old.mid_price) and old.history["time"] == [T0]
    assert old.time == T2
    assert exchange.last_update == later
    assert "ESH20" not in repr(exchange)
    # Terminating twice, or through the chain, works the same way.
    exchange.process_EventContractDiscontinued(
        EventContractDiscontinued(later, ES(2020, 3)))
    assert old.time == later and old.is_alive is False
    exchange.process_EventContractDiscontinued(
        EventContractDiscontinued(later, chain))
    assert exchange[ES(2020, 6)].is_alive is False
    assert exchange[ES(2020, 6)].history["mid_price"] == [2940.125, 2950.5]
    # Unknown contract: a dead empty book is created.
    n = len(exchange)
    exchange.process_EventContractDiscontinued(
        EventContractDiscontinued(later, ETF('IEF')))
    assert len(exchange) == n + 1 and exchange[ETF('IEF')].is_alive is False
    exchange.process_EventNBBO(EventNBBO(later, ETF('IEF'), 1.0, 2.0))
    assert dict(exchange[ETF('IEF')].history) == {}


def test_exchange_to_frame():
    exchange = make_exchange()
    exchange.process_EventNBBO(EventNBBO(T1, ES(2020, 6), 2950.0, 2951.0))
    exchange.process_EventNBBO(EventNBBO(T1, ETF('SPY'), 300.0, 301.0))
    contracts = [ES(2020, 3), ES(2020, 6), ETF('SPY')]
    outer = exchange.to_frame(contracts)
    assert list(outer.columns) == contracts
    assert list(outer.index) == [T0, T1]
    assert all(dtype == np.float32 for dtype in outer.dtypes)
    expected = pd.DataFrame(
        [[2941.875, 2940.125, 293.245], [np.nan, 2950.5, 300.5]],
        index=[T0, T1], columns=contracts, dtype=np.float32)
    pd.testing.assert_frame_equal(outer, expected)
    inner = exchange.to_frame(contracts, join='inner')
    pd.testing.assert_frame_equal(inner, expected.iloc[:1])
    with pytest.raises(ValueError):
        exchange.to_frame([])
    n = len(exchange)
    frame = exchange.to_frame([ETF('SPY'), ETF('IEF')])
    assert len(exchange) == n + 1
    assert frame[ETF('IEF')].isna().all()


def test_env_rolls_and_terminates_books():
    idx = pd.date_range("2020-02-24", "2020-03-27", freq="B")
    n = len(idx)
    prices = pd.DataFrame({
        ES(2020, 3): np.linspace(3000, 3100, n),
        ES(2020, 6): np.linspace(2990, 3080, n),
        ES(2020, 9): np.linspace(2980, 3060, n),
    }, index=idx)
    chain = make_chain()
    env = TradingEnv(
        action_space=BoxPortfolio([Cash(), chain], low=-2, high=2),
        prices=prices,
    )
    env.reset()
    done = False
    held = []
    while not done:
        _, _, done, _ = env.step(np.array([0.5, 0.5]))
        symbols = sorted(
            k.symbol for k, v in env.broker.holdings_quantity.items()
            if not isinstance(k, Cash) and v != 0)
        held.append((env.now(), symbols, env.exchange[ES(2020, 3)].is_alive))
    assert len(held) == 24
    for now, symbols, alive in held:
        assert symbols == (["ESH20"] if now <= T1 else ["ESM20"])
        assert alive is (now < T2)
    assert env.exchange[ES(2020, 3)].time == T2
    assert len(env.exchange[ES(2020, 3)].history["time"]) == 20
    assert len(env.exchange[ES(2020, 6)].history["time"]) == 25
    assert env.broker.net_liquidation_value() == pytest.approx(
        101.58178637320937, rel=1e-12)


def test_termination_is_the_same_with_verbose_logging():
    import logging
    log = logging.getLogger("tradingenv.exchange")
    level = log.level
    log.setLevel(logging.DEBUG)
    try:
        exchange = make_exchange()
        event = EventContractDiscontinued(T2, ES(2020, 3))
        assert exchange.process_EventContractDiscontinued(event) is None
        exchange.process_EventNBBO(EventNBBO(T2, ES(2020, 3), 1.0, 2.0))
    finally:
        log.setLevel(level)
    book = exchange[ES(2020, 3)]
    assert book.is_alive is False and book.time == T2
    assert book.history["mid_price"] == [2941.875]
    assert exchange.last_update == T2 and len(exchange) == 4
