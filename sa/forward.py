"""Forward abstract interpretation of a function body over the value-id
domain: locals and attribute/subscript slots map to polynomials over leaf
symbols. Branches are evaluated separately and joined (differing values
become opaque phi symbols); loop bodies are evaluated once and joined with the
skip path. Nothing is executed; no path enumeration, no solver."""
from __future__ import annotations
import ast
from typing import Dict, List, Optional, Callable, Set, Tuple
from .model import FuncInfo, AnalysisError
from .dataflow import Sym, Poly, cmp_key, _paren, ite_atom
from .analysis import Analysis, FuncAnalysis


class State:
    def __init__(self, locals_: Dict[str, Poly] = None, slots: Dict[str, Poly] = None, alive: bool = True):
        self.locals: Dict[str, Poly] = dict(locals_ or {})
        self.slots: Dict[str, Poly] = dict(slots or {})
        self.alive = alive
        self.conds: List[tuple] = []      # path condition (cmp normal forms)
        self.bools: Dict[str, tuple] = {}  # locals that hold a condition (`ok = a < b and c`): their CMP normal form

    def copy(self) -> "State":
        s = State(self.locals, self.slots, self.alive)
        s.conds = list(self.conds)
        s.bools = dict(self.bools)
        return s


_phi_counter = [0]


def join(a: State, b: State, cond=None) -> State:
    """cond: the branch condition when the two states are the arms of one `if` (a = condition true): values that
    differ become the conditional expression ite(cond, a, b) - the same value id an `x = a if cond else b` gets."""
    if not a.alive:
        return b.copy()
    if not b.alive:
        return a.copy()
    out = State()
    for k in list(a.locals) + [k_ for k_ in b.locals if k_ not in a.locals]:      # deterministic order (insertion order matters to readers of the state)
        va, vb = a.locals.get(k), b.locals.get(k)
        if va is not None and vb is not None and va == vb:
            out.locals[k] = va
        elif va is not None and vb is not None and cond is not None:
            out.locals[k] = ite_atom(cond, va, vb)
        else:
            _phi_counter[0] += 1
            out.locals[k] = Poly.atom(f"phi#{_phi_counter[0]}({k})")
    for k in list(a.slots) + [k_ for k_ in b.slots if k_ not in a.slots]:
        va, vb = a.slots.get(k), b.slots.get(k)
        if va is not None and vb is not None and va == vb:
            out.slots[k] = va
        elif va is not None and vb is not None and cond is not None and not k.startswith("<"):
            out.slots[k] = ite_atom(cond, va, vb)
        else:
            _phi_counter[0] += 1
            out.slots[k] = Poly.atom(f"phi#{_phi_counter[0]}({k})")
    # common prefix of the path conditions
    out.conds = [c for c in a.conds if c in b.conds]
    out.bools = {k: v for k, v in a.bools.items() if b.bools.get(k) == v}
    return out


class Forward:
    """on_stmt(stmt, fw) is invoked before each simple statement and on each
    branch test (with stmt = the If/While/For node)."""

    def __init__(self, an: Analysis, fa: FuncAnalysis, on_stmt: Optional[Callable] = None,
                 skip_if: Optional[Callable[[ast.If, "Forward"], bool]] = None,
                 track_slots: Optional[Callable[[str], bool]] = None,
                 call_effects: bool = True,
                 assume: Optional[Callable[[ast.If, "Forward"], Optional[bool]]] = None):
        self.an = an
        self.fa = fa
        self.on_stmt = on_stmt
        self.skip_if = skip_if
        self.track = track_slots or (lambda k: True)
        self.call_effects = call_effects
        self.assume = assume
        self.sym = Sym(fa.f, fa.cfg, fa.rd, inliner=an.inliner)
        self.sym.tuple_inliner = an.tuple_elements
        self.st = State()
        self.sym.eager = self.st.locals
        self.sym.state = self.st.slots
        self.returns: List[Tuple[ast.Return, Optional[Poly], State]] = []
        self.version = 0
        self.return_elts: Dict[int, List[Poly]] = {}
        self._depth = 0
        self._stack: List[str] = []
        self._inlined: Set[int] = set()
        self._loop_exits: List[Tuple[List[State], List[State]]] = []
        self.loop_iteration_end: Dict[int, State] = {}      # id(loop) -> state at the end of one iteration (all normal ends joined)
        self._call_elts: Dict[int, List[Poly]] = {}
        self.sym.suffix = self._suffix
        for p in fa.f.params:
            self.st.locals[p] = Poly.atom(p)

    # ------------------------------------------------------------- evaluation
    def _bind(self):
        self.sym.eager = self.st.locals
        self.sym.state = self.st.slots

    def ev(self, e: ast.AST) -> Poly:
        self._bind()
        return self.sym.ev(e, None)

    def canon(self, e: ast.AST) -> str:
        return self.ev(e).key()

    def cmp(self, e: ast.AST, neg: bool = False):
        self._bind()
        if isinstance(e, ast.Name) and e.id in self.st.bools:
            from .dataflow import cmp_negate
            c = self.st.bools[e.id]
            return cmp_negate(c) if neg else c
        if isinstance(e, ast.UnaryOp) and isinstance(e.op, ast.Not):
            return self.cmp(e.operand, not neg)
        if isinstance(e, ast.BoolOp) and any(isinstance(v, ast.Name) and v.id in self.st.bools for v in ast.walk(e)):
            from .dataflow import cmp_key
            kids = [self.cmp(v, neg) for v in e.values]
            op = "and" if isinstance(e.op, ast.And) else "or"
            if neg:
                op = "or" if op == "and" else "and"
            flat = []
            for k in kids:
                flat.extend(k[1] if k[0] == op else [k])
            return (op, sorted(flat, key=cmp_key))
        return self.sym.cmp(e, None, 0, neg)

    def slot_key(self, target: ast.AST) -> Optional[str]:
        self._bind()
        if isinstance(target, ast.Attribute):
            return f"{_paren(self.sym.canon(target.value, None))}.{target.attr}"
        if isinstance(target, ast.Subscript):
            return self.sym._subscript_key(target, None, 0)
        return None

    # ---------------------------------------------------------------- running
    def run(self, body: List[ast.stmt] = None):
        body = self.fa.f.body_without_docstring() if body is None else body
        self._block(body)
        return self

    def _block(self, stmts: List[ast.stmt]):
        for s in stmts:
            if not self.st.alive:
                break
            self._stmt(s)

    # ------------------------------------------------- helpers new to the reviewed inventory: evaluated in place
    def _inline_new_helpers(self, node: ast.AST):
        """Calls (in evaluation order, innermost first) to in-package functions that are NOT in the reviewed inventory and that
        write state are evaluated in place: the callee's body runs on this very state (slots shared, parameters bound to the
        argument values, the callee's `self` bound to the receiver), so extracting a block of a reviewed function into a new
        helper leaves every ledger / slot value the rules read unchanged. Pure new helpers are handled by the value-id inliner."""
        if node is None or self._depth >= 3:
            return
        f = self.fa.f
        calls = [c for c in ast.walk(node) if isinstance(c, ast.Call)]
        calls.sort(key=lambda c: (getattr(c, "end_lineno", 0), getattr(c, "end_col_offset", 0)))
        for c in calls:
            if id(c) in self._inlined:
                continue
            tgs, ext = self.an.res.resolve_call(c, f)
            if id(c) in self.an.res.byname or len(tgs) != 1:
                continue
            g = tgs[0]
            if not self.an.is_new_function(g) or g.qual in self._stack or g.is_property:
                continue
            if not any(e.kind in "WMD" for e in self.an.transitive_effects(g)):
                continue                      # pure: the value-id inliner sees through it
            if any(isinstance(n, (ast.Yield, ast.YieldFrom, ast.Await)) for n in ast.walk(g.node)) or any(isinstance(a, ast.Starred) for a in c.args) or any(k.arg is None for k in c.keywords):
                continue
            params = list(g.params)
            binding = {}
            if g.cls is not None and not g.is_static:
                if not isinstance(c.func, ast.Attribute):
                    continue
                binding[params[0]] = Poly.atom(self.canon(c.func.value))
                params = params[1:]
            if len(c.args) > len(params):
                continue
            ok = True
            for p_, a in zip(params, c.args):
                binding[p_] = self.ev(a)
            for k in c.keywords:
                if k.arg not in params or k.arg in binding:
                    ok = False
                    break
                binding[k.arg] = self.ev(k.value)
            for p_ in params:
                if p_ not in binding:
                    d = g.param_default(p_)
                    if d is None:
                        ok = False
                        break
                    binding[p_] = self.ev(d)
            if not ok:
                continue
            sub = Forward(self.an, self.an.fa(g), on_stmt=None, skip_if=self.skip_if, track_slots=self.track, call_effects=self.call_effects, assume=self.assume)
            sub._depth = self._depth + 1
            sub._stack = self._stack + [self.fa.f.qual]
            sub.version = self.version
            sub.sym.decide = self.sym.decide
            sub.st.locals = dict(binding)
            sub.st.slots = dict(self.st.slots)
            sub.st.conds = list(self.st.conds)
            sub.run()
            ends = [st for r, v, st in sub.returns] + ([sub.st] if sub.st.alive else [])
            if not ends:
                self.st.alive = False
                continue
            out = ends[0]
            for e_ in ends[1:]:
                out = join(out, e_)
            self.st.slots = dict(out.slots)
            self.version = max(self.version, sub.version) + 1
            vals = [v for r, v, st in sub.returns]
            if sub.st.alive or any(v is None for v in vals) or not vals:
                val = Poly.atom("None") if not vals else Poly.atom("phi(" + " | ".join(sorted({(v.key() if v is not None else "None") for v in vals} | ({"None"} if sub.st.alive else set()))) + ")")
            elif len({v.key() for v in vals}) == 1:
                val = vals[0]
            else:
                val = Poly.atom("phi(" + " | ".join(sorted({v.key() for v in vals})) + ")")
            if self.sym.__dict__.get("call_values") is None:
                self.sym.call_values = {}
            self.sym.call_values[id(c)] = val
            if len(sub.returns) == 1 and not sub.st.alive and id(sub.returns[0][0]) in sub.return_elts:
                self._call_elts[id(c)] = sub.return_elts[id(sub.returns[0][0])]       # a tuple result, element by element
            self._inlined.add(id(c))
            self._bind()

    def _pure_tuple(self, call: ast.Call, n: int):
        self._bind()
        return self.an.tuple_elements(self.sym, call, n, None, 0)

    def _invalidate_calls(self, node: ast.AST):
        """Calls to in-package functions invalidate the slots they may write."""
        if not self.call_effects:
            return
        f = self.fa.f
        for sub in ast.walk(node):
            if not isinstance(sub, ast.Call):
                continue
            if id(sub) in self._inlined:
                continue
            tgs, ext = self.an.res.resolve_call(sub, f)
            if id(sub) in self.an.res.byname:
                tgs = []
            written: Set[str] = set()
            for g in tgs:
                for e in self.an.transitive_effects(g):
                    if e.kind in "WMD":
                        written.add(e.attr)
            # mutating method call on a tracked slot:  x.attr.append(v)
            if isinstance(sub.func, ast.Attribute) and sub.func.attr in ("append", "appendleft", "extend", "pop", "popleft", "clear", "update", "sort", "remove", "insert"):
                k = self.slot_key(sub.func.value)
                if k is not None:
                    for sk in list(self.st.slots):
                        if sk == k or sk.startswith(k + "[") or sk.startswith(k + "."):
                            self.version += 1
                            self.st.slots[sk] = Poly.atom(f"{sk}@v{self.version}")
            if written:
                for sk in list(self.st.slots):
                    if any(("." + a) in sk for a in written):
                        self.version += 1
                        self.st.slots[sk] = Poly.atom(f"{sk}@v{self.version}")
                self.version += 1
                self._barrier(written)

    def _suffix(self, key: str) -> str:
        """Reads of state not tracked yet are versioned by the last call that
        may have written the attribute."""
        best = 0
        for k, v in self.st.slots.items():
            if k.startswith("<version:"):
                a = k[len("<version:"):-1]
                if ("." + a) in key:
                    c = v.const_value()
                    if c is not None:
                        best = max(best, int(c))
        return f"@v{best}" if best else ""

    def _barrier(self, written: Set[str]):
        """After a call that writes attributes, unseen reads of those attributes
        must not be equated with reads before the call: record versions."""
        for a in written:
            self.st.slots[f"<version:{a}>"] = Poly.const(self.version)

    def _store(self, target: ast.AST, val: Optional[Poly]):
        if isinstance(target, ast.Name):
            self.st.bools.pop(target.id, None)
            self.st.locals[target.id] = val if val is not None else Poly.atom(f"{target.id}@opaque{self.version}")
        elif isinstance(target, (ast.Attribute, ast.Subscript)):
            k = self.slot_key(target)
            if k is not None and self.track(k):
                self.version += 1
                self.st.slots[k] = val if val is not None else Poly.atom(f"{k}@opaque{self.version}")
                # a store to x.a invalidates x.a[...] entries and vice versa
                for sk in list(self.st.slots):
                    if sk != k and (sk.startswith(k + "[") or sk.startswith(k + ".")):
                        del self.st.slots[sk]
        elif isinstance(target, (ast.Tuple, ast.List)):
            for i, e in enumerate(target.elts):
                self._store(e, None if val is None else Poly.atom(f"({val.key()})[{i}]"))
        elif isinstance(target, ast.Starred):
            self._store(target.value, None)

    def _stmt(self, s: ast.stmt):
        if isinstance(s, (ast.Assign, ast.AnnAssign, ast.AugAssign, ast.Expr, ast.Return, ast.Raise, ast.Assert, ast.Delete, ast.Pass,
                          ast.Import, ast.ImportFrom, ast.Continue, ast.Break, ast.Global, ast.Nonlocal)):
            if self.on_stmt:
                self.on_stmt(s, self)
        if isinstance(s, (ast.Assign, ast.AnnAssign, ast.AugAssign, ast.Expr, ast.Return)):
            self._inline_new_helpers(getattr(s, "value", None))
        elif isinstance(s, (ast.If, ast.While)):
            self._inline_new_helpers(s.test)
        elif isinstance(s, ast.For):
            self._inline_new_helpers(s.iter)
        if isinstance(s, ast.Assign):
            if (len(s.targets) == 1 and isinstance(s.targets[0], (ast.Tuple, ast.List)) and isinstance(s.value, (ast.Tuple, ast.List))
                    and len(s.targets[0].elts) == len(s.value.elts) and not any(isinstance(e, ast.Starred) for e in s.targets[0].elts + s.value.elts)):
                vals = [self.ev(e) for e in s.value.elts]     # all evaluated before any store
                self._invalidate_calls(s.value)
                for t, v in zip(s.targets[0].elts, vals):
                    self._store(t, v)
            elif (len(s.targets) == 1 and isinstance(s.targets[0], (ast.Tuple, ast.List)) and isinstance(s.value, ast.Call) and id(s.value) not in self._call_elts
                  and not any(isinstance(e, ast.Starred) for e in s.targets[0].elts) and self._pure_tuple(s.value, len(s.targets[0].elts)) is not None):
                for t, v in zip(s.targets[0].elts, self._pure_tuple(s.value, len(s.targets[0].elts))):
                    self._store(t, v)
            elif (len(s.targets) == 1 and isinstance(s.targets[0], (ast.Tuple, ast.List)) and isinstance(s.value, ast.Call) and id(s.value) in self._call_elts
                  and len(self._call_elts[id(s.value)]) == len(s.targets[0].elts) and not any(isinstance(e, ast.Starred) for e in s.targets[0].elts)):
                for t, v in zip(s.targets[0].elts, self._call_elts[id(s.value)]):      # a, b = self._new_helper(...): the helper's tuple, element-wise
                    self._store(t, v)
            else:
                v = self.ev(s.value)
                cond_form = self.cmp(s.value) if isinstance(s.value, (ast.Compare, ast.BoolOp)) or (isinstance(s.value, ast.UnaryOp) and isinstance(s.value.op, ast.Not)) else None
                if cond_form is None and isinstance(s.value, ast.Name) and s.value.id in self.st.bools:
                    cond_form = self.st.bools[s.value.id]         # a copy of a boolean temporary
                self._invalidate_calls(s.value)
                for t in s.targets:
                    self._store(t, v)
                    if cond_form is not None and isinstance(t, ast.Name):
                        self.st.bools[t.id] = cond_form
        elif isinstance(s, ast.AnnAssign):
            if s.value is not None:
                v = self.ev(s.value)
                self._invalidate_calls(s.value)
                self._store(s.target, v)
        elif isinstance(s, ast.AugAssign):
            cur = self.ev(s.target if not isinstance(s.target, ast.Name) else ast.Name(id=s.target.id, ctx=ast.Load()))
            rhs = self.ev(s.value)
            self._invalidate_calls(s.value)
            self._bind()
            v = self.sym._binop(s.op, cur, rhs)
            self._store(s.target, v)
        elif isinstance(s, ast.Expr):
            self._invalidate_calls(s.value)
        elif isinstance(s, ast.Return):
            v = self.ev(s.value) if s.value is not None else None
            if isinstance(s.value, ast.Tuple) and not any(isinstance(x, ast.Starred) for x in s.value.elts):
                self.return_elts[id(s)] = [self.ev(x) for x in s.value.elts]
            self.returns.append((s, v, self.st.copy()))
            self.st.alive = False
        elif isinstance(s, ast.Continue):
            if self._loop_exits:
                self._loop_exits[-1][0].append(self.st.copy())      # this iteration ends here: its state joins the other ends of the body
            self.st.alive = False
        elif isinstance(s, ast.Break):
            if self._loop_exits:
                self._loop_exits[-1][1].append(self.st.copy())
            self.st.alive = False
        elif isinstance(s, ast.Raise):
            self.st.alive = False
        elif isinstance(s, ast.If):
            if self.on_stmt:
                self.on_stmt(s, self)
            if self.skip_if is not None and self.skip_if(s, self):
                return
            if self.assume is not None:
                forced = self.assume(s, self)
                if forced is not None:
                    self._invalidate_calls(s.test)
                    self.st.conds.append(self.cmp(s.test, neg=not forced))
                    self._block(s.body if forced else s.orelse)
                    return
            self._invalidate_calls(s.test)
            c_t = self.cmp(s.test)
            c_f = self.cmp(s.test, neg=True)
            if c_t[0] == "truthy" and c_t[1] == "True":
                # a test whose truth is read off the value ids (`None is None`, `(a, b) is None`): only the live arm is run
                self._block(s.body if c_t[2] else s.orelse)
                return
            before = self.st
            st_t = before.copy()
            st_t.conds.append(c_t)
            self.st = st_t
            self._block(s.body)
            after_t = self.st
            st_f = before.copy()
            st_f.conds.append(c_f)
            self.st = st_f
            self._block(s.orelse)
            after_f = self.st
            self.st = join(after_t, after_f, c_t)
            if not after_t.alive and not after_f.alive:
                self.st.alive = False
            elif not after_t.alive:
                self.st.conds = list(after_f.conds)
            elif not after_f.alive:
                self.st.conds = list(after_t.conds)
        elif isinstance(s, (ast.For, ast.While)):
            if self.on_stmt:
                self.on_stmt(s, self)
            before = self.st
            body_st = before.copy()
            self.st = body_st
            if isinstance(s, ast.For):
                it = self.ev(s.iter)
                self._invalidate_calls(s.iter)
                self._bind_loop_target(s.target, it)
            self._loop_exits.append(([], []))
            self._block(s.body)
            conts, breaks = self._loop_exits.pop()
            ends = ([self.st] if self.st.alive else []) + conts       # every way one iteration can end normally (fall-through or `continue`)
            if ends:
                it_end = ends[0]
                for e_ in ends[1:]:
                    it_end = join(it_end, e_)
                self.loop_iteration_end[id(s)] = it_end.copy()
            else:
                it_end = None
            after = it_end if it_end is not None else self.st
            for b_ in breaks:
                after = join(after, b_) if after.alive else b_
            after = after.copy()
            after.alive = True   # continue/break/fallthrough all leave the loop eventually
            self.st = join(before, after)
            self._block(s.orelse)
        elif isinstance(s, ast.With):
            if self.on_stmt:
                self.on_stmt(s, self)
            for it in s.items:
                v = self.ev(it.context_expr)
                self._invalidate_calls(it.context_expr)
                if it.optional_vars is not None:
                    self._store(it.optional_vars, v)
            self._block(s.body)
        elif isinstance(s, ast.Try):
            before = self.st.copy()
            self._block(s.body)
            body_end = self.st
            self.st = body_end
            self._block(s.orelse)
            ends = [self.st]
            for h in s.handlers:
                # the exception may have occurred anywhere in the body
                self.st = join(before, body_end)
                self.st.alive = True
                if h.name:
                    self.st.locals[h.name] = Poly.atom(h.name)
                self._block(h.body)
                ends.append(self.st)
            out = ends[0]
            for e in ends[1:]:
                out = join(out, e)
            out.alive = any(e.alive for e in ends)
            self.st = out
            self._block(s.finalbody)
        elif isinstance(s, (ast.FunctionDef, ast.ClassDef)):
            self.st.locals[s.name] = Poly.atom(s.name)

    def _bind_loop_target(self, target, it: Poly):
        from .dataflow import target_path, item_atom
        if isinstance(target, ast.Name):
            self.st.locals[target.id] = Poly.atom(f"item∈{it.key()}")
        elif isinstance(target, (ast.Tuple, ast.List)):
            for x in ast.walk(target):
                if isinstance(x, ast.Name):
                    self.st.locals[x.id] = Poly.atom(item_atom(it.key(), target_path(target, x.id)))


def attribute_summary(an: Analysis, ctor: FuncInfo) -> Dict[str, Poly]:
    """self.<attr> -> polynomial over constructor parameters, for a
    straight-line constructor (used for Trade / EventNBBO / LimitOrderBook)."""
    fa = an.fa(ctor)
    fw = Forward(an, fa, call_effects=False).run()
    selfname = ctor.params[0]
    out = {}
    for k, v in fw.st.slots.items():
        if k.startswith(selfname + ".") and "[" not in k:
            out[k[len(selfname) + 1:]] = v
    return out
