"""Behaviour-preserving rewrites of the functions a property's rules consult,
used to measure (and remove) brittleness: every variant produced here computes
exactly what the original computes, so a check that reports one of them raised
a false alarm.

Rewrites (one site each):
  IDENTITY       the function re-rendered by ast.unparse (formatting, comments, line numbers)
  RENAME-LOCAL   one local variable renamed consistently
  FLIP-CMP       a < b  ->  b > a ;  a == b -> b == a  (call-free operands only)
  IF-INVERT      if c: A else: B  ->  if not c: B else: A
  AUG-EXPAND     x op= e  ->  x = x op e   (call-free targets)
  PASS-INSERT    a `pass` inserted as the first statement (shifts every line / index)
  TEMP-RETURN    return e  ->  _rv = e; return _rv
  IFEXP-TO-STMT  x = a if c else b  ->  if c: x = a else: x = b
  HOIST-ARG      x = f(expr, ...)   ->  _a = expr; x = f(_a, ...)      (first positional argument, evaluated first anyway)
  SWAP-INDEP     two adjacent call-free assignments to different locals that do not mention each other, swapped
  ELSE-DROP      if c: ...return  else: B   ->  if c: ...return ; B
  ELSE-ADD       if c: ...return ; B        ->  if c: ...return  else: B
  CHAIN-SPLIT    a <= t <= b  ->  a <= t and t <= b      (call-free t)
  MSG-EDIT       the text of a raised message changed
  CTOR-LITERAL   list() -> [] , dict() -> {}
  ADD-UNUSED     an unused local assigned first;  ADD-ASSERT  a vacuous assert first;  ADD-PARAM  a trailing keyword parameter nobody passes
  ADD-METHOD     an unrelated sibling method / function added next to the function
  EXTRACT        a run of 1-3 simple statements moved into a new sibling helper (method or function) that receives the locals it
                 reads and returns the locals it defines

Purely static: variants are source files in a temp dir outside /repo and /verif,
analysed by the same engine, then deleted."""
from __future__ import annotations
import ast
import copy
import os
import shutil
import sys
import tempfile
from concurrent.futures import ProcessPoolExecutor
from typing import Dict, List, Tuple

VERIF = os.path.dirname(os.path.dirname(os.path.abspath(__file__)))
REPO = os.environ.get("VERIF_REPO", "/repo")
sys.path.insert(0, VERIF)
from sa.mutate import _find, _render   # noqa: E402

MIRROR = {ast.Lt: ast.Gt, ast.Gt: ast.Lt, ast.LtE: ast.GtE, ast.GtE: ast.LtE, ast.Eq: ast.Eq, ast.NotEq: ast.NotEq}


def _call_free(e) -> bool:
    return not any(isinstance(n, (ast.Call, ast.Await, ast.Yield, ast.YieldFrom, ast.NamedExpr)) for n in ast.walk(e))


def _own_nodes(fn):
    """Nodes of fn excluding nested function / class bodies (lambdas and comprehensions included)."""
    out = []

    def rec(n, top):
        if not top and isinstance(n, (ast.FunctionDef, ast.AsyncFunctionDef, ast.ClassDef)):
            return
        out.append(n)
        for c in ast.iter_child_nodes(n):
            rec(c, False)
    rec(fn, True)
    return out


def equivalents_of(fn: ast.FunctionDef) -> List[Tuple[str, ast.FunctionDef]]:
    out = [("IDENTITY", copy.deepcopy(fn))]
    nodes = _own_nodes(fn)
    index = {id(n): i for i, n in enumerate(nodes)}

    def variant(desc, i, edit):
        new = copy.deepcopy(fn)
        nn = _own_nodes(new)
        try:
            edit(new, nn[i])
        except Exception:
            return
        ast.fix_missing_locations(new)
        out.append((desc, new))

    # --- RENAME-LOCAL
    a = fn.args
    params = {x.arg for x in a.posonlyargs + a.args + a.kwonlyargs} | ({a.vararg.arg} if a.vararg else set()) | ({a.kwarg.arg} if a.kwarg else set())
    every = list(ast.walk(fn))
    all_names = {n.id for n in every if isinstance(n, ast.Name)} | {x.arg for n in every if isinstance(n, ast.arguments) for x in n.args + n.kwonlyargs + n.posonlyargs}
    nested_params = {x.arg for n in every if isinstance(n, (ast.Lambda, ast.FunctionDef)) and n is not fn for x in n.args.args + n.args.kwonlyargs + n.args.posonlyargs}
    declared = {nm for n in every if isinstance(n, (ast.Global, ast.Nonlocal)) for nm in n.names}
    has_nested_def = any(isinstance(n, (ast.FunctionDef, ast.ClassDef)) and n is not fn for n in every)
    stored = sorted({n.id for n in nodes if isinstance(n, ast.Name) and isinstance(n.ctx, ast.Store)} |
                    {n.name for n in nodes if isinstance(n, ast.ExceptHandler) and n.name})
    for v in stored:
        if v in params or v in nested_params or v in declared or has_nested_def or v.startswith("__"):
            continue
        nv = v + "_r"
        while nv in all_names:
            nv += "_"

        def ren(new, _n, v=v, nv=nv):
            for n in ast.walk(new):
                if isinstance(n, ast.Name) and n.id == v:
                    n.id = nv
                elif isinstance(n, ast.ExceptHandler) and n.name == v:
                    n.name = nv
        variant(f"RENAME-LOCAL {v}->{nv}", 0, ren)
    # --- site rewrites
    for n in nodes:
        i = index[id(n)]
        ln = getattr(n, "lineno", 0)
        if isinstance(n, ast.Compare) and len(n.ops) == 1 and type(n.ops[0]) in MIRROR and _call_free(n.left) and _call_free(n.comparators[0]):
            def flip(new, t):
                t.left, t.comparators[0] = t.comparators[0], t.left
                t.ops = [MIRROR[type(t.ops[0])]()]
            variant(f"L{ln} FLIP-CMP {ast.unparse(n)[:50]}", i, flip)
        if isinstance(n, ast.If) and n.orelse:
            def inv(new, t):
                t.test = t.test.operand if isinstance(t.test, ast.UnaryOp) and isinstance(t.test.op, ast.Not) else ast.UnaryOp(op=ast.Not(), operand=t.test)
                t.body, t.orelse = t.orelse, t.body
            variant(f"L{ln} IF-INVERT {ast.unparse(n.test)[:50]}", i, inv)
        if isinstance(n, ast.AugAssign) and _call_free(n.target):
            def aug(new, t):
                load = copy.deepcopy(t.target)
                for x in ast.walk(load):
                    if hasattr(x, "ctx") and isinstance(x.ctx, ast.Store):
                        x.ctx = ast.Load()
                repl = ast.Assign(targets=[t.target], value=ast.BinOp(left=load, op=t.op, right=t.value), lineno=t.lineno, col_offset=t.col_offset)
                _replace_stmt(new, t, [repl])
            variant(f"L{ln} AUG-EXPAND {ast.unparse(n)[:50]}", i, aug)
        if isinstance(n, ast.Return) and n.value is not None and not isinstance(n.value, (ast.Name, ast.Constant)):
            def tmp(new, t):
                nm = "_rv"
                while nm in all_names:
                    nm += "_"
                st = ast.Assign(targets=[ast.Name(id=nm, ctx=ast.Store())], value=t.value, lineno=t.lineno, col_offset=t.col_offset)
                _replace_stmt(new, t, [st, ast.Return(value=ast.Name(id=nm, ctx=ast.Load()))])
            variant(f"L{ln} TEMP-RETURN {ast.unparse(n)[:50]}", i, tmp)
        if isinstance(n, ast.Assign) and isinstance(n.value, ast.IfExp) and len(n.targets) == 1 and _call_free(n.targets[0]):
            def ife(new, t):
                a_ = ast.Assign(targets=[copy.deepcopy(t.targets[0])], value=t.value.body, lineno=t.lineno, col_offset=t.col_offset)
                b_ = ast.Assign(targets=[copy.deepcopy(t.targets[0])], value=t.value.orelse, lineno=t.lineno, col_offset=t.col_offset)
                _replace_stmt(new, t, [ast.If(test=t.value.test, body=[a_], orelse=[b_])])
            variant(f"L{ln} IFEXP-TO-STMT {ast.unparse(n)[:50]}", i, ife)

    # --- more site rewrites
    def _leaves(st):
        return isinstance(st, (ast.Return, ast.Raise, ast.Continue, ast.Break))
    for n in nodes:
        i = index[id(n)]
        ln = getattr(n, "lineno", 0)
        if isinstance(n, (ast.Assign, ast.Expr, ast.Return)) and isinstance(getattr(n, "value", None), ast.Call):
            c = n.value
            if c.args and not isinstance(c.args[0], (ast.Name, ast.Constant, ast.Starred)) and isinstance(c.func, (ast.Name, ast.Attribute)) and _call_free(c.func) \
                    and not any(isinstance(x, (ast.Lambda, ast.ListComp, ast.SetComp, ast.DictComp, ast.GeneratorExp, ast.NamedExpr, ast.Await, ast.Yield)) for x in ast.walk(c.args[0])):
                def hoist(new, t):
                    nm = "_a0"
                    while nm in all_names:
                        nm += "_"
                    arg = t.value.args[0]
                    t.value.args[0] = ast.Name(id=nm, ctx=ast.Load())
                    _replace_stmt(new, t, [ast.Assign(targets=[ast.Name(id=nm, ctx=ast.Store())], value=arg, lineno=t.lineno, col_offset=t.col_offset), t])
                variant(f"L{ln} HOIST-ARG {ast.unparse(n)[:50]}", i, hoist)
        if isinstance(n, ast.If) and n.orelse and n.body and _leaves(n.body[-1]) and not (len(n.orelse) == 1 and isinstance(n.orelse[0], ast.If)):
            def drop(new, t):
                tail = t.orelse
                t.orelse = []
                _replace_stmt(new, t, [t] + tail)
            variant(f"L{ln} ELSE-DROP {ast.unparse(n.test)[:50]}", i, drop)
        if isinstance(n, ast.Compare) and len(n.ops) == 2 and _call_free(n.comparators[0]):
            def split(new, t):
                import copy as _c
                a = ast.Compare(left=t.left, ops=[t.ops[0]], comparators=[t.comparators[0]])
                b = ast.Compare(left=_c.deepcopy(t.comparators[0]), ops=[t.ops[1]], comparators=[t.comparators[1]])
                repl = ast.BoolOp(op=ast.And(), values=[a, b])
                for p_ in ast.walk(new):
                    for f_, v_ in ast.iter_fields(p_):
                        if v_ is t:
                            setattr(p_, f_, repl)
                            return
                        if isinstance(v_, list) and any(x is t for x in v_):
                            v_[[k for k, x in enumerate(v_) if x is t][0]] = repl
                            return
                raise LookupError
            variant(f"L{ln} CHAIN-SPLIT {ast.unparse(n)[:50]}", i, split)
        if isinstance(n, ast.Raise) and n.exc is not None:
            strs = [x for x in ast.walk(n.exc) if isinstance(x, ast.Constant) and isinstance(x.value, str)]
            if strs:
                def msg(new, t):
                    for x in ast.walk(t.exc):
                        if isinstance(x, ast.Constant) and isinstance(x.value, str):
                            x.value = x.value + " (reworded)"
                            return
                variant(f"L{ln} MSG-EDIT", i, msg)
        if isinstance(n, ast.Call) and isinstance(n.func, ast.Name) and n.func.id in ("list", "dict") and not n.args and not n.keywords:
            def lit(new, t):
                repl = ast.List(elts=[], ctx=ast.Load()) if t.func.id == "list" else ast.Dict(keys=[], values=[])
                for p_ in ast.walk(new):
                    for f_, v_ in ast.iter_fields(p_):
                        if v_ is t:
                            setattr(p_, f_, repl)
                            return
                        if isinstance(v_, list) and any(x is t for x in v_):
                            v_[[k for k, x in enumerate(v_) if x is t][0]] = repl
                            return
                raise LookupError
            variant(f"L{ln} CTOR-LITERAL {ast.unparse(n)}", i, lit)
    # blocks: ELSE-ADD and SWAP-INDEP
    blocks = []
    for n in nodes:
        for field in ("body", "orelse", "finalbody"):
            blk = getattr(n, field, None)
            if isinstance(blk, list) and blk and isinstance(blk[0], ast.stmt):
                blocks.append((n, field, blk))
    for owner, field, blk in blocks:
        for k, st in enumerate(blk):
            if isinstance(st, ast.If) and not st.orelse and st.body and _leaves(st.body[-1]) and k + 1 < len(blk):
                def add(new, t, field=field, owner_i=index[id(owner)]):
                    nn = _own_nodes(new)
                    b = getattr(nn[owner_i], field)
                    pos = [j for j, x in enumerate(b) if x is t][0]
                    t.orelse = b[pos + 1:]
                    del b[pos + 1:]
                variant(f"L{st.lineno} ELSE-ADD {ast.unparse(st.test)[:50]}", index[id(st)], add)
            if k + 1 < len(blk):
                a, b2 = st, blk[k + 1]
                if all(isinstance(x, ast.Assign) and len(x.targets) == 1 and isinstance(x.targets[0], ast.Name) and _call_free(x.value) and not any(isinstance(y, ast.Subscript) for y in ast.walk(x.value)) for x in (a, b2)):
                    na, nb = a.targets[0].id, b2.targets[0].id
                    used_a = {y.id for y in ast.walk(a.value) if isinstance(y, ast.Name)}
                    used_b = {y.id for y in ast.walk(b2.value) if isinstance(y, ast.Name)}
                    if na != nb and na not in used_b and nb not in used_a:
                        def swp(new, t, field=field, owner_i=index[id(owner)]):
                            nn = _own_nodes(new)
                            b = getattr(nn[owner_i], field)
                            pos = [j for j, x in enumerate(b) if x is t][0]
                            b[pos], b[pos + 1] = b[pos + 1], b[pos]
                        variant(f"L{a.lineno} SWAP-INDEP {ast.unparse(a)[:30]} <-> {ast.unparse(b2)[:30]}", index[id(a)], swp)

    # --- EXTRACT: statements moved into a new helper
    is_method = bool(fn.args.args) and fn.args.args[0].arg in ("self", "cls") and not any(ast.unparse(d) in ("staticmethod",) for d in fn.decorator_list)
    selfname = fn.args.args[0].arg if is_method else None
    local_names = set(params) | set(stored)
    xn = [0]
    for owner, field, blk in blocks:
        if any(isinstance(p_, (ast.For, ast.While)) for p_ in [owner]) and False:
            continue
        for k in range(len(blk)):
            for ln_ in (1, 2, 3):
                run = blk[k:k + ln_]
                if len(run) != ln_:
                    continue
                if not all(isinstance(st, (ast.Assign, ast.AugAssign, ast.Expr, ast.If)) for st in run):
                    continue
                inner = [x for st in run for x in ast.walk(st)]
                if any(isinstance(x, (ast.Return, ast.Break, ast.Continue, ast.Yield, ast.YieldFrom, ast.Await, ast.Lambda, ast.Global, ast.Nonlocal, ast.NamedExpr, ast.Delete, ast.Try, ast.With,
                                      ast.FunctionDef, ast.ClassDef, ast.Starred)) for x in inner):
                    continue
                if any(isinstance(st, ast.Expr) and isinstance(st.value, ast.Constant) for st in run):
                    continue
                if any(isinstance(x, ast.Call) and isinstance(x.func, ast.Name) and x.func.id in ("super", "locals", "vars") for x in inner):
                    continue
                stores_in = [x.id for x in inner if isinstance(x, ast.Name) and isinstance(x.ctx, ast.Store)]
                comp_bound = {n_.id for x in inner if isinstance(x, ast.comprehension) for n_ in ast.walk(x.target) if isinstance(n_, ast.Name)}
                aug_reads = {id(x.target) for x in inner if isinstance(x, ast.AugAssign) and isinstance(x.target, ast.Name)}     # `v += e` reads v
                loads_in = [x.id for x in inner if isinstance(x, ast.Name) and (isinstance(x.ctx, ast.Load) or id(x) in aug_reads) and x.id in local_names and x.id not in comp_bound]
                inner_ids = {id(x) for x in inner}
                used_outside = {x.id for x in nodes if isinstance(x, ast.Name) and isinstance(x.ctx, ast.Load) and id(x) not in inner_ids}
                outs = [n_ for n_ in dict.fromkeys(stores_in) if n_ in used_outside and n_ not in comp_bound]
                if len(outs) > 1:
                    continue
                # outputs must be bound on every path through the run: assigned by a top-level statement of the run, or passed in
                top_assigned = {t.id for st in run if isinstance(st, ast.Assign) for t in st.targets if isinstance(t, ast.Name)} | {st.target.id for st in run if isinstance(st, ast.AugAssign) and isinstance(st.target, ast.Name)}
                ins = [n_ for n_ in dict.fromkeys(loads_in) if n_ != selfname]
                # names read before being assigned inside the run must be inputs; names only assigned need not be
                if any(o not in top_assigned and o not in ins for o in outs):
                    continue
                if any(n_ in stores_in and n_ not in outs and n_ in used_outside for n_ in ins):
                    continue
                if ln_ == 1 and isinstance(run[0], ast.Expr) and not outs and not any(isinstance(x, (ast.Attribute, ast.Subscript)) and isinstance(x.ctx, ast.Store) for x in inner) and isinstance(run[0].value, ast.Call) and False:
                    continue
                xn[0] += 1
                if xn[0] > 14:
                    break
                hname = f"_extracted_{xn[0]}"

                def extract(new, t, field=field, owner_i=index[id(owner)], k=k, ln_=ln_, ins=ins, outs=outs, hname=hname):
                    nn = _own_nodes(new)
                    b = getattr(nn[owner_i], field)
                    moved = b[k:k + ln_]
                    body = list(moved)
                    if outs:
                        body.append(ast.Return(value=ast.Name(id=outs[0], ctx=ast.Load())))
                    argnames = ([selfname] if is_method else []) + ins
                    helper = ast.FunctionDef(name=hname, args=ast.arguments(posonlyargs=[], args=[ast.arg(arg=a_) for a_ in argnames], kwonlyargs=[], kw_defaults=[], defaults=[]),
                                             body=body, decorator_list=[], returns=None, type_comment=None, type_params=[])
                    callee = ast.Attribute(value=ast.Name(id=selfname, ctx=ast.Load()), attr=hname, ctx=ast.Load()) if is_method else ast.Name(id=hname, ctx=ast.Load())
                    owner_cls = getattr(fn, "_owner_class", None)
                    if not is_method and owner_cls:
                        # a static method: the helper is a static method of the same class, called through the class
                        helper.decorator_list = [ast.Name(id="staticmethod", ctx=ast.Load())]
                        callee = ast.Attribute(value=ast.Name(id=owner_cls, ctx=ast.Load()), attr=hname, ctx=ast.Load())
                    call = ast.Call(func=callee, args=[ast.Name(id=a_, ctx=ast.Load()) for a_ in ins], keywords=[])
                    repl = ast.Assign(targets=[ast.Name(id=outs[0], ctx=ast.Store())], value=call, lineno=moved[0].lineno, col_offset=0) if outs else ast.Expr(value=call)
                    b[k:k + ln_] = [repl]
                    new._extracted_helper = helper
                before = len(out)
                variant(f"L{run[0].lineno} EXTRACT {ln_} stmt(s) -> {hname}({', '.join(ins)}){' -> ' + outs[0] if outs else ''}", 0, extract)
                if len(out) > before:
                    desc_, new_ = out[-1]
                    helper = getattr(new_, "_extracted_helper", None)
                    if helper is None:
                        out.pop()
                    else:
                        wrapper = ast.Module(body=[new_, helper], type_ignores=[])
                        ast.fix_missing_locations(wrapper)
                        out[-1] = (desc_, wrapper)

    def _k0(new):
        return 1 if new.body and isinstance(new.body[0], ast.Expr) and isinstance(new.body[0].value, ast.Constant) and isinstance(new.body[0].value.value, str) else 0

    def add_unused(new, _t):
        new.body.insert(_k0(new), ast.Assign(targets=[ast.Name(id="_unused_probe", ctx=ast.Store())], value=ast.Constant(value=0), lineno=new.lineno, col_offset=0))
    variant("ADD-UNUSED", 0, add_unused)

    def add_assert(new, _t):
        new.body.insert(_k0(new), ast.Assert(test=ast.Constant(value=True), msg=None))
    variant("ADD-ASSERT", 0, add_assert)
    if not fn.args.kwarg:
        def add_param(new, _t):
            new.args.kwonlyargs.append(ast.arg(arg="_probe_option", annotation=None))
            new.args.kw_defaults.append(ast.Constant(value=None))
        variant("ADD-PARAM", 0, add_param)
    probe = ast.parse("def _verif_probe(self=None):\n    return None\n").body[0]
    wrapper = ast.Module(body=[copy.deepcopy(fn), probe], type_ignores=[])
    ast.fix_missing_locations(wrapper)
    out.append(("ADD-METHOD", wrapper))

    def ins(new, _t):
        k = 1 if new.body and isinstance(new.body[0], ast.Expr) and isinstance(new.body[0].value, ast.Constant) and isinstance(new.body[0].value.value, str) else 0
        new.body.insert(k, ast.Pass())
    variant("PASS-INSERT", 0, ins)
    return out


def _replace_stmt(root, old, new_list):
    for p in ast.walk(root):
        for field in ("body", "orelse", "finalbody"):
            blk = getattr(p, field, None)
            if isinstance(blk, list):
                for k, s in enumerate(blk):
                    if s is old:
                        blk[k:k + 1] = new_list
                        return
    raise LookupError("statement not found")


def _run(job):
    prop, rel, new_src, desc = job
    tmp = tempfile.mkdtemp(prefix="verif-eqv-")
    try:
        shutil.copytree(os.path.join(REPO, "tradingenv"), os.path.join(tmp, "tradingenv"), ignore=shutil.ignore_patterns("__pycache__", "*.pyc"))
        with open(os.path.join(tmp, rel), "w", newline="") as f:
            f.write(new_src)
        try:
            ast.parse(new_src)
        except SyntaxError:
            return (desc, "invalid", "")
        from sa.cli import evaluate
        from sa.model import AnalysisError
        try:
            ck, mod, an, viol, kn = evaluate(prop, tmp, "quick")
            if viol:
                return (desc, "reported", f"{viol[0].rule}:{viol[0].name} {viol[0].subject}: {viol[0].detail[:160]}")
            return (desc, "silent", "")
        except AnalysisError as e:
            return (desc, "analysis-error", str(e)[:200])
        except Exception as e:
            return (desc, "analysis-error", f"internal:{type(e).__name__}:{e}"[:200])
    finally:
        shutil.rmtree(tmp, ignore_errors=True)


def root_functions(prop: str, everything: bool = False) -> List[Tuple[str, str]]:
    """[(relpath, Class.method | function)] the property's rules asked for by name on the current tree (or every function of the package)."""
    from sa.cli import evaluate
    ck, mod, an, viol, kn = evaluate(prop, None, "quick")
    out = []
    for q in sorted(an.prog.functions if everything else an.scope()[0]):
        f = an.prog.functions.get(q)
        if f is None or f.outer is not None or f.module.name.startswith("_fixture"):
            continue
        out.append((f.module.relpath, f.short))
    return out


def sweep(prop: str, jobs: int = 16, everything: bool = False) -> Dict:
    work = []
    per_fn = {}
    for rel, qual in root_functions(prop, everything):
        with open(os.path.join(REPO, rel), "r", newline="") as f:
            src = f.read().replace("\r\n", "\n")
        fn = _find(ast.parse(src), qual)
        if fn is None:
            continue
        fn._owner_class = qual.rsplit(".", 1)[0] if "." in qual else None
        vs = equivalents_of(fn)
        per_fn[f"{rel}:{qual}"] = len(vs)
        for desc, new in vs:
            work.append((prop, rel, _render(src, fn, new), f"{qual} {desc}"))
    with ProcessPoolExecutor(max_workers=jobs) as ex:
        res = list(ex.map(_run, work, chunksize=4))
    bad = [r for r in res if r[1] in ("reported", "analysis-error")]
    return {"property": prop, "functions": per_fn, "generated": len(res), "silent": sum(1 for r in res if r[1] == "silent"), "false_alarms": [list(r) for r in bad]}


if __name__ == "__main__":
    everything = "--all" in sys.argv
    for p in [a for a in sys.argv[1:] if not a.startswith("--")]:
        r = sweep(p, everything=everything)
        print(f"== {p}: {r['generated']} behaviour-preserving variants of {len(r['functions'])} functions, silent {r['silent']}, FALSE ALARMS {len(r['false_alarms'])}")
        for d, k, w in r["false_alarms"]:
            print(f"   {k.upper()} {d}\n        {w}")
