"""Statement-level control-flow graph with dominators, post-dominators and
an acyclic path-count DP. Supports exactly the statement kinds the analysed
package uses; anything else raises AnalysisError (fail closed)."""
from __future__ import annotations
import ast
from typing import Dict, List, Optional, Set, Tuple, Callable, Iterable
from .model import AnalysisError


class Node:
    __slots__ = ("id", "kind", "ast", "stmt", "label")

    def __init__(self, id: int, kind: str, node: Optional[ast.AST], stmt: Optional[ast.stmt], label: str = ""):
        self.id = id
        self.kind = kind      # entry exit rexit stmt test iter with handler
        self.ast = node
        self.stmt = stmt
        self.label = label

    @property
    def lineno(self) -> int:
        return getattr(self.ast, "lineno", getattr(self.stmt, "lineno", 0))

    def __repr__(self):
        if self.ast is None:
            return f"<{self.kind}>"
        try:
            txt = ast.unparse(self.ast).split("\n")[0][:60]
        except Exception:
            txt = "?"
        return f"<{self.kind}@{self.lineno} {txt}>"


SIMPLE = (ast.Assign, ast.AugAssign, ast.AnnAssign, ast.Expr, ast.Pass, ast.Assert,
          ast.Import, ast.ImportFrom, ast.Delete, ast.Global, ast.Nonlocal)


class CFG:
    def __init__(self, fn: ast.FunctionDef):
        self.fn = fn
        self.nodes: List[Node] = []
        self.succ: Dict[int, List[Tuple[int, str]]] = {}
        self.pred: Dict[int, List[Tuple[int, str]]] = {}
        self.entry = self._new("entry", None, None)
        self.exit = self._new("exit", None, None)
        self.rexit = self._new("rexit", None, None)
        self._owner: Dict[int, int] = {}     # id(ast node) -> cfg node id
        self._loops: List[Tuple[int, List[int]]] = []   # (continue target, break ends)
        self._trys: List[dict] = []
        ends = self._block(fn.body, [(self.entry.id, "")])
        for e, lab in ends:
            self._edge(e, self.exit.id, lab)
        self._dom = None
        self._pdom = None

    # ------------------------------------------------------------------ build
    def _new(self, kind, node, stmt, label="") -> Node:
        n = Node(len(self.nodes), kind, node, stmt, label)
        self.nodes.append(n)
        self.succ[n.id] = []
        self.pred[n.id] = []
        return n

    def _edge(self, a: int, b: int, label: str = ""):
        if (b, label) not in self.succ[a]:
            self.succ[a].append((b, label))
            self.pred[b].append((a, label))

    def _own(self, expr: ast.AST, nid: int):
        for sub in ast.walk(expr):
            self._owner[id(sub)] = nid

    def _connect(self, preds, nid):
        for p, lab in preds:
            self._edge(p, nid, lab)

    def _raise_targets(self, exc_name: Optional[str]) -> List[int]:
        """Where does an exception raised here go? Innermost try first."""
        targets = []
        for t in reversed(self._trys):
            if t.get("in_handler"):
                # raising inside a handler/else/finally of this try: skip its handlers
                if t.get("finally_entry") is not None and not t.get("in_finally"):
                    targets.append(t["finally_entry"])
                    return targets
                continue
            caught_all = False
            for h_entry, h_types in t["handlers"]:
                if exc_name is None or h_types is None or _may_match(exc_name, h_types):
                    targets.append(h_entry)
                if h_types is None or (exc_name is not None and exc_name in h_types) or ("Exception" in (h_types or []) or "BaseException" in (h_types or [])):
                    if exc_name is None and h_types is not None and not ({"Exception", "BaseException"} & set(h_types)):
                        continue
                    caught_all = True
                    break
            if caught_all:
                return targets
            if t.get("finally_entry") is not None:
                targets.append(t["finally_entry"])
                return targets
        targets.append(self.rexit.id)
        return targets

    def _block(self, stmts: List[ast.stmt], preds: List[Tuple[int, str]]) -> List[Tuple[int, str]]:
        for s in stmts:
            preds = self._stmt(s, preds)
        return preds

    def _implicit_exc_edges(self, nid: int):
        """Inside a try body any statement may raise to any handler."""
        for t in reversed(self._trys):
            if t.get("in_handler"):
                continue
            for h_entry, _ in t["handlers"]:
                self._edge(nid, h_entry, "exc")
            if t.get("finally_entry") is not None:
                self._edge(nid, t["finally_entry"], "exc")
            break

    def _stmt(self, s: ast.stmt, preds):
        if isinstance(s, (ast.FunctionDef, ast.ClassDef)):
            n = self._new("stmt", s, s, "def")
            self._connect(preds, n.id)
            return [(n.id, "")]
        if isinstance(s, SIMPLE):
            n = self._new("stmt", s, s)
            self._own(s, n.id)
            self._connect(preds, n.id)
            self._implicit_exc_edges(n.id)
            return [(n.id, "")]
        if isinstance(s, ast.Return):
            n = self._new("stmt", s, s, "return")
            self._own(s, n.id)
            self._connect(preds, n.id)
            self._implicit_exc_edges(n.id)
            # return passes through enclosing finally blocks
            tgt = self.exit.id
            for t in reversed(self._trys):
                if t.get("finally_entry") is not None and not t.get("in_finally"):
                    tgt = t["finally_entry"]
                    t["finally_to_exit"] = True
                    break
            self._edge(n.id, tgt, "return")
            return []
        if isinstance(s, ast.Raise):
            n = self._new("stmt", s, s, "raise")
            self._own(s, n.id)
            self._connect(preds, n.id)
            name = _exc_name(s.exc)
            for tgt in self._raise_targets(name):
                self._edge(n.id, tgt, "raise")
                for t in self._trys:
                    if t.get("finally_entry") == tgt:
                        t["finally_to_raise"] = True
            return []
        if isinstance(s, ast.If):
            n = self._new("test", s.test, s)
            self._own(s.test, n.id)
            self._connect(preds, n.id)
            self._implicit_exc_edges(n.id)
            t_ends = self._block(s.body, [(n.id, "T")])
            f_ends = self._block(s.orelse, [(n.id, "F")]) if s.orelse else [(n.id, "F")]
            return t_ends + f_ends
        if isinstance(s, ast.While):
            n = self._new("test", s.test, s, "while")
            self._own(s.test, n.id)
            self._connect(preds, n.id)
            self._implicit_exc_edges(n.id)
            self._loops.append((n.id, []))
            body_ends = self._block(s.body, [(n.id, "T")])
            _, breaks = self._loops.pop()
            for e, lab in body_ends:
                self._edge(e, n.id, "back")
            out = [(n.id, "F")]
            if s.orelse:
                out = self._block(s.orelse, out)
            return out + [(b, "") for b in breaks]
        if isinstance(s, ast.For):
            n = self._new("iter", s, s, "for")
            self._own(s.iter, n.id)
            self._own(s.target, n.id)
            self._connect(preds, n.id)
            self._implicit_exc_edges(n.id)
            self._loops.append((n.id, []))
            body_ends = self._block(s.body, [(n.id, "T")])
            _, breaks = self._loops.pop()
            for e, lab in body_ends:
                self._edge(e, n.id, "back")
            out = [(n.id, "F")]
            if s.orelse:
                out = self._block(s.orelse, out)
            return out + [(b, "") for b in breaks]
        if isinstance(s, ast.Continue):
            n = self._new("stmt", s, s, "continue")
            self._connect(preds, n.id)
            if not self._loops:
                raise AnalysisError("continue outside loop")
            self._edge(n.id, self._loops[-1][0], "back")
            return []
        if isinstance(s, ast.Break):
            n = self._new("stmt", s, s, "break")
            self._connect(preds, n.id)
            self._loops[-1][1].append(n.id)
            return []
        if isinstance(s, ast.With):
            n = self._new("with", s, s)
            for it in s.items:
                self._own(it.context_expr, n.id)
                if it.optional_vars is not None:
                    self._own(it.optional_vars, n.id)
            self._connect(preds, n.id)
            self._implicit_exc_edges(n.id)
            return self._block(s.body, [(n.id, "")])
        if isinstance(s, ast.Try):
            return self._try(s, preds)
        raise AnalysisError(f"unsupported statement kind {type(s).__name__} at line {s.lineno}")

    def _try(self, s: ast.Try, preds):
        ctx = {"handlers": [], "finally_entry": None}
        # create handler entry nodes first so body statements can point to them
        for h in s.handlers:
            hn = self._new("handler", h, s, "except")
            if h.type is not None:
                self._own(h.type, hn.id)
            ctx["handlers"].append((hn.id, _handler_types(h.type)))
        fin = None
        if s.finalbody:
            fin = self._new("finally", None, s, "finally")
            ctx["finally_entry"] = fin.id
        self._trys.append(ctx)
        # an exception may occur before the first statement completes
        body_ends = self._block(s.body, preds)
        ctx["in_handler"] = True
        else_ends = self._block(s.orelse, body_ends) if s.orelse else body_ends
        h_ends = []
        for (hid, _), h in zip(ctx["handlers"], s.handlers):
            h_ends += self._block(h.body, [(hid, "")])
        ends = else_ends + h_ends
        if fin is not None:
            ctx["in_finally"] = True
            self._connect(ends, fin.id)
            f_ends = self._block(s.finalbody, [(fin.id, "")])
            self._trys.pop()
            if ctx.get("finally_to_raise") or True:
                # exceptional entry into finally continues to the outer target
                for e, lab in f_ends:
                    for tgt in self._raise_targets(None):
                        self._edge(e, tgt, "reraise")
            if ctx.get("finally_to_exit"):
                for e, lab in f_ends:
                    self._edge(e, self.exit.id, "return")
            return f_ends
        self._trys.pop()
        return ends

    # ---------------------------------------------------------------- queries
    def node_of(self, astnode: ast.AST) -> Optional[Node]:
        nid = self._owner.get(id(astnode))
        return self.nodes[nid] if nid is not None else None

    def stmt_nodes(self) -> List[Node]:
        return [n for n in self.nodes if n.ast is not None]

    def reachable(self, start: int = None, avoid: Set[int] = frozenset()) -> Set[int]:
        start = self.entry.id if start is None else start
        seen = {start}
        stack = [start]
        while stack:
            x = stack.pop()
            for y, _ in self.succ[x]:
                if y not in seen and y not in avoid:
                    seen.add(y)
                    stack.append(y)
        return seen

    def _compute_dom(self, succ, pred, root) -> Dict[int, Set[int]]:
        reach = set()
        stack = [root]
        while stack:
            x = stack.pop()
            if x in reach:
                continue
            reach.add(x)
            stack.extend(y for y, _ in succ[x])
        allset = set(reach)
        dom = {n: set(allset) for n in reach}
        dom[root] = {root}
        changed = True
        order = sorted(reach)
        while changed:
            changed = False
            for n in order:
                if n == root:
                    continue
                ps = [p for p, _ in pred[n] if p in reach]
                new = set.intersection(*(dom[p] for p in ps)) if ps else set()
                new = new | {n}
                if new != dom[n]:
                    dom[n] = new
                    changed = True
        return dom

    def dominators(self) -> Dict[int, Set[int]]:
        if self._dom is None:
            self._dom = self._compute_dom(self.succ, self.pred, self.entry.id)
        return self._dom

    def postdominators(self) -> Dict[int, Set[int]]:
        """Post-dominators w.r.t. the normal exit."""
        if self._pdom is None:
            self._pdom = self._compute_dom(self.pred, self.succ, self.exit.id)
        return self._pdom

    def dominates(self, a: int, b: int) -> bool:
        d = self.dominators()
        return b in d and a in d[b]

    def postdominates(self, a: int, b: int) -> bool:
        """a is on every path from b to the normal exit (b must reach exit)."""
        d = self.postdominators()
        return b in d and a in d[b]

    def reaches(self, a: int, b: int, avoid: Set[int] = frozenset()) -> bool:
        if a == b:
            return True
        return b in self.reachable(a, avoid)

    def every_path_to_passes(self, target: int, via: Set[int]) -> bool:
        """Every path entry -> target passes some node of `via` (before target)."""
        if target in via:
            return True
        return target not in self.reachable(self.entry.id, avoid=set(via))

    def every_path_from_passes(self, src: int, via: Set[int], to: Optional[int] = None) -> bool:
        """Every path src -> normal exit passes a node in `via`."""
        to = self.exit.id if to is None else to
        return to not in self.reachable(src, avoid=set(via)) or src in via

    def back_edges(self) -> Set[Tuple[int, int]]:
        be = set()
        for a in self.succ:
            for b, lab in self.succ[a]:
                if lab == "back":
                    be.add((a, b))
        return be

    def path_count(self, pred_fn: Callable[[Node], int], start: Optional[int] = None,
                   ends: Optional[Iterable[int]] = None, restrict: Optional[Set[int]] = None) -> Dict[int, Tuple[int, int]]:
        """min/max sum of pred_fn(node) along acyclic paths (back edges removed)
        from start to each end. Returns {end: (min, max)} for reachable ends."""
        start = self.entry.id if start is None else start
        ends = [self.exit.id, self.rexit.id] if ends is None else list(ends)
        be = self.back_edges()
        # topological order via DFS
        order = []
        seen = set()

        def dfs(x):
            seen.add(x)
            for y, _ in self.succ[x]:
                if (x, y) in be or y in seen:
                    continue
                if restrict is not None and y not in restrict and y not in ends:
                    continue
                dfs(y)
            order.append(x)
        import sys
        sys.setrecursionlimit(10000)
        dfs(start)
        order.reverse()
        INF = 10 ** 9
        lo = {n: INF for n in order}
        hi = {n: -INF for n in order}
        w0 = pred_fn(self.nodes[start])
        lo[start] = hi[start] = w0
        for x in order:
            if lo[x] == INF:
                continue
            if x in ends and x != start:
                continue
            for y, _ in self.succ[x]:
                if (x, y) in be or y not in lo:
                    continue
                w = pred_fn(self.nodes[y])
                lo[y] = min(lo[y], lo[x] + w)
                hi[y] = max(hi[y], hi[x] + w)
        return {e: (lo[e], hi[e]) for e in ends if e in lo and lo[e] != INF}

    def loop_body_nodes(self, loop_node: int) -> Set[int]:
        """Nodes inside the body of the loop headed by loop_node."""
        body = set()
        stack = [y for y, lab in self.succ[loop_node] if lab == "T"]
        while stack:
            x = stack.pop()
            if x in body or x == loop_node:
                continue
            body.add(x)
            for y, lab in self.succ[x]:
                if y != loop_node and y not in (self.exit.id, self.rexit.id):
                    stack.append(y)
        # keep only nodes syntactically inside the loop statement
        loop_stmt = self.nodes[loop_node].stmt
        inside = set()
        for s in ast.walk(loop_stmt):
            nid = self._owner.get(id(s))
            if nid is not None:
                inside.add(nid)
        for n in self.nodes:
            if n.stmt is not None and n.kind in ("stmt",) and n.label in ("continue", "break"):
                if any(n.stmt is x for x in ast.walk(loop_stmt)):
                    inside.add(n.id)
        return (body & inside) | {n for n in inside if n != loop_node and n in body}


def _exc_name(exc: Optional[ast.AST]) -> Optional[str]:
    if exc is None:
        return None
    if isinstance(exc, ast.Call):
        exc = exc.func
    if isinstance(exc, ast.Name):
        return exc.id
    if isinstance(exc, ast.Attribute):
        return exc.attr
    return None


def _handler_types(t: Optional[ast.AST]) -> Optional[List[str]]:
    if t is None:
        return None
    if isinstance(t, ast.Tuple):
        out = []
        for e in t.elts:
            n = _exc_name(e)
            out.append(n or "?")
        return out
    n = _exc_name(t)
    return [n or "?"]


# light-weight builtin exception hierarchy (names only)
_BUILTIN_PARENTS = {
    "KeyError": "LookupError", "IndexError": "LookupError", "LookupError": "Exception",
    "ValueError": "Exception", "TypeError": "Exception", "AttributeError": "Exception",
    "NotImplementedError": "RuntimeError", "RuntimeError": "Exception",
    "StopIteration": "Exception", "ZeroDivisionError": "ArithmeticError",
    "ArithmeticError": "Exception", "AssertionError": "Exception",
    "ModuleNotFoundError": "ImportError", "ImportError": "Exception",
    "NotFittedError": "ValueError", "Exception": "BaseException",
    "EndOfEpisodeError": "Exception", "OSError": "Exception", "FloatingPointError": "ArithmeticError",
    "OverflowError": "ArithmeticError",
}


def exc_ancestors(name: str, extra_parents: Dict[str, str] = None) -> List[str]:
    out = [name]
    parents = dict(_BUILTIN_PARENTS)
    if extra_parents:
        parents.update(extra_parents)
    seen = set()
    while name in parents and name not in seen:
        seen.add(name)
        name = parents[name]
        out.append(name)
    if out[-1] not in ("BaseException",):
        if "Exception" not in out:
            out.append("Exception")
        out.append("BaseException")
    return out


def _may_match(exc_name: str, handler_types: List[str]) -> bool:
    anc = exc_ancestors(exc_name)
    return any(h in anc or h == "?" for h in handler_types)


def handler_catches(exc_name: str, handler_types: Optional[List[str]], extra_parents=None) -> bool:
    if handler_types is None:
        return True
    anc = exc_ancestors(exc_name, extra_parents)
    return any(h in anc for h in handler_types)
