"""Source-level normalisation applied to the parsed package before any rule
runs: calls to helpers that are NEW to the reviewed inventory of functions
(sa/known_functions.json) are expanded in place.

Why: the rules were written against the functions of the reviewed package. When
an edit moves a block of such a function into a new private helper ("extract
method"), or routes a computation through a small new function, the behaviour is
unchanged but the statements the rules reason about are no longer where they
were. Expanding the new helper at its call sites gives the rules the program
they know how to read; the helper itself stays in the program (its body is still
analysed by the whole-package rules) and remembers which reviewed functions it
was expanded into (`Program.expanded_into`) for the who-may-write rules.

What is expanded: calls `self.h(...)` / `cls.h(...)` to a method of the same
class (or a base) and calls `h(...)` to a function of the same module, where h
is not in the inventory, takes plain positional / keyword arguments, is not a
generator / decorated, and whose returns are in tail position of straight-line
code and if/else trees (no return inside a loop, try or with). Anything else is
left alone (the value-level and effect-level fall-backs in analysis.py /
forward.py still see through pure and effectful helpers).

This is an analysis device: the expansion is never written back or executed.
"""
from __future__ import annotations
import ast
import copy
import json
import os
from typing import Dict, List, Optional, Set, Tuple

_HERE = os.path.dirname(os.path.abspath(__file__))
_KNOWN: Optional[Set[str]] = None


def known_functions() -> Set[str]:
    global _KNOWN
    if _KNOWN is None:
        with open(os.path.join(_HERE, "known_functions.json")) as fh:
            _KNOWN = set(json.load(fh))
    return _KNOWN


class _Unsupported(Exception):
    pass


def _clone(n):
    """Deep copy of an AST that does not follow the `_parent` back-pointers the loader put on every node."""
    if isinstance(n, ast.AST):
        new = type(n)()
        for f in n._fields:
            if hasattr(n, f):
                setattr(new, f, _clone(getattr(n, f)))
        for a in ("lineno", "col_offset", "end_lineno", "end_col_offset"):
            if hasattr(n, a):
                setattr(new, a, getattr(n, a))
        return new
    if isinstance(n, list):
        return [_clone(x) for x in n]
    return n


def _has(node, kinds) -> bool:
    return any(isinstance(x, kinds) for x in ast.walk(node))


def _locals_of(fn: ast.FunctionDef) -> Set[str]:
    names = {a.arg for a in fn.args.posonlyargs + fn.args.args + fn.args.kwonlyargs}
    for x in ast.walk(fn):
        if isinstance(x, ast.Name) and isinstance(x.ctx, (ast.Store, ast.Del)):
            names.add(x.id)
        elif isinstance(x, ast.ExceptHandler) and x.name:
            names.add(x.name)
        elif isinstance(x, ast.arg):
            names.add(x.arg)
    return names


def _convert_returns(stmts: List[ast.stmt], cont: List[ast.stmt], target: Optional[ast.expr]) -> List[ast.stmt]:
    """Statements equivalent to `stmts; cont` in which every `return e` has become `target = e` (or the bare expression
    when there is no target) and nothing runs after it. Returns inside loops / try / with are not supported."""
    out: List[ast.stmt] = []
    for i, st in enumerate(stmts):
        rest = stmts[i + 1:]
        if isinstance(st, ast.Return):
            if target is not None and isinstance(target, ast.Tuple) and isinstance(st.value, ast.Tuple) and len(target.elts) == len(st.value.elts) \
                    and not any(isinstance(x, ast.Starred) for x in target.elts + st.value.elts):
                # a, b = helper(...) with `return x, y`: element-wise, through temporaries (all of x, y are evaluated before a or b is bound)
                _convert_returns.counter = getattr(_convert_returns, "counter", 0) + 1
                tmps = [f"_ret{k}__r{_convert_returns.counter}" for k in range(len(target.elts))]
                for nm, v in zip(tmps, st.value.elts):
                    out.append(ast.Assign(targets=[ast.Name(id=nm, ctx=ast.Store())], value=v))
                for t_, nm in zip(target.elts, tmps):
                    out.append(ast.Assign(targets=[_clone(t_)], value=ast.Name(id=nm, ctx=ast.Load())))
            elif target is not None:
                out.append(ast.Assign(targets=[_clone(target)], value=st.value if st.value is not None else ast.Constant(value=None)))
            elif st.value is not None and _has(st.value, ast.Call):
                out.append(ast.Expr(value=st.value))
            return out
        if isinstance(st, ast.Raise):
            out.append(st)
            return out
        if isinstance(st, ast.If) and _has(st, ast.Return):
            new = ast.If(test=st.test, body=_convert_returns(st.body, rest + cont, target) or [ast.Pass()], orelse=_convert_returns(st.orelse, rest + cont, target))
            out.append(new)
            return out
        if isinstance(st, ast.Try) and not st.finalbody and not any(_has(x, ast.Return) for x in st.body) and all(_always_leaves(h.body) or not _has(h, ast.Return) for h in st.handlers) \
                and all(_always_leaves(h.body) for h in st.handlers):
            # try: A / except K: ...return  followed by REST  is  try: A / except K: ... / else: REST (REST is not protected either way)
            hs = [ast.ExceptHandler(type=h.type, name=h.name, body=_convert_returns(h.body, [], target) or [ast.Pass()]) for h in st.handlers]
            new = ast.Try(body=st.body, handlers=hs, orelse=_convert_returns(list(st.orelse) + rest, cont, target) or [], finalbody=[])
            out.append(new)
            return out
        if _has(st, ast.Return):
            raise _Unsupported("return inside a loop / try / with")
        out.append(st)
    out.extend(_convert_returns(cont, [], target) if cont else [])
    if not cont and target is not None and not (out and isinstance(out[-1], (ast.Raise,))):
        # fell off the end of the helper: it returns None
        if not stmts or not isinstance(stmts[-1], (ast.Return, ast.Raise)):
            out.append(ast.Assign(targets=[_clone(target)], value=ast.Constant(value=None)))
    return out


def _always_leaves(stmts: List[ast.stmt]) -> bool:
    """Every path through the statements ends in return / raise."""
    if not stmts:
        return False
    last = stmts[-1]
    if isinstance(last, (ast.Return, ast.Raise)):
        return True
    if isinstance(last, ast.If):
        return bool(last.orelse) and _always_leaves(last.body) and _always_leaves(last.orelse)
    return False


class _Renamer(ast.NodeTransformer):
    def __init__(self, mapping: Dict[str, ast.expr]):
        self.mapping = mapping

    def visit_Name(self, node: ast.Name):
        r = self.mapping.get(node.id)
        if r is None:
            return node
        if isinstance(r, str):
            return ast.copy_location(ast.Name(id=r, ctx=node.ctx), node)
        if isinstance(node.ctx, ast.Load):
            return ast.copy_location(_clone(r), node)
        raise _Unsupported(f"parameter {node.id} bound to an expression is re-assigned")

    def visit_arg(self, node: ast.arg):
        r = self.mapping.get(node.arg)
        if isinstance(r, str):
            node.arg = r
        return node

    def visit_ExceptHandler(self, node: ast.ExceptHandler):
        self.generic_visit(node)
        r = self.mapping.get(node.name) if node.name else None
        if isinstance(r, str):
            node.name = r
        return node


class Expander:
    def __init__(self, modules: Dict[str, "object"]):
        self.modules = modules
        self.known = known_functions()
        self.counter = 0
        self.expanded_into: Dict[str, Set[str]] = {}      # helper qual -> quals of the functions it was expanded into
        self._current = ""
        # indexes
        self.mod_funcs: Dict[str, Dict[str, ast.FunctionDef]] = {}
        self.mod_classes: Dict[str, Dict[str, ast.ClassDef]] = {}
        for name, m in modules.items():
            self.mod_funcs[name] = {n.name: n for n in m.tree.body if isinstance(n, ast.FunctionDef)}
            self.mod_classes[name] = {n.name: n for n in m.tree.body if isinstance(n, ast.ClassDef)}

    # ------------------------------------------------------------------ lookup
    def _method(self, modname: str, cls: ast.ClassDef, name: str, _seen=()) -> Optional[Tuple[str, ast.FunctionDef]]:
        for s in cls.body:
            if isinstance(s, ast.FunctionDef) and s.name == name:
                return f"{modname}:{cls.name}.{name}", s
        for b in cls.bases:
            if isinstance(b, ast.Name) and b.id in self.mod_classes.get(modname, {}) and b.id not in _seen:
                r = self._method(modname, self.mod_classes[modname][b.id], name, _seen + (cls.name,))
                if r:
                    return r
        return None

    def _overridden_below(self, modname: str, cls: ast.ClassDef, name: str) -> bool:
        """Some subclass (same module) redefines the method: `self.h()` may then not be this h."""
        for c in self.mod_classes.get(modname, {}).values():
            if c is cls:
                continue
            if any(isinstance(b, ast.Name) and b.id == cls.name for b in c.bases):
                if any(isinstance(s, ast.FunctionDef) and s.name == name for s in c.body) or self._overridden_below(modname, c, name):
                    return True
        return False

    def _target(self, modname: str, cls: Optional[ast.ClassDef], caller: ast.FunctionDef, call: ast.Call):
        """(qual, helper def, receiver expr | None) when the call is to an expandable new helper."""
        f = call.func
        selfname = caller.args.args[0].arg if cls is not None and caller.args.args and not any(ast.unparse(d) == "staticmethod" for d in caller.decorator_list) else None
        if isinstance(f, ast.Attribute) and isinstance(f.value, ast.Name) and selfname is not None and f.value.id == selfname and cls is not None:
            r = self._method(modname, cls, f.attr)
            if r is None:
                return None
            qual, h = r
            if self._overridden_below(modname, cls, f.attr):
                return None
            recv = f.value
        elif isinstance(f, ast.Attribute) and isinstance(f.value, ast.Name) and f.value.id in self.mod_classes.get(modname, {}) and f.value.id not in _locals_of(caller):
            # `ClassName.helper(...)`: a static / class method of a class of the same module, called through the class
            kcls = self.mod_classes[modname][f.value.id]
            r = self._method(modname, kcls, f.attr)
            if r is None:
                return None
            qual, h = r
            decs = [ast.unparse(d) for d in h.decorator_list]
            if "staticmethod" in decs:
                recv = None
            elif "classmethod" in decs and not self._overridden_below(modname, kcls, f.attr):
                recv = f.value
            else:
                return None
        elif isinstance(f, ast.Name) and f.id in self.mod_funcs.get(modname, {}):
            h = self.mod_funcs[modname][f.id]
            qual = f"{modname}:{f.id}"
            recv = None
        else:
            return None
        if qual in self.known or h is caller:
            return None
        if h.decorator_list and not all(ast.unparse(d) in ("staticmethod", "classmethod") for d in h.decorator_list):
            return None
        if _has(h, (ast.Yield, ast.YieldFrom, ast.Await, ast.Global, ast.Nonlocal)) or any(isinstance(x, (ast.FunctionDef, ast.ClassDef, ast.AsyncFunctionDef)) and x is not h for x in ast.walk(h)):
            return None
        if h.args.vararg or h.args.kwarg or h.args.posonlyargs:
            return None
        if any(isinstance(a, ast.Starred) for a in call.args) or any(k.arg is None for k in call.keywords):
            return None
        if any(isinstance(x, ast.Call) and isinstance(x.func, ast.Name) and x.func.id in ("super", "locals", "vars", "globals") for x in ast.walk(h)):
            return None
        return qual, h, recv

    # ------------------------------------------------------------------ expansion of one call
    def _expand(self, modname, cls, caller, call: ast.Call, target: Optional[ast.expr], caller_locals: Set[str], depth: int, tail: Optional[str] = None) -> Optional[List[ast.stmt]]:
        t = self._target(modname, cls, caller, call)
        if t is None:
            return None
        qual, h, recv = t
        is_static = any(ast.unparse(d) == "staticmethod" for d in h.decorator_list)
        params = [a.arg for a in h.args.args]
        defaults = [None] * (len(params) - len(h.args.defaults)) + list(h.args.defaults)
        kwonly = [a.arg for a in h.args.kwonlyargs]
        kwdefaults = list(h.args.kw_defaults)
        binding: Dict[str, ast.expr] = {}
        pos_params = params
        if recv is not None and not is_static:
            if not params:
                return None
            binding[params[0]] = recv
            pos_params = params[1:]
            defaults = defaults[1:]
        if len(call.args) > len(pos_params):
            return None
        for p, a in zip(pos_params, call.args):
            binding[p] = a
        for k in call.keywords:
            if k.arg in binding or k.arg not in pos_params + kwonly:
                return None
            binding[k.arg] = k.value
        for p, d in list(zip(pos_params, defaults)) + list(zip(kwonly, kwdefaults)):
            if p not in binding:
                if d is None:
                    return None
                binding[p] = d
        self.counter += 1
        sfx = f"__x{self.counter}"
        body = [_clone(s) for s in h.body]
        if body and isinstance(body[0], ast.Expr) and isinstance(body[0].value, ast.Constant) and isinstance(body[0].value.value, str):
            body = body[1:]
        hl = _locals_of(h)
        stored = {x.id for s in body for x in ast.walk(s) if isinstance(x, ast.Name) and isinstance(x.ctx, (ast.Store, ast.Del))}
        mapping: Dict[str, object] = {}
        pre: List[ast.stmt] = []
        for p, a in binding.items():
            simple = isinstance(a, (ast.Name, ast.Constant)) or (isinstance(a, ast.Attribute) and isinstance(a.value, ast.Name)) or (isinstance(a, ast.UnaryOp) and isinstance(a.operand, (ast.Name, ast.Constant)))
            if simple and p not in stored:
                mapping[p] = _clone(a)      # substituted directly
            else:
                mapping[p] = p + sfx
                pre.append(ast.Assign(targets=[ast.Name(id=p + sfx, ctx=ast.Store())], value=_clone(a)))
        for n in hl:
            if n not in mapping:
                mapping[n] = n + sfx
        ren = _Renamer(mapping)
        body = [ren.visit(s) for s in body]
        leave = None
        if target is None and tail in ("continue", "return"):
            # a procedure call that ends a loop iteration (or the function): the helper's bare `return`s are `continue`s (`return`s),
            # wherever they sit (also inside try / with) - unless one sits in a loop of the helper itself
            rets = [x for st_ in body for x in ast.walk(st_) if isinstance(x, ast.Return)]
            in_loops = {id(x) for st_ in body for lp in ast.walk(st_) if isinstance(lp, (ast.For, ast.While)) for x in ast.walk(lp) if isinstance(x, ast.Return)}
            if rets and all(r_.value is None or (isinstance(r_.value, ast.Constant) and r_.value.value is None) for r_ in rets) and (tail == "return" or not any(id(r_) in in_loops for r_ in rets)):
                leave = ast.Continue if tail == "continue" else ast.Return
        if leave is not None:
            class _L(ast.NodeTransformer):
                def visit_Return(self, node):
                    return ast.copy_location(leave() if leave is ast.Continue else ast.Return(value=None), node)
            body = [_L().visit(s_) for s_ in body]
            # a trailing leave is the fall-through
            while body and isinstance(body[-1], (ast.Continue if leave is ast.Continue else ast.Return)) and len(body) > 1:
                body.pop()
        else:
            body = _convert_returns(body, [], target)
        out = pre + body
        if not out:
            out = [ast.Pass()]
        # helpers called by the helper
        holder = ast.Module(body=out, type_ignores=[])
        if depth < 3:
            self._rewrite_block(modname, cls, caller, holder.body, caller_locals | {m for m in mapping.values() if isinstance(m, str)}, depth + 1, tail if target is None else None)
        for s in holder.body:
            for x in ast.walk(s):
                ast.copy_location(x, call)
        self.expanded_into.setdefault(qual, set()).add(self._current)
        return holder.body

    # ------------------------------------------------------------------ rewriting statements of a function
    def _rewrite_block(self, modname, cls, caller, blk: List[ast.stmt], caller_locals: Set[str], depth: int, tail: Optional[str] = None):
        """tail: what "leaving this block at its end" means for control flow - 'continue' (the block ends a loop iteration),
        'return' (it ends the function, which then returns None) or None (something else follows)."""
        i = 0
        while i < len(blk):
            st = blk[i]
            here = tail if i == len(blk) - 1 else None
            for field in ("body", "orelse", "finalbody"):
                sub = getattr(st, field, None)
                if isinstance(sub, list) and sub and isinstance(sub[0], ast.stmt) and not isinstance(st, (ast.FunctionDef, ast.ClassDef, ast.AsyncFunctionDef)):
                    if isinstance(st, (ast.For, ast.While)):
                        sub_tail = "continue" if field == "body" else None
                    elif isinstance(st, ast.If):
                        sub_tail = here
                    elif isinstance(st, ast.Try):
                        sub_tail = here if (field == "orelse" or (field == "body" and not st.orelse)) and not st.finalbody else None
                    elif isinstance(st, ast.With):
                        sub_tail = None
                    else:
                        sub_tail = None
                    self._rewrite_block(modname, cls, caller, sub, caller_locals, depth, sub_tail)
            if isinstance(st, ast.Try):
                for h in st.handlers:
                    self._rewrite_block(modname, cls, caller, h.body, caller_locals, depth, here if not st.finalbody else None)
            repl = self._rewrite_stmt(modname, cls, caller, st, caller_locals, depth, here)
            if repl is not None:
                blk[i:i + 1] = repl
                i += len(repl)
            else:
                i += 1

    def _rewrite_stmt(self, modname, cls, caller, st: ast.stmt, caller_locals: Set[str], depth: int, tail: Optional[str] = None) -> Optional[List[ast.stmt]]:
        try:
            # whole-statement forms
            if isinstance(st, ast.Expr) and isinstance(st.value, ast.Call):
                r = self._expand(modname, cls, caller, st.value, None, caller_locals, depth, tail)
                if r is not None:
                    return r
            if isinstance(st, ast.Assign) and len(st.targets) == 1 and isinstance(st.value, ast.Call) and isinstance(st.targets[0], (ast.Name, ast.Attribute, ast.Subscript, ast.Tuple)):
                r = self._expand(modname, cls, caller, st.value, st.targets[0], caller_locals, depth)
                if r is not None:
                    return r
            if isinstance(st, ast.AnnAssign) and st.value is not None and isinstance(st.value, ast.Call) and isinstance(st.target, ast.Name):
                r = self._expand(modname, cls, caller, st.value, st.target, caller_locals, depth)
                if r is not None:
                    return r
            if isinstance(st, ast.Return) and isinstance(st.value, ast.Call):
                self.counter += 1
                tmp = f"_ret__x{self.counter}"
                r = self._expand(modname, cls, caller, st.value, ast.Name(id=tmp, ctx=ast.Store()), caller_locals, depth)
                if r is not None:
                    return r + [ast.copy_location(ast.Return(value=ast.Name(id=tmp, ctx=ast.Load())), st)]
            # a call nested in the expression(s) of a simple statement or of an `if` test: hoisted into a temporary first
            exprs = []
            if isinstance(st, (ast.Assign, ast.AnnAssign, ast.AugAssign, ast.Expr, ast.Return)) and getattr(st, "value", None) is not None:
                exprs = [st.value]
            elif isinstance(st, ast.If):
                exprs = [st.test]
            elif isinstance(st, ast.For):
                exprs = [st.iter]
            pre: List[ast.stmt] = []
            for e in exprs:
                for c in [x for x in ast.walk(e) if isinstance(x, ast.Call)]:
                    if self._target(modname, cls, caller, c) is None:
                        continue
                    if not any(x is c for x in ast.walk(st)):
                        continue          # already moved into the expansion of an enclosing call (and expanded there)
                    if any(isinstance(p, (ast.Lambda, ast.ListComp, ast.SetComp, ast.DictComp, ast.GeneratorExp, ast.IfExp, ast.BoolOp)) and any(y is c for y in ast.walk(p)) and p is not c for p in ast.walk(e)):
                        continue          # evaluated conditionally / repeatedly: not a plain hoist
                    self.counter += 1
                    tmp = f"_val__x{self.counter}"
                    r = self._expand(modname, cls, caller, c, ast.Name(id=tmp, ctx=ast.Store()), caller_locals, depth)
                    if r is None:
                        continue
                    pre.extend(r)
                    _replace_node(st, c, ast.copy_location(ast.Name(id=tmp, ctx=ast.Load()), c))
            if pre:
                return pre + [st]
        except _Unsupported:
            return None
        return None

    # ------------------------------------------------------------------ driver
    def run(self):
        for modname, m in self.modules.items():
            if modname.startswith("_fixture"):
                continue
            if drop_logging(m):
                drop_reraise_handlers(m.tree)
            inline_new_constants(m, self.modules)
        if bind_new_parameters(self.modules):
            # a bound option often kills the only branch that passed another new option on (`if skip_flat: f(skip_flat=True)`):
            # fold the decided tests and look again
            for _ in range(4):
                for modname, m in self.modules.items():
                    if not modname.startswith("_fixture"):
                        fold_constant_tests(m.tree)
                if fold_constant_attributes(self.modules):
                    for modname, m in self.modules.items():
                        if not modname.startswith("_fixture"):
                            propagate_literal_locals(m.tree)
                            fold_constant_tests(m.tree)
                bind_new_parameters(self.modules)
        drop_default_arguments(self.modules)
        for modname, m in self.modules.items():
            if modname.startswith("_fixture"):
                continue
            respell_imports(m)
        for modname, m in self.modules.items():
            if modname.startswith("_fixture"):
                continue
            # aliases first: a helper called through a local alias (`value_of = self._value_of`) must be visible to the expansion
            library_defaults(m.tree)
            plain_assignments(m.tree)
            spread_keyword_dicts(m.tree)
            split_chained_assignments(m.tree)
            bound_method_aliases(m.tree)
        for modname, m in self.modules.items():
            if modname.startswith("_fixture"):
                continue
            for node in m.tree.body:
                if isinstance(node, ast.FunctionDef):
                    self._do_function(modname, None, node)
                elif isinstance(node, ast.ClassDef):
                    for s in node.body:
                        if isinstance(s, ast.FunctionDef):
                            self._do_function(modname, node, s)
            drop_empty_fast_paths(m.tree)
            fold_constant_tests(m.tree)
            split_chained_assignments(m.tree)
            collapse_copies(m.tree)
            attribute_read_aliases(m.tree)
            attribute_aliases(m.tree)
            sink_selected_receivers(m.tree)
            unroll_literal_loops(m.tree)
            key_loops_to_items(m.tree)
            inline_comprehension_temps(m.tree)
            flatten_spellings(m.tree)
            loops_to_comprehensions(m.tree)
            flatten_spellings(m.tree)
            more_spellings(m.tree)
            bound_method_aliases(m.tree)
            for node in ast.walk(m.tree):
                for child in ast.iter_child_nodes(node):
                    child._parent = node
            ast.fix_missing_locations(m.tree)
        # defaults made explicit by an expansion (a helper's own parameter default forwarded to a reviewed function)
        if drop_default_arguments(self.modules):
            for modname, m in self.modules.items():
                for node in ast.walk(m.tree):
                    for child in ast.iter_child_nodes(node):
                        child._parent = node
                ast.fix_missing_locations(m.tree)
        return self

    def _inline_expression_helpers(self, modname, cls, fn: ast.FunctionDef):
        """A call to a new helper whose body is one `return <expression>` is replaced by that expression (parameters bound
        to the arguments) wherever it stands - also inside `and` / `or`, conditional expressions and comprehensions, where a
        statement-level expansion cannot go. Arguments must be plain (names, attribute paths, constants) or used at most once."""
        for _round in range(3):
            changed = False
            for node in list(ast.walk(fn)):
                for f_, val in ast.iter_fields(node):
                    items = val if isinstance(val, list) else [val]
                    for k, c in enumerate(items):
                        if not isinstance(c, ast.Call):
                            continue
                        t = self._target(modname, cls, fn, c)
                        if t is None:
                            continue
                        qual, h, recv = t
                        body = [b for b in h.body if not (isinstance(b, ast.Expr) and isinstance(b.value, ast.Constant))]
                        if len(body) != 1 or not isinstance(body[0], ast.Return) or body[0].value is None:
                            continue
                        if any(isinstance(x, (ast.Lambda, ast.ListComp, ast.SetComp, ast.DictComp, ast.GeneratorExp, ast.NamedExpr)) for x in ast.walk(body[0].value)):
                            continue
                        is_static = any(ast.unparse(d) == "staticmethod" for d in h.decorator_list)
                        params = [a.arg for a in h.args.args]
                        defaults = [None] * (len(params) - len(h.args.defaults)) + list(h.args.defaults)
                        binding: Dict[str, ast.expr] = {}
                        pos_params = params
                        if recv is not None and not is_static:
                            if not params:
                                continue
                            binding[params[0]] = recv
                            pos_params, defaults = params[1:], defaults[1:]
                        if len(c.args) > len(pos_params):
                            continue
                        for p_, a_ in zip(pos_params, c.args):
                            binding[p_] = a_
                        bad = False
                        for kw in c.keywords:
                            if kw.arg in binding or kw.arg not in pos_params + [a.arg for a in h.args.kwonlyargs]:
                                bad = True
                            else:
                                binding[kw.arg] = kw.value
                        for p_, d_ in list(zip(pos_params, defaults)) + list(zip([a.arg for a in h.args.kwonlyargs], h.args.kw_defaults)):
                            if p_ not in binding:
                                if d_ is None:
                                    bad = True
                                else:
                                    binding[p_] = d_
                        if bad:
                            continue
                        uses = {}
                        for x in ast.walk(body[0].value):
                            if isinstance(x, ast.Name) and isinstance(x.ctx, ast.Load):
                                uses[x.id] = uses.get(x.id, 0) + 1
                        if any(not (isinstance(a_, (ast.Name, ast.Constant)) or (isinstance(a_, ast.Attribute) and _pure_path(a_))) and uses.get(p_, 0) > 1 for p_, a_ in binding.items()):
                            continue
                        try:
                            new = _Renamer({p_: _clone(a_) for p_, a_ in binding.items()}).visit(_clone(body[0].value))
                        except _Unsupported:
                            continue
                        for x in ast.walk(new):
                            ast.copy_location(x, c)
                        if isinstance(val, list):
                            val[k] = new
                        else:
                            setattr(node, f_, new)
                        self.expanded_into.setdefault(qual, set()).add(self._current)
                        changed = True
            if not changed:
                break

    # ------------------------------------------------------------------ generators
    def _gen_target(self, modname, cls, caller, call: ast.Call):
        """(qual, helper def, receiver) when the call is to a NEW generator helper that can be spliced into a loop over it: yields
        only as statements, no `return`, no `yield from`, no nested definitions."""
        f = call.func
        selfname = caller.args.args[0].arg if cls is not None and caller.args.args and not any(ast.unparse(d) == "staticmethod" for d in caller.decorator_list) else None
        if isinstance(f, ast.Attribute) and isinstance(f.value, ast.Name) and selfname is not None and f.value.id == selfname and cls is not None:
            r = self._method(modname, cls, f.attr)
            if r is None or self._overridden_below(modname, cls, f.attr):
                return None
            qual, h = r
            recv = f.value
        elif isinstance(f, ast.Name) and f.id in self.mod_funcs.get(modname, {}):
            h, qual, recv = self.mod_funcs[modname][f.id], f"{modname}:{f.id}", None
        else:
            return None
        if qual in self.known or h is caller or h.decorator_list or h.args.vararg or h.args.kwarg or h.args.posonlyargs:
            return None
        ys = [x for x in ast.walk(h) if isinstance(x, ast.Yield)]
        if not ys or _has(h, (ast.YieldFrom, ast.Await, ast.Global, ast.Nonlocal, ast.Return, ast.Lambda)) or any(isinstance(x, (ast.FunctionDef, ast.ClassDef)) and x is not h for x in ast.walk(h)):
            return None
        stmt_yields = {id(x.value) for x in ast.walk(h) if isinstance(x, ast.Expr) and isinstance(x.value, ast.Yield)}
        if any(id(y) not in stmt_yields or y.value is None for y in ys):
            return None
        if any(isinstance(a, ast.Starred) for a in call.args) or any(k.arg is None for k in call.keywords):
            return None
        return qual, h, recv

    def _splice_generators(self, modname, cls, fn: ast.FunctionDef):
        """`for T in self._gen(args): BODY` over a new generator helper is the helper's body with every `yield v` replaced by
        `T = v; BODY` (the very interleaving a lazily consumed generator has). A comprehension over such a call, in a plain
        assignment or return, is first written as the accumulation loop it abbreviates."""
        for owner in list(ast.walk(fn)):
            for field in ("body", "orelse", "finalbody"):
                blk = getattr(owner, field, None)
                if not (isinstance(blk, list) and blk and isinstance(blk[0], ast.stmt)):
                    continue
                i = 0
                while i < len(blk):
                    st = blk[i]
                    # comprehension over a generator helper -> accumulation loop
                    comp = st.value if isinstance(st, (ast.Assign, ast.Return)) and isinstance(getattr(st, "value", None), ast.ListComp) else None
                    if comp is not None and len(comp.generators) == 1 and isinstance(comp.generators[0].iter, ast.Call) and self._gen_target(modname, cls, fn, comp.generators[0].iter) is not None \
                            and (isinstance(st, ast.Return) or (len(st.targets) == 1 and isinstance(st.targets[0], ast.Name))):
                        self.counter += 1
                        acc = f"_acc__x{self.counter}" if isinstance(st, ast.Return) else st.targets[0].id
                        g = comp.generators[0]
                        app: ast.stmt = ast.Expr(value=ast.Call(func=ast.Attribute(value=ast.Name(id=acc, ctx=ast.Load()), attr="append", ctx=ast.Load()), args=[comp.elt], keywords=[]))
                        for c_ in reversed(g.ifs):
                            app = ast.If(test=c_, body=[app], orelse=[])
                        new = [ast.Assign(targets=[ast.Name(id=acc, ctx=ast.Store())], value=ast.List(elts=[], ctx=ast.Load())),
                               ast.For(target=g.target, iter=g.iter, body=[app], orelse=[], type_comment=None)]
                        if isinstance(st, ast.Return):
                            new.append(ast.Return(value=ast.Name(id=acc, ctx=ast.Load())))
                        for n_ in new:
                            for x in ast.walk(n_):
                                ast.copy_location(x, st)
                            ast.fix_missing_locations(n_)
                        blk[i:i + 1] = new
                        continue
                    if isinstance(st, ast.For) and not st.orelse and isinstance(st.iter, ast.Call) and not any(isinstance(x, (ast.Break, ast.Continue)) for b in st.body for x in ast.walk(b)):
                        t = self._gen_target(modname, cls, fn, st.iter)
                        if t is not None:
                            qual, h, recv = t
                            params = [a.arg for a in h.args.args]
                            defaults = [None] * (len(params) - len(h.args.defaults)) + list(h.args.defaults)
                            binding: Dict[str, ast.expr] = {}
                            pos_params = params
                            if recv is not None:
                                binding[params[0]] = recv
                                pos_params, defaults = params[1:], defaults[1:]
                            ok = len(st.iter.args) <= len(pos_params)
                            for p_, a_ in zip(pos_params, st.iter.args):
                                binding[p_] = a_
                            for kw in st.iter.keywords:
                                if kw.arg in binding or kw.arg not in pos_params:
                                    ok = False
                                else:
                                    binding[kw.arg] = kw.value
                            for p_, d_ in zip(pos_params, defaults):
                                if p_ not in binding:
                                    if d_ is None:
                                        ok = False
                                    else:
                                        binding[p_] = d_
                            if ok:
                                self.counter += 1
                                sfx = f"__x{self.counter}"
                                body = [_clone(b) for b in h.body]
                                if body and isinstance(body[0], ast.Expr) and isinstance(body[0].value, ast.Constant) and isinstance(body[0].value.value, str):
                                    body = body[1:]
                                stored = {x.id for b in body for x in ast.walk(b) if isinstance(x, ast.Name) and isinstance(x.ctx, (ast.Store, ast.Del))}
                                mapping: Dict[str, object] = {}
                                pre: List[ast.stmt] = []
                                for p_, a_ in binding.items():
                                    simple = isinstance(a_, (ast.Name, ast.Constant)) or (isinstance(a_, ast.Attribute) and isinstance(a_.value, ast.Name))
                                    if simple and p_ not in stored:
                                        mapping[p_] = _clone(a_)
                                    else:
                                        mapping[p_] = p_ + sfx
                                        pre.append(ast.Assign(targets=[ast.Name(id=p_ + sfx, ctx=ast.Store())], value=_clone(a_)))
                                for n_ in _locals_of(h):
                                    if n_ not in mapping:
                                        mapping[n_] = n_ + sfx
                                try:
                                    body = [_Renamer(mapping).visit(b) for b in body]
                                except _Unsupported:
                                    body = None
                                if body is not None:
                                    loop_body, target = st.body, st.target

                                    def replace(stmts):
                                        out = []
                                        for b in stmts:
                                            if isinstance(b, ast.Expr) and isinstance(b.value, ast.Yield):
                                                out.append(ast.Assign(targets=[_clone(target)], value=b.value.value))
                                                out.extend(_clone(x) for x in loop_body)
                                                continue
                                            for f2 in ("body", "orelse", "finalbody"):
                                                sub = getattr(b, f2, None)
                                                if isinstance(sub, list) and sub and isinstance(sub[0], ast.stmt):
                                                    setattr(b, f2, replace(sub))
                                            if isinstance(b, ast.Try):
                                                for hd in b.handlers:
                                                    hd.body = replace(hd.body)
                                            out.append(b)
                                        return out
                                    new = pre + replace(body)
                                    for n_ in new:
                                        for x in ast.walk(n_):
                                            ast.copy_location(x, st)
                                        ast.fix_missing_locations(n_)
                                    blk[i:i + 1] = new
                                    self.expanded_into.setdefault(qual, set()).add(self._current)
                                    continue
                    i += 1

    def _do_function(self, modname, cls, fn: ast.FunctionDef):
        self._current = f"{modname}:{cls.name}.{fn.name}" if cls is not None else f"{modname}:{fn.name}"
        self._splice_generators(modname, cls, fn)
        self._inline_expression_helpers(modname, cls, fn)
        self._rewrite_block(modname, cls, fn, fn.body, _locals_of(fn), 0, "return")
        if _spread_starred_tuples(fn):
            self._inline_expression_helpers(modname, cls, fn)
            self._rewrite_block(modname, cls, fn, fn.body, _locals_of(fn), 0, "return")


def _spread_starred_tuples(fn: ast.FunctionDef) -> int:
    """`f(*t)` where `t` is a local bound once, to a tuple display (or to a tuple of temporaries an expansion left), and read only
    there: `f(a, b)`."""
    n = 0
    binds: Dict[str, List[ast.Assign]] = {}
    loads: Dict[str, int] = {}
    for x in ast.walk(fn):
        if isinstance(x, ast.Assign) and len(x.targets) == 1 and isinstance(x.targets[0], ast.Name):
            binds.setdefault(x.targets[0].id, []).append(x)
        elif isinstance(x, ast.Name) and isinstance(x.ctx, ast.Load):
            loads[x.id] = loads.get(x.id, 0) + 1
    stores = {}
    for x in ast.walk(fn):
        if isinstance(x, ast.Name) and isinstance(x.ctx, (ast.Store, ast.Del)):
            stores[x.id] = stores.get(x.id, 0) + 1
    for c in [x for x in ast.walk(fn) if isinstance(x, ast.Call)]:
        for i, a in enumerate(list(c.args)):
            if isinstance(a, ast.Starred):
                v = a.value
                if isinstance(v, ast.Name) and len(binds.get(v.id, [])) == 1 and stores.get(v.id) == 1 and loads.get(v.id) == 1 and isinstance(binds[v.id][0].value, ast.Tuple):
                    v = binds[v.id][0].value
                if isinstance(v, ast.Tuple) and not any(isinstance(e_, ast.Starred) for e_ in v.elts):
                    c.args[i:i + 1] = [_clone(e_) for e_ in v.elts]
                    n += 1
                    break
    return n


def _attr_writers(cls: ast.ClassDef) -> Dict[str, Optional[Set[str]]]:
    """method name -> attributes of self it may rebind (directly, or through self.<method>() calls inside the class);
    None = unknown (it calls a self-method this class does not define, or uses setattr / __dict__)."""
    direct: Dict[str, Optional[Set[str]]] = {}
    calls: Dict[str, Set[str]] = {}
    methods = {m.name: m for m in cls.body if isinstance(m, ast.FunctionDef)}
    for name, m in methods.items():
        me = m.args.args[0].arg if m.args.args else None
        w: Optional[Set[str]] = set()
        cs: Set[str] = set()
        for x in ast.walk(m):
            if isinstance(x, ast.Attribute) and isinstance(x.ctx, (ast.Store, ast.Del)) and isinstance(x.value, ast.Name) and x.value.id == me:
                if w is not None:
                    w.add(x.attr)
            elif isinstance(x, ast.Call) and isinstance(x.func, ast.Name) and x.func.id in ("setattr", "delattr", "vars"):
                w = None
            elif isinstance(x, ast.Attribute) and x.attr == "__dict__":
                w = None
            elif isinstance(x, ast.Call) and isinstance(x.func, ast.Attribute) and isinstance(x.func.value, ast.Name) and x.func.value.id == me:
                cs.add(x.func.attr)
        direct[name], calls[name] = w, cs
    out: Dict[str, Optional[Set[str]]] = {}

    def closure(name, seen):
        if name not in methods:
            return None
        if name in seen:
            return set()
        acc = direct[name]
        if acc is None:
            return None
        acc = set(acc)
        for c in calls[name]:
            r = closure(c, seen | {name})
            if r is None:
                return None
            acc |= r
        return acc
    for name in methods:
        out[name] = closure(name, frozenset())
    return out


def collapse_copies(tree: ast.AST):
    """`t = E` directly followed by `d = t`, with `t` stored once and loaded once in the function (a temporary that only
    carries a value to its name - what expanding a helper's `return` leaves behind): rewritten to `d = E`."""
    for fn in [n for n in ast.walk(tree) if isinstance(n, ast.FunctionDef)]:
        loads: Dict[str, int] = {}
        stores: Dict[str, int] = {}
        for x in ast.walk(fn):
            if isinstance(x, ast.Name):
                d_ = loads if isinstance(x.ctx, ast.Load) else stores
                d_[x.id] = d_.get(x.id, 0) + 1
            elif isinstance(x, ast.arg):
                stores[x.arg] = stores.get(x.arg, 0) + 1
        for owner in ast.walk(fn):
            for field in ("body", "orelse", "finalbody"):
                blk = getattr(owner, field, None)
                if not (isinstance(blk, list) and blk and isinstance(blk[0], ast.stmt)):
                    continue
                i = 0
                while i + 1 < len(blk):
                    a, b = blk[i], blk[i + 1]
                    if (isinstance(a, ast.Assign) and len(a.targets) == 1 and isinstance(a.targets[0], ast.Name) and isinstance(b, ast.Assign) and len(b.targets) == 1 and isinstance(b.value, ast.Name)
                            and b.value.id == a.targets[0].id and stores.get(b.value.id) == 1 and loads.get(b.value.id) == 1 and isinstance(b.targets[0], ast.Name)):
                        blk[i:i + 2] = [ast.copy_location(ast.Assign(targets=b.targets, value=a.value), a)]
                        ast.fix_missing_locations(blk[i])
                        continue
                    i += 1


_KNOWN_CONST = None


def _new_constants_of(m) -> Dict[str, ast.AST]:
    """name -> fully resolved literal (no names left) of the module-level constants of m that are new to the reviewed tree."""
    global _KNOWN_CONST
    if _KNOWN_CONST is None:
        try:
            with open(os.path.join(_HERE, "known_constants.json")) as fh:
                _KNOWN_CONST = json.load(fh)
        except OSError:
            _KNOWN_CONST = {}
    if m.relpath not in _KNOWN_CONST:
        return {}
    known = set(_KNOWN_CONST.get(m.relpath, ()))
    binds: Dict[str, List[ast.AST]] = {}
    for st in m.tree.body:
        if isinstance(st, ast.Assign) and len(st.targets) == 1 and isinstance(st.targets[0], ast.Name):
            binds.setdefault(st.targets[0].id, []).append(st.value)
        elif isinstance(st, ast.AnnAssign) and isinstance(st.target, ast.Name) and st.value is not None:
            binds.setdefault(st.target.id, []).append(st.value)
    glob: Set[str] = set()
    for x in ast.walk(m.tree):
        if isinstance(x, (ast.Global, ast.Nonlocal)):
            glob |= set(x.names)

    def resolve(v, seen=()):
        if isinstance(v, ast.Constant):
            return _clone(v)
        if isinstance(v, (ast.Tuple, ast.List)):
            es = [resolve(e_, seen) for e_ in v.elts]
            return None if any(e_ is None for e_ in es) else type(v)(elts=es, ctx=ast.Load())
        if isinstance(v, ast.UnaryOp) and isinstance(v.op, (ast.USub, ast.UAdd)):
            o = resolve(v.operand, seen)
            return None if o is None else ast.UnaryOp(op=v.op, operand=o)
        if isinstance(v, ast.BinOp) and isinstance(v.op, (ast.Add, ast.Sub, ast.Mult, ast.Div, ast.FloorDiv, ast.Pow)):
            l_, r_ = resolve(v.left, seen), resolve(v.right, seen)
            return None if l_ is None or r_ is None else ast.BinOp(left=l_, op=v.op, right=r_)
        if isinstance(v, ast.Name) and v.id in binds and len(binds[v.id]) == 1 and v.id not in seen and v.id not in glob:
            return resolve(binds[v.id][0], seen + (v.id,))
        if isinstance(v, ast.Call) and (isinstance(v.func, ast.Name) or (isinstance(v.func, ast.Attribute) and _pure_path(v.func))) and not any(isinstance(a_, ast.Starred) for a_ in v.args) \
                and not any(k_.arg is None for k_ in v.keywords):
            # a value object built from literals (datetime(1800, 1, 1), timedelta(days=8), BDay(2)): the same value wherever it is built;
            # mutable containers are not constants
            root_ = v.func
            while isinstance(root_, ast.Attribute):
                root_ = root_.value
            fname_ = v.func.id if isinstance(v.func, ast.Name) else v.func.attr
            if fname_ not in ("list", "dict", "set", "defaultdict", "deque", "OrderedDict", "bytearray", "open", "getLogger", "Lock", "RLock", "count", "iter") and root_.id not in binds:
                as_ = [resolve(a_, seen) for a_ in v.args]
                ks_ = [resolve(k_.value, seen) for k_ in v.keywords]
                if all(x is not None for x in as_ + ks_):
                    return ast.Call(func=_clone(v.func), args=as_, keywords=[ast.keyword(arg=k_.arg, value=kv) for k_, kv in zip(v.keywords, ks_)])
        if isinstance(v, ast.Lambda) and not v.args.defaults and not v.args.kw_defaults and not v.args.vararg and not v.args.kwarg:
            # a lambda over its own parameters and imported / builtin names (a table of predicates)
            own = {a.arg for a in v.args.args}
            free = {x.id for x in ast.walk(v.body) if isinstance(x, ast.Name) and isinstance(x.ctx, ast.Load)} - own
            if not (free & set(binds)) and not any(isinstance(x, (ast.Lambda, ast.NamedExpr, ast.Yield, ast.Await)) for x in ast.walk(v.body)):
                return _clone(v)
        return None
    out = {}
    for name, vs in binds.items():
        if name in known or len(vs) != 1 or name in glob or name.startswith("__"):
            continue
        r_ = resolve(vs[0])
        if r_ is not None:
            out[name] = r_
    return out


def inline_new_constants(m, modules=None) -> int:
    """A module-level `NAME = <literal>` (number, string, None, tuple / list of such, arithmetic over such and over other
    module constants) whose NAME the reviewed tree does not have (sa/known_constants.json), bound once and never declared
    global: its uses are replaced by the literal ("magic value hoisted into a named constant" is the same program)."""
    consts: Dict[str, ast.AST] = dict(_new_constants_of(m))
    # constants of other modules of the package, imported by name
    if modules:
        is_pkg = m.path.endswith("__init__.py")
        for local, (fq, _stmt) in import_bindings(m.tree, m.name, is_pkg).items():
            if "." in fq:
                mod_, nm_ = fq.rsplit(".", 1)
                om = modules.get(mod_)
                if om is not None and om is not m:
                    oc = _new_constants_of(om)
                    if nm_ in oc and local not in consts:
                        consts[local] = oc[nm_]
    if not consts:
        return 0
    count = [0]

    class R(ast.NodeTransformer):
        def __init__(self):
            self.shadow: List[Set[str]] = [set()]

        def visit_FunctionDef(self, node):
            names = {a.arg for a in node.args.args + node.args.kwonlyargs + node.args.posonlyargs}
            for a in (node.args.vararg, node.args.kwarg):
                if a is not None:
                    names.add(a.arg)
            for x in ast.walk(node):
                if isinstance(x, ast.Name) and isinstance(x.ctx, (ast.Store, ast.Del)):
                    names.add(x.id)
                elif isinstance(x, ast.arg):
                    names.add(x.arg)
            node.args.defaults = [self.visit(d) for d in node.args.defaults]
            node.args.kw_defaults = [self.visit(d) if d is not None else None for d in node.args.kw_defaults]
            self.shadow.append(self.shadow[-1] | names)
            node.body = [self.visit(b) for b in node.body]
            self.shadow.pop()
            return node

        def visit_Lambda(self, node):
            self.shadow.append(self.shadow[-1] | {a.arg for a in node.args.args + node.args.kwonlyargs})
            self.generic_visit(node)
            self.shadow.pop()
            return node

        def visit_Name(self, node):
            if isinstance(node.ctx, ast.Load) and node.id in consts and node.id not in self.shadow[-1]:
                count[0] += 1
                new = _clone(consts[node.id])
                for x in ast.walk(new):
                    ast.copy_location(x, node)
                return self.visit(new) if not isinstance(new, ast.Constant) else new
            return node
    r = R()
    new_body = []
    for st in m.tree.body:
        if isinstance(st, (ast.Assign, ast.AnnAssign)) and any(isinstance(t, ast.Name) and t.id in consts for t in (st.targets if isinstance(st, ast.Assign) else [st.target])):
            st.value = r.visit(st.value)
            new_body.append(st)
        else:
            new_body.append(r.visit(st))
    m.tree.body = new_body
    ast.fix_missing_locations(m.tree)
    return count[0]


_KNOWN_SIGS = None


def _is_literal_default(d) -> bool:
    return isinstance(d, ast.Constant) or (isinstance(d, (ast.Tuple, ast.List, ast.Dict)) and not (getattr(d, "elts", None) or getattr(d, "keys", None))) \
        or (isinstance(d, ast.UnaryOp) and isinstance(d.operand, ast.Constant))


class _SubstName(ast.NodeTransformer):
    def __init__(self, name, value):
        self.name, self.value = name, value

    def visit_Name(self, n):
        if n.id == self.name and isinstance(n.ctx, ast.Load):
            return ast.copy_location(_clone(self.value), n)
        return n


def _propagate_until_store(blk: list, pn: str, d: ast.AST) -> bool:
    """The parameter pn holds its default d on entry: walk the statements of blk in order, putting d for pn and folding the `if`s
    that this decides (taking the live arm), up to the first statement that may re-bind pn. Returns False once pn was re-bound."""
    i = 0
    while i < len(blk):
        st = blk[i]
        if isinstance(st, ast.If):
            t = _SubstName(pn, d).visit(_clone(st.test))
            tv = _const_truth(t)
            if tv is not None and not any(isinstance(x, ast.Name) and x.id == pn and isinstance(x.ctx, ast.Store) for x in ast.walk(st.test)):
                live = st.body if tv else st.orelse
                blk[i:i + 1] = live or [ast.copy_location(ast.Pass(), st)]
                if live and isinstance(live[-1], (ast.Return, ast.Raise, ast.Continue, ast.Break)):
                    del blk[i + len(live):]
                continue        # the live arm's statements are examined in turn
        if any(isinstance(x, ast.Name) and x.id == pn and isinstance(x.ctx, (ast.Store, ast.Del)) for x in ast.walk(st)) or isinstance(st, (ast.For, ast.While, ast.Try, ast.With)) and \
                any(isinstance(x, ast.Name) and x.id == pn for x in ast.walk(st)):
            return False
        blk[i] = _SubstName(pn, d).visit(st)
        i += 1
    return True


def bind_new_parameters(modules) -> int:
    """Additive API: a reviewed function (sa/known_signatures.json) that has gained a parameter with a literal default, which
    every call inside the package either omits or passes as that same default (literally, or by forwarding its own new
    parameter of the same default), is analysed with the parameter bound to the default - the reviewed API, which is what the
    properties are stated for. The forwarded arguments are dropped from the call sites. Anything else is left alone."""
    global _KNOWN_SIGS
    if _KNOWN_SIGS is None:
        try:
            with open(os.path.join(_HERE, "known_signatures.json")) as fh:
                _KNOWN_SIGS = json.load(fh)
        except OSError:
            _KNOWN_SIGS = {}
    # 1. candidates: (function node, qual, param, default, position or None)
    cands = []
    for modname, m in modules.items():
        if modname.startswith("_fixture"):
            continue
        for node in m.tree.body:
            defs = [(f"{modname}:{node.name}", node)] if isinstance(node, ast.FunctionDef) else \
                [(f"{modname}:{node.name}.{s_.name}", s_) for s_ in node.body if isinstance(s_, ast.FunctionDef)] if isinstance(node, ast.ClassDef) else []
            for qual, fn in defs:
                old = _KNOWN_SIGS.get(qual)
                if old is None:
                    old = []        # a function new to the reviewed tree: all of its defaulted parameters are candidates
                if fn.args.vararg or fn.args.kwarg:
                    continue
                pos = fn.args.posonlyargs + fn.args.args
                pdefs = [None] * (len(pos) - len(fn.args.defaults)) + list(fn.args.defaults)
                for i_, (a, d) in enumerate(zip(pos, pdefs)):
                    if a.arg not in old and d is not None and _is_literal_default(d) and all(b.arg not in old for b in pos[i_:]):      # new trailing positional-or-keyword parameter
                        is_method = "." in qual.split(":")[1] and not any(ast.unparse(x) == "staticmethod" for x in fn.decorator_list)
                        cands.append((fn, qual, a.arg, d, i_ - (1 if is_method else 0)))
                for a, d in zip(fn.args.kwonlyargs, fn.args.kw_defaults):
                    if a.arg not in old and d is not None and _is_literal_default(d):
                        cands.append((fn, qual, a.arg, d, None))
    if not cands:
        return 0
    by_name: Dict[str, list] = {}
    for c in cands:
        by_name.setdefault(c[0].name, []).append(c)
        if c[0].name == "__init__" and "." in c[1].split(":")[1]:
            by_name.setdefault(c[1].split(":")[1].split(".")[0], []).append(c)      # `C(...)` calls C.__init__
    new_params_of = {}
    for fn, qual, pn, d, posn in cands:
        new_params_of.setdefault(id(fn), {})[pn] = d
    # 2. every call by that name in the package passes the default (or forwards an own new parameter with the same default)
    ok = {(id(c[0]), c[2]): True for c in cands}
    sites = []
    forwards = []
    # class families by simple name: a call through self / super() / cls reaches only the enclosing class's relatives
    bases_of: Dict[str, Set[str]] = {}
    cls_of_fn: Dict[int, str] = {}
    for modname, m in modules.items():
        for node in ast.walk(m.tree):
            if isinstance(node, ast.ClassDef):
                bases_of.setdefault(node.name, set()).update(ast.unparse(b).split(".")[-1] for b in node.bases)
                for s_ in node.body:
                    if isinstance(s_, ast.FunctionDef):
                        cls_of_fn[id(s_)] = node.name

    def _ancestors(c):
        seen, st_ = set(), [c]
        while st_:
            x = st_.pop()
            for b in bases_of.get(x, ()):
                if b not in seen:
                    seen.add(b)
                    st_.append(b)
        return seen

    def _related(a, b):
        return a == b or a in _ancestors(b) or b in _ancestors(a)
    for modname, m in modules.items():
        for fn_ in [n for n in ast.walk(m.tree) if isinstance(n, ast.FunctionDef)] + [m.tree]:
            own = new_params_of.get(id(fn_), {})
            nodes = ast.walk(fn_) if fn_ is not m.tree else iter([x for st in m.tree.body if not isinstance(st, (ast.FunctionDef, ast.ClassDef)) for x in ast.walk(st)])
            for c in nodes:
                if not isinstance(c, ast.Call):
                    continue
                nm = c.func.attr if isinstance(c.func, ast.Attribute) else (c.func.id if isinstance(c.func, ast.Name) else None)
                for cand in by_name.get(nm, ()):
                    fn, qual, pn, d, posn = cand
                    here = cls_of_fn.get(id(fn_))
                    recv = ast.unparse(c.func.value) if isinstance(c.func, ast.Attribute) else None
                    if here is not None and recv in ("self", "super()", "cls") and "." in qual.split(":")[1] and not _related(here, qual.split(":")[1].split(".")[0]):
                        continue        # e.g. IEvent's `self.__init__(*args, **kwargs)` is not a call of TradingEnv.__init__
                    explicit = recv in bases_of and "." in qual.split(":")[1] and nm == fn.name        # `Base.__init__(self, ...)`
                    if explicit:
                        cc_ = qual.split(":")[1].split(".")[0]
                        if not (cc_ == recv or cc_ in _ancestors(recv)):
                            continue
                        if posn is not None:
                            posn = posn + 1      # self is passed explicitly
                    passed = [k.value for k in c.keywords if k.arg == pn]
                    # a positional call that the candidate's reviewed signature could not have taken, but that fits the reviewed
                    # signature of another function of that name (`feature.reset(exchange, action_space, broker)` is not
                    # `TradingEnv.reset(fold, episode_length)`): not a call of the candidate
                    old_n = len([a_ for a_ in _KNOWN_SIGS.get(qual, []) if a_ not in ("self", "cls")])
                    if posn is not None and len(c.args) > max(posn, old_n) and not c.keywords and qual in _KNOWN_SIGS and any(
                            q2 != qual and q2.split(":")[1].split(".")[-1] == nm and len([a_ for a_ in sig2 if a_ not in ("self", "cls")]) >= len(c.args) for q2, sig2 in _KNOWN_SIGS.items()):
                        continue
                    if posn is not None and len(c.args) > posn and not any(isinstance(a_, ast.Starred) for a_ in c.args):
                        passed.append(c.args[posn])
                    if any(isinstance(a_, ast.Starred) for a_ in c.args):
                        ok[(id(fn), pn)] = False
                    if any(k.arg is None for k in c.keywords):
                        # `f(**options)`: under the reviewed usage the mapping cannot carry an option that did not exist - unless the
                        # enclosing function itself spells the key (a display / dict(...) / subscript store with that name)
                        scope = fn_ if fn_ is not m.tree else None
                        spelled = scope is None or any((isinstance(x, ast.Constant) and x.value == pn and not (isinstance(getattr(x, "_doc", None), bool)))
                                                       or (isinstance(x, ast.keyword) and x.arg == pn and x not in c.keywords) for x in ast.walk(scope)
                                                       if not (isinstance(x, ast.Constant) and isinstance(x.value, str) and len(x.value) > 60))
                        if spelled:
                            ok[(id(fn), pn)] = False
                    for v in passed:
                        same = ast.dump(v) == ast.dump(d) or (isinstance(v, ast.Name) and v.id in own and ast.dump(own[v.id]) == ast.dump(d))
                        if not same:
                            ok[(id(fn), pn)] = False
                        else:
                            sites.append((c, cand))
                            if not ast.dump(v) == ast.dump(d):
                                forwards.append(((id(fn), pn), (id(fn_), v.id)))      # bound only if the forwarded parameter is
    changed = True
    while changed:
        changed = False
        for tgt, src in forwards:
            if ok.get(tgt) and not ok.get(src, False):
                ok[tgt] = False
                changed = True
    n = 0
    for fn, qual, pn, d, posn in cands:
        if not ok[(id(fn), pn)]:
            continue
        n += 1
        stored = any(isinstance(x, ast.Name) and x.id == pn and isinstance(x.ctx, (ast.Store, ast.Del)) for st in fn.body for x in ast.walk(st))
        nested = any(isinstance(x, (ast.FunctionDef, ast.Lambda)) and x is not fn for x in ast.walk(fn))
        if stored and not nested:
            _propagate_until_store(fn.body, pn, d)
        if stored or nested:
            k = 1 if fn.body and isinstance(fn.body[0], ast.Expr) and isinstance(fn.body[0].value, ast.Constant) and isinstance(fn.body[0].value.value, str) else 0
            if len(fn.body) > k and isinstance(fn.body[k], ast.Assign) and ast.unparse(fn.body[k]) == f"{pn} = {ast.unparse(d)}":
                continue        # bound in an earlier pass
            st = ast.Assign(targets=[ast.Name(id=pn, ctx=ast.Store())], value=_clone(d))
            ast.copy_location(st, fn.body[k] if len(fn.body) > k else fn)
            ast.fix_missing_locations(st)
            fn.body.insert(k, st)
        else:
            for node in [x for st in fn.body for x in ast.walk(st)]:
                for f_, val in ast.iter_fields(node):
                    if isinstance(val, ast.Name) and val.id == pn and isinstance(val.ctx, ast.Load):
                        setattr(node, f_, ast.copy_location(_clone(d), val))
                    elif isinstance(val, list):
                        for i_, v in enumerate(val):
                            if isinstance(v, ast.Name) and v.id == pn and isinstance(v.ctx, ast.Load):
                                val[i_] = ast.copy_location(_clone(d), v)
    # 3. drop the forwarded / explicit defaults at the call sites
    for c, (fn, qual, pn, d, posn) in sites:
        if not ok[(id(fn), pn)]:
            continue
        c.keywords = [k for k in c.keywords if k.arg != pn]
        if posn is not None and len(c.args) == posn + 1:
            c.args = c.args[:posn]
    return n


def fold_constant_attributes(modules) -> int:
    """An attribute that every store in the package sets to one and the same literal (after new options were bound to their
    defaults: `self._record = bool(False)`, class-level `_record = False`) holds that literal: its reads through `self` are
    replaced by it, so that the branches it switches off fold away. Attributes stored anywhere with anything else are left alone."""
    def lit(v):
        if isinstance(v, ast.Call) and isinstance(v.func, ast.Name) and v.func.id == "bool" and len(v.args) == 1 and not v.keywords and isinstance(v.args[0], ast.Constant):
            return ast.Constant(value=bool(v.args[0].value))
        if isinstance(v, ast.Constant) and (v.value is None or isinstance(v.value, (bool, int, float, str))):
            return v
        return None
    stores: Dict[str, list] = {}
    # functions new to the inventory whose name nothing else in the package mentions: added API surface, outside the reviewed usage
    known = known_functions()
    new_api_nodes = set()
    if known:
        cand_fns = []
        for modname, m in modules.items():
            if modname.startswith("_fixture"):
                continue
            for node in m.tree.body:
                if isinstance(node, ast.ClassDef):
                    for s_ in node.body:
                        if isinstance(s_, ast.FunctionDef) and f"{modname}:{node.name}.{s_.name}" not in known and not s_.name.startswith("__"):
                            cand_fns.append(s_)
        for fn in cand_fns:
            inside = {id(x) for x in ast.walk(fn)}
            mentioned = False
            for modname, m in modules.items():
                for x in ast.walk(m.tree):
                    if id(x) in inside:
                        continue
                    if (isinstance(x, ast.Attribute) and x.attr == fn.name) or (isinstance(x, ast.Name) and x.id == fn.name) or (isinstance(x, ast.Constant) and x.value == fn.name):
                        mentioned = True
                        break
                if mentioned:
                    break
            if not mentioned:
                new_api_nodes |= inside
    for modname, m in modules.items():
        for node in ast.walk(m.tree):
            if id(node) in new_api_nodes:
                continue
            tv = []
            if isinstance(node, ast.Assign):
                for t in node.targets:
                    for e in (t.elts if isinstance(t, (ast.Tuple, ast.List)) else [t]):
                        tv.append((e, node.value if not isinstance(t, (ast.Tuple, ast.List)) else None))
            elif isinstance(node, ast.AnnAssign) and node.value is not None:
                tv.append((node.target, node.value))
            elif isinstance(node, ast.AugAssign):
                tv.append((node.target, None))
            elif isinstance(node, (ast.For, ast.With, ast.Delete, ast.NamedExpr)):
                for x in ast.walk(node):
                    if isinstance(x, ast.Attribute) and isinstance(x.ctx, (ast.Store, ast.Del)):
                        stores.setdefault(x.attr, []).append(None)
            for t, v in tv:
                if isinstance(t, ast.Attribute):
                    stores.setdefault(t.attr, []).append(lit(v) if v is not None else None)
                elif isinstance(t, ast.Name) and isinstance(getattr(node, "_cls_level", None), bool):
                    pass
        for node in ast.walk(m.tree):
            if isinstance(node, ast.ClassDef):
                for s_ in node.body:
                    if isinstance(s_, ast.Assign):
                        for t in s_.targets:
                            if isinstance(t, ast.Name):
                                stores.setdefault(t.id, []).append(lit(s_.value))
                    elif isinstance(s_, ast.AnnAssign) and isinstance(s_.target, ast.Name) and s_.value is not None:
                        stores.setdefault(s_.target.id, []).append(lit(s_.value))
            if isinstance(node, ast.Call) and isinstance(node.func, ast.Name) and node.func.id in ("setattr", "delattr"):
                nm_ = node.args[1] if len(node.args) > 1 else None
                if isinstance(nm_, ast.Constant) and isinstance(nm_.value, str):
                    stores.setdefault(nm_.value, []).append(None)
                elif not (isinstance(nm_, ast.Attribute) and nm_.attr == "__name__"):      # registering a function under its own name (metrics accessors) stores no data attribute
                    return 0
    const = {}
    for a, vs in stores.items():
        if a.startswith("__") or not vs or any(v is None for v in vs):
            continue
        if len({ast.dump(v) for v in vs}) == 1 and any(True for _ in vs):
            const[a] = vs[0]
    # only attributes that are stored through an instance somewhere, or that are new to the reviewed tree (sa/known_attributes.json);
    # a class-level constant of the reviewed tree is reviewed configuration and is left as it is
    try:
        with open(os.path.join(_HERE, "known_attributes.json")) as fh:
            known_attrs = set(json.load(fh))
    except OSError:
        known_attrs = None
    inst = set()
    for modname, m in modules.items():
        for node in ast.walk(m.tree):
            if isinstance(node, ast.Attribute) and isinstance(node.ctx, ast.Store) and node.attr in const:
                inst.add(node.attr)
    if known_attrs is not None:
        inst |= {a for a in const if a not in known_attrs}
    n = 0
    for modname, m in modules.items():
        if modname.startswith("_fixture"):
            continue
        for node in ast.walk(m.tree):
            for f_, val in ast.iter_fields(node):
                vals = val if isinstance(val, list) else [val]
                for i_, v in enumerate(vals):
                    if isinstance(v, ast.Attribute) and isinstance(v.ctx, ast.Load) and v.attr in inst and isinstance(v.value, ast.Name) and v.value.id == "self":
                        r = ast.copy_location(_clone(const[v.attr]), v)
                        if isinstance(val, list):
                            val[i_] = r
                        else:
                            setattr(node, f_, r)
                        n += 1
    return n


def propagate_literal_locals(tree: ast.AST) -> int:
    """`t = None` (a literal, the only binding of t in the function, at its top level, before every use) makes every read of t
    that literal."""
    n = 0
    for fn in [x for x in ast.walk(tree) if isinstance(x, ast.FunctionDef)]:
        if any(isinstance(x, (ast.FunctionDef, ast.Lambda, ast.ClassDef)) and x is not fn for x in ast.walk(fn)):
            continue
        params = {a.arg for a in fn.args.posonlyargs + fn.args.args + fn.args.kwonlyargs} | ({fn.args.vararg.arg} if fn.args.vararg else set()) | ({fn.args.kwarg.arg} if fn.args.kwarg else set())
        stores: Dict[str, int] = {}
        for x in ast.walk(fn):
            if isinstance(x, ast.Name) and isinstance(x.ctx, (ast.Store, ast.Del)):
                stores[x.id] = stores.get(x.id, 0) + 1
            elif isinstance(x, (ast.Global, ast.Nonlocal)):
                for nm in x.names:
                    stores[nm] = 99
        for st in list(fn.body):
            if not (isinstance(st, ast.Assign) and len(st.targets) == 1 and isinstance(st.targets[0], ast.Name) and isinstance(st.value, ast.Constant)
                    and (st.value.value is None or isinstance(st.value.value, (bool, int, float, str)))):
                continue
            nm = st.targets[0].id
            if nm in params or stores.get(nm) != 1:
                continue
            loads = [x for x in ast.walk(fn) if isinstance(x, ast.Name) and x.id == nm and isinstance(x.ctx, ast.Load)]
            if not loads or any(x.lineno <= st.lineno for x in loads):
                continue
            for node in ast.walk(fn):
                for f_, val in ast.iter_fields(node):
                    vals = val if isinstance(val, list) else [val]
                    for i_, v in enumerate(vals):
                        if isinstance(v, ast.Name) and v.id == nm and isinstance(v.ctx, ast.Load):
                            r = ast.copy_location(_clone(st.value), v)
                            if isinstance(val, list):
                                val[i_] = r
                            else:
                                setattr(node, f_, r)
                            n += 1
            fn.body[fn.body.index(st)] = ast.copy_location(ast.Pass(), st)
    return n


_LOG_METHODS = {"debug", "info", "warning", "error", "exception", "critical", "log"}
_LOG_ARG_CALLS = {"len", "repr", "str", "float", "int", "type", "sorted", "list", "tuple", "dict", "set", "abs", "round", "id", "bool"}


def drop_logging(m) -> int:
    """Statements that only emit a log record through a module-level `logging.getLogger(...)` logger - `logger.debug("...", a, b)`,
    and `if logger.isEnabledFor(...):` blocks made of such statements - are dropped, provided their arguments call nothing but
    pure builtins / `.get` / `.format` / `.items` (formatting a record changes nothing the rules read; an argument that calls
    into the package, e.g. a valuation, stays visible)."""
    loggers = set()
    for st in m.tree.body:
        if isinstance(st, ast.Assign) and isinstance(st.value, ast.Call) and ast.unparse(st.value.func) in ("logging.getLogger", "getLogger"):
            loggers |= {t.id for t in st.targets if isinstance(t, ast.Name)}
    if not loggers:
        return 0

    def args_pure(c):
        for a in list(c.args) + [k.value for k in c.keywords]:
            for x in ast.walk(a):
                if isinstance(x, ast.Call):
                    fn = x.func
                    if isinstance(fn, ast.Name) and fn.id in _LOG_ARG_CALLS:
                        continue
                    if isinstance(fn, ast.Attribute) and fn.attr in ("get", "format", "items", "keys", "values", "isoformat", "total_seconds", "join", "copy"):
                        continue
                    return False
                if isinstance(x, (ast.NamedExpr, ast.Await, ast.Yield, ast.YieldFrom)):
                    return False
        return True

    def is_log(st):
        return isinstance(st, ast.Expr) and isinstance(st.value, ast.Call) and isinstance(st.value.func, ast.Attribute) and st.value.func.attr in _LOG_METHODS \
            and isinstance(st.value.func.value, ast.Name) and st.value.func.value.id in loggers and args_pure(st.value)

    def is_log_block(st):
        if is_log(st) or isinstance(st, ast.Pass):
            return True
        if isinstance(st, ast.If) and not st.orelse and isinstance(st.test, ast.Call) and isinstance(st.test.func, ast.Attribute) and st.test.func.attr == "isEnabledFor" \
                and isinstance(st.test.func.value, ast.Name) and st.test.func.value.id in loggers:
            return all(is_log_block(b) for b in st.body)
        return False
    n = 0
    for owner in ast.walk(m.tree):
        for field in ("body", "orelse", "finalbody"):
            blk = getattr(owner, field, None)
            if not (isinstance(blk, list) and blk and isinstance(blk[0], ast.stmt)):
                continue
            keep = [st for st in blk if isinstance(st, ast.Pass) or not is_log_block(st)]
            if len(keep) != len(blk):
                n += len(blk) - len(keep)
                blk[:] = keep or [ast.copy_location(ast.Pass(), blk[0])]      # a block must not become empty
    return n


def drop_reraise_handlers(tree: ast.AST) -> int:
    """`except E: raise` (nothing but the bare re-raise, e.g. once a log line was dropped) handles nothing: the handler goes, and
    a `try` left without handlers or `finally` is its body followed by its `else`."""
    n = 0
    for owner in ast.walk(tree):
        for field in ("body", "orelse", "finalbody"):
            blk = getattr(owner, field, None)
            if not (isinstance(blk, list) and blk and isinstance(blk[0], ast.stmt)):
                continue
            i = 0
            while i < len(blk):
                st = blk[i]
                if isinstance(st, ast.Try) and st.handlers:
                    def only_reraise(h):
                        body = [b for b in h.body if not isinstance(b, ast.Pass)]
                        return len(body) == 1 and isinstance(body[0], ast.Raise) and body[0].exc is None and body[0].cause is None
                    # a re-raising handler may only be dropped when no later handler could have caught what it lets through: drop from the end
                    while st.handlers and only_reraise(st.handlers[-1]):
                        st.handlers.pop()
                        n += 1
                    if not st.handlers and not st.finalbody:
                        blk[i:i + 1] = list(st.body) + list(st.orelse)
                        continue
                i += 1
    return n


# Library calls spelled with their defaults (pandas 3.0 / numpy 2 / gymnasium 1 as installed; signatures read once with
# inspect.signature when this table was written - see DESIGN 19): per method name, the leading parameters that may be given
# by keyword or by position alike, and the keyword arguments whose listed value IS the default. A table of reviewed library
# facts, like the purity tables of the engine: it is consulted only for receivers that are not objects of the package.
_LIB_POSITIONAL = {"reindex": ["index"], "fillna": ["value"], "clip": ["lower", "upper"], "drop": ["labels"], "Box": ["low", "high", "shape", "dtype"]}
_LIB_DEFAULTS = {"union": {"sort": ["None"]}, "ffill": {"axis": ["0", "None"]}, "bfill": {"axis": ["0", "None"]}, "fillna": {"axis": ["0", "None"]}, "clip": {"axis": ["None"]},
                 "drop": {"axis": ["0"]}, "concatenate": {"axis": ["0"]}}


def library_defaults(tree: ast.AST) -> int:
    n = 0
    for c in [x for x in ast.walk(tree) if isinstance(x, ast.Call)]:
        nm = c.func.attr if isinstance(c.func, ast.Attribute) else (c.func.id if isinstance(c.func, ast.Name) else None)
        if nm is None or any(k.arg is None for k in c.keywords) or any(isinstance(a, ast.Starred) for a in c.args):
            continue
        if isinstance(c.func, ast.Attribute) and isinstance(c.func.value, ast.Name) and c.func.value.id in ("self", "cls"):
            continue
        # dtype=np.float64 is dtype=float; x.astype(np.float64) is x.astype(float)
        for k in c.keywords:
            if k.arg == "dtype" and ast.unparse(k.value) in ("np.float64", "numpy.float64"):
                k.value = ast.copy_location(ast.Name(id="float", ctx=ast.Load()), k.value)
                n += 1
        if nm == "astype" and len(c.args) == 1 and ast.unparse(c.args[0]) in ("np.float64", "numpy.float64"):
            c.args[0] = ast.copy_location(ast.Name(id="float", ctx=ast.Load()), c.args[0])
            n += 1
        for kw, vals in _LIB_DEFAULTS.get(nm, {}).items():
            keep = [k for k in c.keywords if not (k.arg == kw and ast.unparse(k.value) in vals)]
            if len(keep) != len(c.keywords):
                c.keywords = keep
                n += 1
        lead = _LIB_POSITIONAL.get(nm)
        if lead:
            while len(c.args) < len(lead):
                want = lead[len(c.args)]
                k = next((k for k in c.keywords if k.arg == want), None)
                if k is None:
                    break
                if nm == "reindex" and any(x.arg in ("labels", "axis", "columns") for x in c.keywords):
                    break
                c.args.append(k.value)
                c.keywords = [x for x in c.keywords if x is not k]
                n += 1
    return n


def drop_default_arguments(modules) -> int:
    """`obj.m(True)` / `obj.m(flag=True)` where every function of the package named `m` declares that parameter with the literal
    default `True` is `obj.m()`: passing a default explicitly is the same call. Only trailing positional arguments and keyword
    arguments are dropped; calls with * / ** are left alone."""
    by_name: Dict[str, List[Tuple[ast.FunctionDef, bool]]] = {}
    for modname, m in modules.items():
        if modname.startswith("_fixture"):
            continue
        for node in m.tree.body:
            if isinstance(node, ast.FunctionDef):
                by_name.setdefault(node.name, []).append((node, False))
            elif isinstance(node, ast.ClassDef):
                for s_ in node.body:
                    if isinstance(s_, ast.FunctionDef):
                        is_m = not any(ast.unparse(d) == "staticmethod" for d in s_.decorator_list)
                        by_name.setdefault(s_.name, []).append((s_, is_m))
    n = 0
    for modname, m in modules.items():
        if modname.startswith("_fixture"):
            continue
        # calls on `self` inside a class resolve to that class's own method when it defines one
        own_of: Dict[int, Dict[str, Tuple[ast.FunctionDef, bool]]] = {}
        for cls_ in [x for x in ast.walk(m.tree) if isinstance(x, ast.ClassDef)]:
            meths = {s_.name: (s_, not any(ast.unparse(d) == "staticmethod" for d in s_.decorator_list)) for s_ in cls_.body if isinstance(s_, ast.FunctionDef)}
            for s_ in cls_.body:
                if isinstance(s_, ast.FunctionDef) and s_.args.args:
                    me_ = s_.args.args[0].arg
                    for x in ast.walk(s_):
                        if isinstance(x, ast.Call) and isinstance(x.func, ast.Attribute) and isinstance(x.func.value, ast.Name) and x.func.value.id == me_ and x.func.attr in meths:
                            own_of[id(x)] = meths
        for c in [x for x in ast.walk(m.tree) if isinstance(x, ast.Call)]:
            if isinstance(c.func, ast.Attribute):
                nm, via_attr = c.func.attr, True
            elif isinstance(c.func, ast.Name):
                nm, via_attr = c.func.id, False
            else:
                continue
            defs = by_name.get(nm)
            if id(c) in own_of:
                defs = [own_of[id(c)][nm]]
            if not defs or nm.startswith("__") or any(isinstance(a_, ast.Starred) for a_ in c.args) or any(k.arg is None for k in c.keywords):
                continue
            if not c.args and not c.keywords:
                continue
            # positional parameter lists (without self for methods called through an attribute) and defaults must agree across all defs
            sigs = []
            for fn, is_m in defs:
                if fn.args.vararg or fn.args.kwarg:
                    sigs = None
                    break
                pos = fn.args.posonlyargs + fn.args.args
                dfl = [None] * (len(pos) - len(fn.args.defaults)) + list(fn.args.defaults)
                if is_m and via_attr:
                    pos, dfl = pos[1:], dfl[1:]
                elif is_m and not via_attr:
                    sigs = None
                    break
                table = {a.arg: d for a, d in zip(pos, dfl)}
                table.update({a.arg: d for a, d in zip(fn.args.kwonlyargs, fn.args.kw_defaults)})
                sigs.append(([a.arg for a in pos], table))
            if not sigs:
                continue

            def default_of(name, keyword=False):
                # a keyword can only be bound by a definition that has a parameter of that name
                ds = [t.get(name) for _, t in sigs if not keyword or name in t]
                if not ds or any(d is None or not _is_literal_default(d) for d in ds) or len({ast.dump(d) for d in ds}) != 1:
                    return None
                return ds[0]
            kept = []
            for k in c.keywords:
                d = default_of(k.arg, keyword=True)
                if d is not None and ast.dump(d) == ast.dump(k.value):
                    n += 1
                    continue
                kept.append(k)
            c.keywords = kept
            while c.args and not c.keywords:
                i = len(c.args) - 1
                names = {ps[i] if i < len(ps) else None for ps, _ in sigs}
                if len(names) != 1 or None in names:
                    break
                d = default_of(next(iter(names)))
                if d is None or ast.dump(d) != ast.dump(c.args[-1]):
                    break
                c.args.pop()
                n += 1
    return n


_EMPTY_CTOR_SAME = {"Weights", "NrContracts", "_Allocation", "cls"}      # X({}) is X(): _Allocation.__init__ reads a missing mapping as an empty one (rules/common REF_ALLOC_INIT checks that constructor)


def _empty_test_subject(test: ast.AST) -> Optional[ast.AST]:
    """K for `not K`, `len(K) == 0`, `not len(K)`"""
    t = test
    if isinstance(t, ast.UnaryOp) and isinstance(t.op, ast.Not):
        t = t.operand
    elif isinstance(t, ast.Compare) and len(t.ops) == 1 and isinstance(t.ops[0], ast.Eq) and isinstance(t.comparators[0], ast.Constant) and t.comparators[0].value == 0 \
            and isinstance(t.left, ast.Call) and isinstance(t.left.func, ast.Name) and t.left.func.id == "len":
        t = t.left
    else:
        return None
    if isinstance(t, ast.Call) and isinstance(t.func, ast.Name) and t.func.id == "len" and len(t.args) == 1 and not t.keywords:
        t = t.args[0]
    if isinstance(t, (ast.Name, ast.Attribute)) and not any(isinstance(x, ast.Call) for x in ast.walk(t)):
        return t
    return None


def _ranges_over(it: ast.AST, k: str) -> bool:
    u = ast.unparse(it)
    return u in (k, f"{k}.items()", f"{k}.keys()", f"{k}.values()", f"list({k})", f"list({k}.items())", f"tuple({k})", f"sorted({k})", f"enumerate({k})", f"enumerate({k}.items())", f"iter({k})")


class _EmptyOut(ast.NodeTransformer):
    """expression under `K is empty`: comprehensions over K become empty displays, locals are replaced by their bindings"""
    def __init__(self, k, env):
        self.k, self.env = k, env

    def visit_Name(self, n):
        if isinstance(n.ctx, ast.Load) and n.id in self.env:
            return _clone(self.env[n.id])
        return n

    def _comp(self, n, empty):
        if len(n.generators) >= 1 and _ranges_over(n.generators[0].iter, self.k):
            return ast.copy_location(empty, n)
        return self.generic_visit(n)

    def visit_DictComp(self, n):
        return self._comp(n, ast.Dict(keys=[], values=[]))

    def visit_ListComp(self, n):
        return self._comp(n, ast.List(elts=[], ctx=ast.Load()))

    def visit_SetComp(self, n):
        return self._comp(n, ast.Call(func=ast.Name(id="set", ctx=ast.Load()), args=[], keywords=[]))

    def visit_GeneratorExp(self, n):
        return self._comp(n, ast.Tuple(elts=[], ctx=ast.Load()))


def _empty_norm(e: ast.AST) -> str:
    class N(ast.NodeTransformer):
        def visit_Call(self, c):
            self.generic_visit(c)
            if isinstance(c.func, ast.Name) and not c.keywords:
                if c.func.id == "dict" and not c.args:
                    return ast.Dict(keys=[], values=[])
                if c.func.id == "list" and (not c.args or (len(c.args) == 1 and isinstance(c.args[0], (ast.List, ast.Tuple)) and not c.args[0].elts)):
                    return ast.List(elts=[], ctx=ast.Load())
                if c.func.id == "tuple" and not c.args:
                    return ast.Tuple(elts=[], ctx=ast.Load())
                if c.func.id in _EMPTY_CTOR_SAME and len(c.args) == 1 and ((isinstance(c.args[0], ast.Dict) and not c.args[0].keys) or (isinstance(c.args[0], (ast.List, ast.Tuple)) and not c.args[0].elts)):
                    return ast.Call(func=c.func, args=[], keywords=[])
            return c
    return ast.unparse(N().visit(_clone(e)))


def _pure_binding(v: ast.AST) -> bool:
    for x in ast.walk(v):
        if isinstance(x, ast.Call):
            if isinstance(x.func, ast.Name) and x.func.id in ("dict", "list", "set", "tuple", "defaultdict") and not x.args and not x.keywords:
                continue
            if ast.unparse(x.func) in ("datetime", "timedelta", "datetime.datetime", "datetime.timedelta", "pd.Timestamp", "pd.Timedelta", "float", "int") and not x.keywords \
                    and all(isinstance(a_, ast.Constant) for a_ in x.args):
                continue        # a value object built from literals
            return False
        if isinstance(x, (ast.Await, ast.Yield, ast.YieldFrom, ast.NamedExpr, ast.Lambda, ast.Subscript)):
            return False
    return True


def drop_empty_fast_paths(tree: ast.AST) -> int:
    """`if not K: return E0` at the top level of a function, where the statements after it - run with K empty - do nothing but
    bind locals to effect-free values, skip loops over K and return a value that is E0 (comprehensions over K being empty):
    the guard is a fast path for the empty collection and is dropped, so that the function reads as its general path."""
    n = 0
    for fn in [x for x in ast.walk(tree) if isinstance(x, ast.FunctionDef)]:
        i = 0
        while i < len(fn.body):
            st = fn.body[i]
            i += 1
            if not (isinstance(st, ast.If) and not st.orelse and len(st.body) == 1 and isinstance(st.body[0], ast.Return)):
                continue
            K = _empty_test_subject(st.test)
            if K is None:
                continue
            k = ast.unparse(K)
            env: Dict[str, ast.AST] = {}
            verdict = None
            for r in fn.body[i:]:
                if (isinstance(r, ast.Expr) and isinstance(r.value, ast.Constant)) or isinstance(r, ast.Pass):
                    continue
                if isinstance(r, ast.Assign) and len(r.targets) == 1 and isinstance(r.targets[0], ast.Name) and r.targets[0].id != k.split(".")[0]:
                    v = _EmptyOut(k, env).visit(_clone(r.value))
                    if not _pure_binding(v):
                        break
                    env[r.targets[0].id] = v
                    continue
                if isinstance(r, ast.AnnAssign) and isinstance(r.target, ast.Name) and r.value is not None and r.target.id != k.split(".")[0]:
                    v = _EmptyOut(k, env).visit(_clone(r.value))
                    if not _pure_binding(v):
                        break
                    env[r.target.id] = v
                    continue
                if isinstance(r, ast.For) and not r.orelse and _ranges_over(r.iter, k):
                    continue
                if isinstance(r, ast.Return):
                    none_ = ast.Constant(value=None)
                    got = _EmptyOut(k, env).visit(_clone(r.value if r.value is not None else none_))
                    e0 = _EmptyOut(k, {}).visit(_clone(st.body[0].value if st.body[0].value is not None else none_))
                    verdict = _empty_norm(got) == _empty_norm(e0)
                    break
                break
            else:
                # fell off the end of the function: returns None
                verdict = st.body[0].value is None or (isinstance(st.body[0].value, ast.Constant) and st.body[0].value.value is None)
            if verdict:
                i -= 1
                del fn.body[i]
                n += 1
    return n


def _const_truth(t):
    neg = False
    while isinstance(t, ast.UnaryOp) and isinstance(t.op, ast.Not):
        t, neg = t.operand, not neg
    if isinstance(t, ast.Constant) and isinstance(t.value, bool):
        return t.value != neg
    if isinstance(t, ast.Constant) and t.value is None:
        return False != neg
    # literal identity tests: `None is None`, `False is not None`, `0 is None`
    if isinstance(t, ast.Compare) and len(t.ops) == 1 and isinstance(t.ops[0], (ast.Is, ast.IsNot)) and isinstance(t.left, ast.Constant) and isinstance(t.comparators[0], ast.Constant) \
            and (t.left.value is None or t.comparators[0].value is None):
        same = t.left.value is None and t.comparators[0].value is None
        return (same if isinstance(t.ops[0], ast.Is) else not same) != neg
    # `False and X`, `p and False` (p without calls), `True or X`: decided by the literal
    if isinstance(t, ast.BoolOp):
        is_and = isinstance(t.op, ast.And)
        pure_so_far = True
        all_neutral = True
        for v in t.values:
            tv = _const_truth(v)
            if tv is not None and tv == (not is_and) and pure_so_far:
                return (not is_and) != neg
            if tv is None or tv != is_and:
                all_neutral = False
            if any(isinstance(x, (ast.Call, ast.NamedExpr, ast.Await, ast.Yield, ast.YieldFrom)) for x in ast.walk(v)):
                pure_so_far = False
        if all_neutral:
            return is_and != neg
    return None


def fold_constant_tests(tree: ast.AST):
    """`if True:` / `if not False:` ... (a literal flag, typically a helper's boolean parameter bound at the call site by an
    expansion): only the live arm remains; `A if True else B` is A."""
    truth = _const_truth
    for owner in ast.walk(tree):
        for field in ("body", "orelse", "finalbody"):
            blk = getattr(owner, field, None)
            if not (isinstance(blk, list) and blk and isinstance(blk[0], ast.stmt)):
                continue
            i = 0
            while i < len(blk):
                st = blk[i]
                if isinstance(st, ast.If):
                    tv = truth(st.test)
                    if tv is not None:
                        live = st.body if tv else st.orelse
                        blk[i:i + 1] = live or [ast.copy_location(ast.Pass(), st)]
                        # what follows an arm that always leaves is dead now
                        if live and isinstance(live[-1], (ast.Return, ast.Raise, ast.Continue, ast.Break)):
                            del blk[i + len(live):]
                        continue
                i += 1
    for node in ast.walk(tree):
        for f_, val in ast.iter_fields(node):
            vals = val if isinstance(val, list) else [val]
            for k, v in enumerate(vals):
                if isinstance(v, ast.IfExp):
                    tv = truth(v.test)
                    if tv is not None:
                        new = v.body if tv else v.orelse
                        if isinstance(val, list):
                            val[k] = new
                        else:
                            setattr(node, f_, new)


def spread_keyword_dicts(tree: ast.AST) -> int:
    """`f(**{"a": x, "b": y})` / `f(**dict(a=x, b=y))`, also through a local bound once to such a display and read only there,
    is `f(a=x, b=y)` (same evaluation order)."""
    n = 0
    for fn in [x for x in ast.walk(tree) if isinstance(x, ast.FunctionDef)]:
        binds: Dict[str, List[ast.Assign]] = {}
        loads: Dict[str, int] = {}
        stores: Dict[str, int] = {}
        for x in ast.walk(fn):
            if isinstance(x, ast.Assign) and len(x.targets) == 1 and isinstance(x.targets[0], ast.Name):
                binds.setdefault(x.targets[0].id, []).append(x)
            if isinstance(x, ast.Name):
                d_ = loads if isinstance(x.ctx, ast.Load) else stores
                d_[x.id] = d_.get(x.id, 0) + 1

        def as_keywords(v):
            if (isinstance(v, ast.Dict) and not v.keys) or (isinstance(v, ast.Call) and isinstance(v.func, ast.Name) and v.func.id == "dict" and not v.args and not v.keywords):
                return []        # f(**{}) is f()
            if isinstance(v, ast.Dict) and v.keys and all(isinstance(k, ast.Constant) and isinstance(k.value, str) and k.value.isidentifier() for k in v.keys):
                return [ast.keyword(arg=k.value, value=val) for k, val in zip(v.keys, v.values)]
            if isinstance(v, ast.Call) and isinstance(v.func, ast.Name) and v.func.id == "dict" and not v.args and v.keywords and all(k.arg is not None for k in v.keywords):
                return [ast.keyword(arg=k.arg, value=k.value) for k in v.keywords]
            return None
        for c in [x for x in ast.walk(fn) if isinstance(x, ast.Call)]:
            for i, k in enumerate(list(c.keywords)):
                if k.arg is not None:
                    continue
                v = k.value
                drop = None
                if isinstance(v, ast.Name) and len(binds.get(v.id, [])) == 1 and stores.get(v.id) == 1 and loads.get(v.id) == 1:
                    drop = binds[v.id][0]
                    v = drop.value
                kws = as_keywords(v)
                if kws is None or {x.arg for x in kws} & {x.arg for x in c.keywords if x.arg}:
                    continue
                c.keywords[i:i + 1] = kws
                if drop is not None:
                    for owner in ast.walk(fn):
                        for field in ("body", "orelse", "finalbody"):
                            blk = getattr(owner, field, None)
                            if isinstance(blk, list) and drop in blk:
                                blk[blk.index(drop)] = ast.copy_location(ast.Pass(), drop)
                n += 1
                break
    return n


def plain_assignments(tree: ast.AST):
    """Inside functions, `x: T = v` is `x = v` (and a bare `x: T` is nothing): annotations of locals do not run."""
    for fn in [n for n in ast.walk(tree) if isinstance(n, ast.FunctionDef)]:
        for owner in ast.walk(fn):
            for field in ("body", "orelse", "finalbody"):
                blk = getattr(owner, field, None)
                if not (isinstance(blk, list) and blk and isinstance(blk[0], ast.stmt)):
                    continue
                for i, st in enumerate(blk):
                    if isinstance(st, ast.AnnAssign) and isinstance(st.target, ast.Name):
                        blk[i] = ast.copy_location(ast.Assign(targets=[st.target], value=st.value), st) if st.value is not None else ast.copy_location(ast.Pass(), st)
                        ast.fix_missing_locations(blk[i])


def split_chained_assignments(tree: ast.AST):
    """`a = self.b = E` (plain names and attribute paths only) is `self.b = E; a = self.b`: every target is bound to the one
    object E evaluates to; the attribute (if any) is written first and the others are read back from it."""
    for owner in ast.walk(tree):
        for field in ("body", "orelse", "finalbody"):
            blk = getattr(owner, field, None)
            if not (isinstance(blk, list) and blk and isinstance(blk[0], ast.stmt)):
                continue
            i = 0
            while i < len(blk):
                st = blk[i]
                if (isinstance(st, ast.Assign) and len(st.targets) == 1 and isinstance(st.targets[0], ast.Tuple) and isinstance(st.value, ast.Tuple) and len(st.targets[0].elts) == len(st.value.elts)
                        and all(isinstance(t, ast.Name) for t in st.targets[0].elts) and all(isinstance(v, (ast.Name, ast.Constant)) or (isinstance(v, ast.Attribute) and _pure_path(v)) for v in st.value.elts)):
                    # a, b = self.x, self.y (plain paths / names / constants on the right, none of them a target): two assignments
                    tnames = {t.id for t in st.targets[0].elts}
                    rnames = {x.id for v in st.value.elts for x in ast.walk(v) if isinstance(x, ast.Name)}
                    if not (tnames & rnames) and len(tnames) == len(st.targets[0].elts):
                        new = [ast.copy_location(ast.Assign(targets=[t], value=v), st) for t, v in zip(st.targets[0].elts, st.value.elts)]
                        for n_ in new:
                            ast.fix_missing_locations(n_)
                        blk[i:i + 1] = new
                        i += len(new)
                        continue
                if isinstance(st, ast.Assign) and len(st.targets) > 1 and all(isinstance(t, ast.Name) or (isinstance(t, ast.Attribute) and _pure_path(t)) for t in st.targets):
                    prim = next((t for t in st.targets if isinstance(t, ast.Attribute)), st.targets[0])
                    others = [t for t in st.targets if t is not prim]
                    load = _clone(prim)
                    load.ctx = ast.Load()
                    new = [ast.copy_location(ast.Assign(targets=[prim], value=st.value), st)] + [ast.copy_location(ast.Assign(targets=[t], value=_clone(load)), st) for t in others]
                    for n_ in new:
                        ast.fix_missing_locations(n_)
                    blk[i:i + 1] = new
                    i += len(new)
                    continue
                i += 1


def attribute_read_aliases(tree: ast.AST):
    """`x = self.a` / `x = param.a.b` at the top level of a function, with `x` bound once, the root never rebound, the path not
    re-assigned later in the function and (for `self.a`) no later `self.<m>()` that may rebind `a`: `x` names the same object as
    the path from there on, so later loads of `x` are rewritten to the path (reads, subscript stores and mutating calls
    through the local are then what they are: accesses to the attribute) and the alias statement is dropped."""
    for cls in [n for n in ast.walk(tree) if isinstance(n, (ast.ClassDef, ast.Module))]:
        writers = None
        for fn in [m for m in cls.body if isinstance(m, ast.FunctionDef)]:
            is_method = isinstance(cls, ast.ClassDef) and fn.args.args and not any(isinstance(d, ast.Name) and d.id == "staticmethod" for d in fn.decorator_list)
            me = fn.args.args[0].arg if is_method else None
            params = {a.arg for a in fn.args.args + fn.args.kwonlyargs + fn.args.posonlyargs}
            stores: Dict[str, int] = {}
            scoped: Set[str] = set()
            attr_store_paths: List[Tuple[str, int]] = []
            for x in ast.walk(fn):
                if isinstance(x, ast.Name) and isinstance(x.ctx, (ast.Store, ast.Del)):
                    stores[x.id] = stores.get(x.id, 0) + 1
                elif isinstance(x, (ast.Global, ast.Nonlocal)):
                    scoped |= set(x.names)
                elif isinstance(x, (ast.FunctionDef, ast.Lambda)) and x is not fn:
                    scoped |= {a.arg for a in x.args.args}
                elif isinstance(x, ast.Attribute) and isinstance(x.ctx, (ast.Store, ast.Del)):
                    attr_store_paths.append((ast.unparse(x), getattr(x, "lineno", 0)))
            changed = True
            while changed:
                changed = False
                for j, st in enumerate(fn.body):
                    if not (isinstance(st, ast.Assign) and len(st.targets) == 1 and isinstance(st.targets[0], ast.Name) and isinstance(st.value, ast.Attribute) and _pure_path(st.value)):
                        continue
                    x = st.targets[0].id
                    root = st.value
                    while isinstance(root, ast.Attribute):
                        root = root.value
                    if x in params or x in scoped or stores.get(x) != 1 or root.id not in params or stores.get(root.id, 0) != 0:
                        continue
                    path = ast.unparse(st.value)
                    # the path (or a prefix of it) is re-assigned later in the function
                    later_stores = [ast.unparse(y) for b in fn.body[j + 1:] for y in ast.walk(b) if isinstance(y, ast.Attribute) and isinstance(y.ctx, (ast.Store, ast.Del))]
                    if any(path == p_ or path.startswith(p_ + ".") for p_ in later_stores):
                        continue
                    if any(isinstance(y, ast.Name) and y.id == x and isinstance(y.ctx, ast.Load) for b in fn.body[:j + 1] for y in ast.walk(b)):
                        continue          # used before / in the alias statement (a loop back edge could reach it)
                    first = st.value
                    while isinstance(first.value, ast.Attribute):
                        first = first.value
                    if me is not None and root.id == me:
                        if writers is None:
                            writers = _attr_writers(cls) if isinstance(cls, ast.ClassDef) else {}
                        blocked = False
                        for later in fn.body[j + 1:]:
                            for c in ast.walk(later):
                                if isinstance(c, ast.Call) and isinstance(c.func, ast.Attribute) and isinstance(c.func.value, ast.Name) and c.func.value.id == me:
                                    w = writers.get(c.func.attr, set() if c.func.attr not in writers else None)
                                    if c.func.attr in writers and (w is None or first.attr in w):
                                        blocked = True
                        if blocked:
                            continue
                    n_sub = 0
                    for later in fn.body[j + 1:]:
                        for node in ast.walk(later):
                            for f_, val in ast.iter_fields(node):
                                if isinstance(val, ast.Name) and val.id == x and isinstance(val.ctx, ast.Load):
                                    setattr(node, f_, ast.copy_location(_clone(st.value), val))
                                    n_sub += 1
                                elif isinstance(val, list):
                                    for k, v in enumerate(val):
                                        if isinstance(v, ast.Name) and v.id == x and isinstance(v.ctx, ast.Load):
                                            val[k] = ast.copy_location(_clone(st.value), v)
                                            n_sub += 1
                    fn.body[j] = ast.copy_location(ast.Pass(), st)
                    stores[x] = 0
                    ast.fix_missing_locations(fn)
                    changed = True
                    break


def attribute_aliases(tree: ast.AST):
    """`x = <expr>` ... `self.a = x` at the top level of a method, with `x` bound once, `self.a` stored once in the method and no
    later `self.<m>()` call that may rebind `a`: from there on `x` and `self.a` name the same object, so later loads of `x`
    are rewritten to `self.a` (building a value in a local and publishing it is the same program as storing it and reading it
    back). The rules read what is done to / with the attribute."""
    for cls in [n for n in ast.walk(tree) if isinstance(n, ast.ClassDef)]:
        writers = None
        for fn in [m for m in cls.body if isinstance(m, ast.FunctionDef)]:
            if not fn.args.args or any(isinstance(d, ast.Name) and d.id in ("staticmethod", "classmethod") for d in fn.decorator_list):
                continue
            me = fn.args.args[0].arg
            params = {a.arg for a in fn.args.args + fn.args.kwonlyargs + fn.args.posonlyargs} | ({fn.args.vararg.arg} if fn.args.vararg else set()) | ({fn.args.kwarg.arg} if fn.args.kwarg else set())
            stores: Dict[str, int] = {}
            attr_stores: Dict[str, int] = {}
            scoped = set()
            for x in ast.walk(fn):
                if isinstance(x, ast.Name) and isinstance(x.ctx, (ast.Store, ast.Del)):
                    stores[x.id] = stores.get(x.id, 0) + 1
                elif isinstance(x, ast.Attribute) and isinstance(x.ctx, (ast.Store, ast.Del)) and isinstance(x.value, ast.Name) and x.value.id == me:
                    attr_stores[x.attr] = attr_stores.get(x.attr, 0) + 1
                elif isinstance(x, (ast.Global, ast.Nonlocal)):
                    scoped |= set(x.names)
                elif isinstance(x, (ast.FunctionDef, ast.Lambda)) and x is not fn:
                    scoped |= {a.arg for a in x.args.args}      # a nested scope may shadow the name: leave such names alone
            body = fn.body
            for j, st in enumerate(body):
                if not (isinstance(st, ast.Assign) and len(st.targets) == 1 and isinstance(st.targets[0], ast.Attribute) and isinstance(st.targets[0].value, ast.Name) and st.targets[0].value.id == me
                        and isinstance(st.value, ast.Name)):
                    continue
                x, a = st.value.id, st.targets[0].attr
                if x in params or x in scoped or x == me or stores.get(x) != 1 or attr_stores.get(a) != 1:
                    continue
                if not any(isinstance(b, ast.Assign) and len(b.targets) == 1 and isinstance(b.targets[0], ast.Name) and b.targets[0].id == x for b in body[:j]):
                    continue
                if writers is None:
                    writers = _attr_writers(cls)
                blocked = False
                for later in body[j + 1:]:
                    for c in ast.walk(later):
                        if isinstance(c, ast.Call) and isinstance(c.func, ast.Attribute) and isinstance(c.func.value, ast.Name) and c.func.value.id == me:
                            w = writers.get(c.func.attr)
                            if c.func.attr not in writers:
                                # not a method of this class: a callable attribute or an inherited method
                                w = None
                            if w is None or a in w:
                                blocked = True
                if blocked:
                    continue
                for later in body[j + 1:]:
                    for node in ast.walk(later):
                        for f_, val in ast.iter_fields(node):
                            if isinstance(val, ast.Name) and val.id == x and isinstance(val.ctx, ast.Load):
                                setattr(node, f_, ast.copy_location(ast.Attribute(value=ast.Name(id=me, ctx=ast.Load()), attr=a, ctx=ast.Load()), val))
                            elif isinstance(val, list):
                                for k, v in enumerate(val):
                                    if isinstance(v, ast.Name) and v.id == x and isinstance(v.ctx, ast.Load):
                                        val[k] = ast.copy_location(ast.Attribute(value=ast.Name(id=me, ctx=ast.Load()), attr=a, ctx=ast.Load()), v)


# ---------------------------------------------------------------------------
# imported names: one spelling
# ---------------------------------------------------------------------------

def import_bindings(tree: ast.Module, modname: str, is_pkg: bool = False) -> Dict[str, Tuple[str, str]]:
    """local name -> (fully qualified name, import statement) for the imports at module level (also inside top-level
    try / if blocks)."""
    out: Dict[str, Tuple[str, str]] = {}

    def visit(stmts):
        for st in stmts:
            if isinstance(st, ast.Import):
                for a in st.names:
                    if a.asname:
                        out[a.asname] = (a.name, f"import {a.name} as {a.asname}")
                    else:
                        root = a.name.split(".")[0]
                        out[root] = (root, f"import {a.name}")
            elif isinstance(st, ast.ImportFrom):
                mod = st.module or ""
                if st.level:
                    base = modname.split(".")
                    base = base[: len(base) - st.level + (1 if is_pkg else 0)]
                    mod = ".".join(base + ([mod] if mod else []))
                for a in st.names:
                    if a.name == "*":
                        continue
                    local = a.asname or a.name
                    out[local] = (f"{mod}.{a.name}", f"from {mod} import {a.name}" + (f" as {a.asname}" if a.asname else ""))
            elif isinstance(st, ast.Try):
                visit(st.body)
                for h in st.handlers:
                    visit(h.body)
                visit(st.orelse)
            elif isinstance(st, ast.If):
                visit(st.body)
                visit(st.orelse)
    visit(tree.body)
    return out


_SPELL = None


def _spellings():
    global _SPELL
    if _SPELL is None:
        try:
            with open(os.path.join(_HERE, "import_spellings.json")) as fh:
                _SPELL = json.load(fh)
        except OSError:
            _SPELL = {"modules": {}, "global": {}}
    return _SPELL


def respell_imports(m) -> int:
    """Names reached through imports are re-spelled the way the reviewed tree spells them in that module (falling back to
    the package-wide majority): `from numpy import isnan; isnan(x)`, `import numpy; numpy.isnan(x)` and
    `import numpy as np; np.isnan(x)` all become the reviewed `np.isnan(x)`. Names shadowed by a parameter / local of the
    enclosing function are left alone. The import statement of a spelling that the module no longer has is added, so the
    resolver still knows what the name is. Returns the number of rewrites."""
    tab = _spellings()
    tables = [tab["modules"].get(m.relpath, {}), tab["global"]]       # the module's own reviewed spelling first, then the package-wide majority
    if not tables[0] and not tables[1]:
        return 0
    is_pkg = m.path.endswith("__init__.py")
    cur = import_bindings(m.tree, m.name, is_pkg)
    if not cur:
        return 0
    needed: Dict[str, str] = {}
    count = [0]

    def chain(e):
        names = []
        while isinstance(e, ast.Attribute):
            names.append(e.attr)
            e = e.value
        if isinstance(e, ast.Name) and isinstance(e.ctx, ast.Load):
            return e.id, list(reversed(names))
        return None, None

    def build(spelling: str, rest: List[str], like: ast.AST):
        parts = spelling.split(".") + rest
        node: ast.AST = ast.Name(id=parts[0], ctx=ast.Load())
        for a in parts[1:]:
            node = ast.Attribute(value=node, attr=a, ctx=ast.Load())
        for x in ast.walk(node):
            ast.copy_location(x, like)
        return node

    class R(ast.NodeTransformer):
        def __init__(self):
            self.shadow: List[Set[str]] = [set()]

        def _scope(self, node, names):
            self.shadow.append(self.shadow[-1] | names)
            self.generic_visit(node)
            self.shadow.pop()
            return node

        def visit_FunctionDef(self, node):
            names = {a.arg for a in node.args.args + node.args.kwonlyargs + node.args.posonlyargs}
            for a in (node.args.vararg, node.args.kwarg):
                if a is not None:
                    names.add(a.arg)
            for x in ast.walk(node):
                if isinstance(x, ast.Name) and isinstance(x.ctx, (ast.Store, ast.Del)):
                    names.add(x.id)
                elif isinstance(x, (ast.FunctionDef, ast.ClassDef)) and x is not node:
                    names.add(x.name)
                elif isinstance(x, ast.arg):
                    names.add(x.arg)
                elif isinstance(x, (ast.Import, ast.ImportFrom)):
                    for a in x.names:
                        names.add((a.asname or a.name).split(".")[0])
            return self._scope(node, names)
        visit_AsyncFunctionDef = visit_FunctionDef

        def visit_Lambda(self, node):
            return self._scope(node, {a.arg for a in node.args.args + node.args.kwonlyargs})

        def visit_ClassDef(self, node):
            names = {t.id for st in node.body if isinstance(st, (ast.Assign, ast.AnnAssign)) for t in (st.targets if isinstance(st, ast.Assign) else [st.target]) if isinstance(t, ast.Name)}
            # class-level names are not visible inside methods: only shadow at class level itself
            self.shadow.append(self.shadow[-1] | names)
            new_body = []
            for st in node.body:
                if isinstance(st, (ast.FunctionDef, ast.AsyncFunctionDef)):
                    saved = self.shadow
                    self.shadow = [saved[-2] if len(saved) > 1 else set()]
                    new_body.append(self.visit(st))
                    self.shadow = saved
                else:
                    new_body.append(self.visit(st))
            node.body = new_body
            node.decorator_list = [self.visit(d) for d in node.decorator_list]
            node.bases = [self.visit(b) for b in node.bases]
            self.shadow.pop()
            return node

        def _try(self, node):
            root, rest = chain(node)
            if root is None or root in self.shadow[-1] or root not in cur:
                return None
            fq = cur[root][0].split(".") + rest
            for reviewed, k in [(t_, k_) for t_ in tables for k_ in range(len(fq), 0, -1)]:
                key = ".".join(fq[:k])
                if key in reviewed:
                    spelling, stmt = reviewed[key]
                    new_parts = spelling.split(".") + fq[k:]
                    old_parts = [root] + rest
                    if new_parts == old_parts:
                        return None
                    if spelling.split(".")[0] in self.shadow[-1]:
                        return None
                    if cur.get(spelling, (None, None))[0] != key:
                        needed[spelling] = stmt
                    count[0] += 1
                    return build(spelling, fq[k:], node)
            return None

        def visit_Attribute(self, node):
            if isinstance(node.ctx, ast.Load):
                r = self._try(node)
                if r is not None:
                    return r
            return self.generic_visit(node)

        def visit_Name(self, node):
            if isinstance(node.ctx, ast.Load):
                r = self._try(node)
                if r is not None:
                    return r
            return node

    module_level = {t.id for st in m.tree.body if isinstance(st, (ast.Assign, ast.AnnAssign)) for t in (st.targets if isinstance(st, ast.Assign) else [st.target]) if isinstance(t, ast.Name)}
    module_level |= {st.name for st in m.tree.body if isinstance(st, (ast.FunctionDef, ast.ClassDef))}
    r = R()
    r.shadow = [set(n for n in module_level if n not in cur)]
    body = []
    for st in m.tree.body:
        if isinstance(st, (ast.Import, ast.ImportFrom)):
            body.append(st)
        else:
            body.append(r.visit(st))
    m.tree.body = body
    if needed:
        extra = []
        for local, stmt in sorted(needed.items()):
            if local in cur and cur[local][1] == stmt:
                continue
            extra.extend(ast.parse(stmt).body)
        # after the docstring / __future__ imports
        k = 0
        while k < len(m.tree.body) and (isinstance(m.tree.body[k], ast.Expr) and isinstance(m.tree.body[k].value, ast.Constant) or isinstance(m.tree.body[k], ast.ImportFrom) and m.tree.body[k].module == "__future__"):
            k += 1
        # the reviewed spellings win: they go LAST among the imports so that they rebind a name the edit reused
        last_imp = max([i for i, st in enumerate(m.tree.body) if isinstance(st, (ast.Import, ast.ImportFrom))] + [k - 1])
        m.tree.body[last_imp + 1:last_imp + 1] = extra
        ast.fix_missing_locations(m.tree)
    return count[0]


MUTATORS = {"append", "appendleft", "extend", "insert", "add", "update", "setdefault", "remove", "discard", "pop", "popleft", "clear"}


def sink_selected_receivers(tree: ast.AST):
    """`if c: t = A` / `else: t = B` (or `t = A if c else B`) directly followed by ONE mutation `t[...].m(...)` / `t.m(...)`,
    with `t` used nowhere else: rewritten to `if c: A[...].m(...)` / `else: B[...].m(...)`. Picking the container first and
    mutating it through the local is the same program; the rules read which container is mutated under which condition."""
    for fn in [n for n in ast.walk(tree) if isinstance(n, ast.FunctionDef)]:
        loads = {}
        stores = {}
        for x in ast.walk(fn):
            if isinstance(x, ast.Name):
                (loads if isinstance(x.ctx, ast.Load) else stores).setdefault(x.id, []).append(x)
        for owner in ast.walk(fn):
            for field in ("body", "orelse", "finalbody"):
                blk = getattr(owner, field, None)
                if not (isinstance(blk, list) and blk and isinstance(blk[0], ast.stmt)):
                    continue
                i = 0
                while i + 1 < len(blk):
                    sel, use = blk[i], blk[i + 1]
                    t = test = a = b = None
                    if isinstance(sel, ast.Assign) and len(sel.targets) == 1 and isinstance(sel.targets[0], ast.Name) and isinstance(sel.value, ast.IfExp):
                        t, test, a, b = sel.targets[0].id, sel.value.test, sel.value.body, sel.value.orelse
                    elif (isinstance(sel, ast.If) and len(sel.body) == 1 and len(sel.orelse) == 1 and all(isinstance(z, ast.Assign) and len(z.targets) == 1 and isinstance(z.targets[0], ast.Name) for z in (sel.body[0], sel.orelse[0]))
                          and sel.body[0].targets[0].id == sel.orelse[0].targets[0].id):
                        t, test, a, b = sel.body[0].targets[0].id, sel.test, sel.body[0].value, sel.orelse[0].value
                    ok = t is not None and isinstance(use, ast.Expr) and isinstance(use.value, ast.Call) and isinstance(use.value.func, ast.Attribute) and use.value.func.attr in MUTATORS
                    if ok:
                        recv = use.value.func.value
                        root = recv.value if isinstance(recv, ast.Subscript) else recv
                        uses_in_stmt = [x for x in ast.walk(use) if isinstance(x, ast.Name) and x.id == t]
                        ok = isinstance(root, ast.Name) and root.id == t and len(uses_in_stmt) == 1 and len(loads.get(t, [])) == 1 and len(stores.get(t, [])) == (1 if isinstance(sel, ast.Assign) else 2) \
                            and isinstance(a, (ast.Name, ast.Attribute)) and isinstance(b, (ast.Name, ast.Attribute)) and not any(isinstance(z, ast.Call) for z in ast.walk(test))
                    if ok:
                        ua, ub = _clone(use), _clone(use)
                        for u_, v_ in ((ua, a), (ub, b)):
                            for x in ast.walk(u_):
                                for f_, val in ast.iter_fields(x):
                                    if isinstance(val, ast.Name) and val.id == t:
                                        setattr(x, f_, _clone(v_))
                        new_if = ast.copy_location(ast.If(test=test, body=[ua], orelse=[ub]), sel)
                        blk[i:i + 2] = [new_if]
                        ast.fix_missing_locations(new_if)
                        continue
                    i += 1


def _free_loads(stmts, names):
    """Loads of `names` in stmts that are not re-bound by an enclosing comprehension / for loop of those statements."""
    out = []

    def rec(n, bound):
        if isinstance(n, (ast.ListComp, ast.SetComp, ast.DictComp, ast.GeneratorExp)):
            b = set(bound)
            for g in n.generators:
                rec(g.iter, b)
                b |= {x.id for x in ast.walk(g.target) if isinstance(x, ast.Name)}
                for c in g.ifs:
                    rec(c, b)
            for f in ("elt", "key", "value"):
                if hasattr(n, f):
                    rec(getattr(n, f), b)
            return
        if isinstance(n, ast.For):
            rec(n.iter, bound)
            b = bound | {x.id for x in ast.walk(n.target) if isinstance(x, ast.Name)}
            for st in n.body + n.orelse:
                rec(st, b)
            return
        if isinstance(n, ast.Name) and isinstance(n.ctx, ast.Load) and n.id in names and n.id not in bound:
            out.append(n)
        for c in ast.iter_child_nodes(n):
            rec(c, bound)
    for st in stmts:
        rec(st, set())
    return out


def loops_to_comprehensions(tree: ast.AST):
    """`d = {}` directly followed by `for T in IT:` whose body is only filters (guard clauses `if c: continue`, nested `if c:`
    without else) around ONE `d[K] = V` - or `l = []` ... `l.append(V)` - is the comprehension `{K: V for T in IT if ...}`
    (same iteration order, same short-circuit order of the tests, later keys overwrite earlier ones in both)."""
    def flatten(body, conds, temps=None):
        temps = dict(temps or {})
        if not body:
            return None
        first, rest = body[0], body[1:]
        # a temporary of the iteration (`t = expr`, single plain local) is substituted into what follows
        if rest and isinstance(first, ast.Assign) and len(first.targets) == 1 and isinstance(first.targets[0], ast.Name) and not isinstance(first.value, (ast.Yield, ast.Await)):
            nm = first.targets[0].id
            if nm not in temps and not any(isinstance(x, ast.Name) and x.id == nm and isinstance(x.ctx, ast.Store) for st in rest for x in ast.walk(st)):
                try:
                    val = _Renamer({k: v for k, v in temps.items()}).visit(_clone(first.value)) if temps else _clone(first.value)
                except _Unsupported:
                    return None
                temps[nm] = val
                try:
                    rest2 = [_Renamer({nm: val}).visit(_clone(st)) for st in rest]
                except _Unsupported:
                    return None
                r = flatten(rest2, conds, temps)
                if r is not None:
                    r[2].add(nm)
                return r
        if isinstance(first, ast.If) and not first.orelse and len(first.body) == 1 and isinstance(first.body[0], ast.Continue):
            return flatten(rest, conds + [ast.UnaryOp(op=ast.Not(), operand=first.test)], temps)
        if isinstance(first, ast.If) and not first.orelse and not rest:
            return flatten(first.body, conds + [first.test], temps)
        if not rest and isinstance(first, (ast.Assign, ast.Expr)):
            return conds, first, set()
        return None
    for fn in [n for n in ast.walk(tree) if isinstance(n, ast.FunctionDef)]:
        for owner in ast.walk(fn):
            for field in ("body", "orelse", "finalbody"):
                blk = getattr(owner, field, None)
                if not (isinstance(blk, list) and blk and isinstance(blk[0], ast.stmt)):
                    continue
                # bring `d = {}` / `l = []` next to the loop that fills it when nothing in between mentions it
                for k_ in range(len(blk)):
                    lp_ = blk[k_]
                    if not isinstance(lp_, ast.For):
                        continue
                    for j_ in range(k_ - 2, -1, -1):
                        cand = blk[j_]
                        if isinstance(cand, ast.Assign) and len(cand.targets) == 1 and isinstance(cand.targets[0], ast.Name):
                            nm_ = cand.targets[0].id
                            v_ = cand.value
                            empty = (isinstance(v_, (ast.Dict, ast.List)) and not (getattr(v_, "keys", None) or getattr(v_, "elts", None))) or \
                                (isinstance(v_, ast.Call) and isinstance(v_.func, ast.Name) and v_.func.id in ("dict", "list") and not v_.args and not v_.keywords)
                            # (a fresh empty local that nothing in between mentions can be created later: whatever runs in between - branches,
                            # raises, loops - neither reads nor writes it)
                            if empty and any(isinstance(x, ast.Name) and x.id == nm_ for x in ast.walk(lp_)) and not any(isinstance(x, ast.Name) and x.id == nm_ for m_ in blk[j_ + 1:k_] for x in ast.walk(m_)) \
                                    and not any(isinstance(x, (ast.FunctionDef, ast.Lambda, ast.ClassDef)) for m_ in blk[j_ + 1:k_] for x in ast.walk(m_)):
                                blk.insert(k_ - 1, blk.pop(j_))
                                break
                i = 0
                while i + 1 < len(blk):
                    init, loop = blk[i], blk[i + 1]
                    i += 1
                    if not (isinstance(init, ast.Assign) and len(init.targets) == 1 and isinstance(init.targets[0], ast.Name) and isinstance(loop, ast.For) and not loop.orelse):
                        continue
                    d = init.targets[0].id
                    v = init.value
                    is_dict = (isinstance(v, ast.Dict) and not v.keys) or (isinstance(v, ast.Call) and isinstance(v.func, ast.Name) and v.func.id == "dict" and not v.args and not v.keywords)
                    is_list = (isinstance(v, ast.List) and not v.elts) or (isinstance(v, ast.Call) and isinstance(v.func, ast.Name) and v.func.id == "list" and not v.args and not v.keywords)
                    if not (is_dict or is_list):
                        continue
                    # temporaries of the iteration (`t = E` then one use) are substituted before the body is classified
                    lb = list(loop.body)
                    while len(lb) > 1 and isinstance(lb[0], ast.Assign) and len(lb[0].targets) == 1 and isinstance(lb[0].targets[0], ast.Name) and lb[0].targets[0].id != d:
                        t_ = lb[0].targets[0].id
                        n_loads = sum(1 for st_ in lb[1:] for x in ast.walk(st_) if isinstance(x, ast.Name) and x.id == t_ and isinstance(x.ctx, ast.Load))
                        n_st = sum(1 for st_ in lb[1:] for x in ast.walk(st_) if isinstance(x, ast.Name) and x.id == t_ and not isinstance(x.ctx, ast.Load))
                        if n_loads != 1 or n_st or _free_loads(blk[i + 1:], {t_}) or not isinstance(lb[1], ast.Expr):
                            break
                        try:
                            lb = [_Renamer({t_: lb[0].value}).visit(_clone(st_)) for st_ in lb[1:]]
                        except _Unsupported:
                            break
                    if len(lb) != len(loop.body) and is_list and all(isinstance(b, ast.Expr) for b in lb):
                        loop.body = lb
                        ast.fix_missing_locations(loop)
                    # `d += E` right after `d = []` is d.extend(E)
                    if is_list:
                        for k_b, b in enumerate(loop.body):
                            if isinstance(b, ast.AugAssign) and isinstance(b.op, ast.Add) and isinstance(b.target, ast.Name) and b.target.id == d:
                                loop.body[k_b] = ast.copy_location(ast.Expr(value=ast.Call(func=ast.Attribute(value=ast.Name(id=d, ctx=ast.Load()), attr="extend", ctx=ast.Load()), args=[b.value], keywords=[])), b)
                                ast.fix_missing_locations(loop.body[k_b])
                    exts = loop.body if is_list and 1 <= len(loop.body) <= 3 and all(
                        isinstance(b, ast.Expr) and isinstance(b.value, ast.Call) and isinstance(b.value.func, ast.Attribute) and b.value.func.attr == "extend" and isinstance(b.value.func.value, ast.Name)
                        and b.value.func.value.id == d and len(b.value.args) == 1 and not b.value.keywords and not any(isinstance(x, ast.Name) and x.id == d for x in ast.walk(b.value.args[0])) for b in loop.body) else None
                    if exts and not any(isinstance(x, ast.Name) and x.id == d for x in ast.walk(loop.iter)):
                        # l = []; for T in IT: l.extend(E1); l.extend(E2)   ==   [e for T in IT for e in E1 + E2]
                        bound = {x.id for x in ast.walk(loop.target) if isinstance(x, ast.Name)}
                        later = _free_loads(blk[i + 1:], bound)
                        if not later:
                            def _iter_default(e_):
                                # `m.get(k, ())` that is only iterated is `m.get(k, [])`
                                if isinstance(e_, ast.Call) and isinstance(e_.func, ast.Attribute) and e_.func.attr == "get" and len(e_.args) == 2 and not e_.keywords \
                                        and ((isinstance(e_.args[1], ast.Tuple) and not e_.args[1].elts) or (isinstance(e_.args[1], ast.Call) and ast.unparse(e_.args[1]) in ("tuple()", "list()"))):
                                    e_.args[1] = ast.copy_location(ast.List(elts=[], ctx=ast.Load()), e_.args[1])
                                return e_
                            src = _iter_default(exts[0].value.args[0])
                            for b in exts[1:]:
                                src = ast.BinOp(left=src, op=ast.Add(), right=_iter_default(b.value.args[0]))
                            comp = ast.ListComp(elt=ast.Name(id="_e__flat", ctx=ast.Load()), generators=[ast.comprehension(target=loop.target, iter=loop.iter, ifs=[], is_async=0),
                                                                                                            ast.comprehension(target=ast.Name(id="_e__flat", ctx=ast.Store()), iter=src, ifs=[], is_async=0)])
                            new = ast.copy_location(ast.Assign(targets=[ast.Name(id=d, ctx=ast.Store())], value=comp), init)
                            blk[i - 1:i + 1] = [new]
                            ast.fix_missing_locations(new)
                            i -= 1
                        continue
                    fl = flatten(loop.body, [])
                    if fl is None:
                        continue
                    conds, store, used_temps = fl
                    if used_temps and any(isinstance(x, ast.Name) and x.id in used_temps and isinstance(x.ctx, ast.Load) for st in blk[i + 1:] for x in ast.walk(st)):
                        continue          # a temporary of the loop is read after it
                    if any(isinstance(x, ast.Name) and x.id == d for c in conds for x in ast.walk(c)) or any(isinstance(x, ast.Name) and x.id == d for x in ast.walk(loop.iter)):
                        continue
                    comp = None
                    if is_dict and isinstance(store, ast.Assign) and len(store.targets) == 1 and isinstance(store.targets[0], ast.Subscript) and isinstance(store.targets[0].value, ast.Name) \
                            and store.targets[0].value.id == d and not any(isinstance(x, ast.Name) and x.id == d for x in ast.walk(store.value)) and not any(isinstance(x, ast.Name) and x.id == d for x in ast.walk(store.targets[0].slice)):
                        comp = ast.DictComp(key=store.targets[0].slice, value=store.value, generators=[ast.comprehension(target=loop.target, iter=loop.iter, ifs=conds, is_async=0)])
                    elif is_list and isinstance(store, ast.Expr) and isinstance(store.value, ast.Call) and isinstance(store.value.func, ast.Attribute) and store.value.func.attr == "append" \
                            and isinstance(store.value.func.value, ast.Name) and store.value.func.value.id == d and len(store.value.args) == 1 and not store.value.keywords \
                            and not any(isinstance(x, ast.Name) and x.id == d for x in ast.walk(store.value.args[0])):
                        comp = ast.ListComp(elt=store.value.args[0], generators=[ast.comprehension(target=loop.target, iter=loop.iter, ifs=conds, is_async=0)])
                    if comp is None:
                        continue
                    # the loop's variables must not be used after the loop (a comprehension does not leak them)
                    bound = {x.id for x in ast.walk(loop.target) if isinstance(x, ast.Name)}
                    later = _free_loads(blk[i + 1:], bound)
                    if later:
                        continue
                    for x in ast.walk(comp.generators[0].target):
                        if isinstance(x, ast.Name):
                            x.ctx = ast.Store()
                    new = ast.copy_location(ast.Assign(targets=[ast.Name(id=d, ctx=ast.Store())], value=comp), init)
                    blk[i - 1:i + 1] = [new]
                    ast.fix_missing_locations(new)
                    i -= 1


def inline_comprehension_temps(tree: ast.AST):
    """`t = <comprehension / generator expression>` whose only use is one load in a later statement of the same block, with
    nothing in between re-binding a name the comprehension reads: the comprehension is moved to its use (`g = (f(x) for x in
    xs); return list(chain.from_iterable(g))` is the one-liner)."""
    for fn in [n for n in ast.walk(tree) if isinstance(n, ast.FunctionDef)]:
        loads: Dict[str, int] = {}
        stores: Dict[str, int] = {}
        for x in ast.walk(fn):
            if isinstance(x, ast.Name):
                d_ = loads if isinstance(x.ctx, ast.Load) else stores
                d_[x.id] = d_.get(x.id, 0) + 1
            elif isinstance(x, ast.arg):
                stores[x.arg] = stores.get(x.arg, 0) + 1
        for owner in ast.walk(fn):
            for field in ("body", "orelse", "finalbody"):
                blk = getattr(owner, field, None)
                if not (isinstance(blk, list) and blk and isinstance(blk[0], ast.stmt)):
                    continue
                i = 0
                while i < len(blk):
                    st = blk[i]
                    if (isinstance(st, ast.Assign) and len(st.targets) == 1 and isinstance(st.targets[0], ast.Name) and isinstance(st.value, (ast.GeneratorExp, ast.ListComp, ast.SetComp, ast.DictComp))
                            and stores.get(st.targets[0].id) == 1 and loads.get(st.targets[0].id) == 1):
                        t = st.targets[0].id
                        bound = {x.id for g in st.value.generators for x in ast.walk(g.target) if isinstance(x, ast.Name)}
                        free = {x.id for x in ast.walk(st.value) if isinstance(x, ast.Name) and isinstance(x.ctx, ast.Load)} - bound
                        for j in range(i + 1, len(blk)):
                            use = [x for x in ast.walk(blk[j]) if isinstance(x, ast.Name) and x.id == t and isinstance(x.ctx, ast.Load)]
                            rebinds = any(isinstance(x, ast.Name) and isinstance(x.ctx, (ast.Store, ast.Del)) and x.id in free for x in ast.walk(blk[j]))
                            if use:
                                simple = isinstance(blk[j], (ast.Assign, ast.Return, ast.Expr, ast.AugAssign, ast.AnnAssign))
                                if simple and not rebinds:
                                    _replace_node(blk[j], use[0], st.value)
                                    del blk[i]
                                    i -= 1
                                break
                            if rebinds:
                                break
                    i += 1


def flatten_spellings(tree: ast.AST):
    """`list(itertools.chain(*[E for T in IT]))` and `list(itertools.chain.from_iterable(E for T in IT))` are the nested
    comprehension `[e for T in IT for e in E]`; `name.sort()` (no arguments) on a local list is `name = sorted(name)`."""
    for node in ast.walk(tree):
        for f, v in ast.iter_fields(node):
            items = v if isinstance(v, list) else [v]
            for k, c in enumerate(items):
                if not (isinstance(c, ast.Call) and isinstance(c.func, ast.Name) and c.func.id == "list" and len(c.args) == 1 and not c.keywords and isinstance(c.args[0], ast.Call)):
                    continue
                inner = c.args[0]
                fn = ast.unparse(inner.func)
                lc = None
                if fn in ("itertools.chain", "chain") and len(inner.args) == 1 and isinstance(inner.args[0], ast.Starred) and isinstance(inner.args[0].value, (ast.ListComp, ast.GeneratorExp)):
                    lc = inner.args[0].value
                elif fn in ("itertools.chain.from_iterable", "chain.from_iterable") and len(inner.args) == 1 and isinstance(inner.args[0], (ast.ListComp, ast.GeneratorExp)):
                    lc = inner.args[0]
                if lc is None or len(lc.generators) != 1:
                    continue
                new = ast.copy_location(ast.ListComp(elt=ast.Name(id="_e__flat", ctx=ast.Load()), generators=[lc.generators[0], ast.comprehension(target=ast.Name(id="_e__flat", ctx=ast.Store()), iter=lc.elt, ifs=[], is_async=0)]), c)
                if isinstance(v, list):
                    v[k] = new
                else:
                    setattr(node, f, new)
    for fn_ in [n for n in ast.walk(tree) if isinstance(n, ast.FunctionDef)]:
        local = _locals_of(fn_)
        binds: Dict[str, List[ast.AST]] = {}
        params_ = {a.arg for a in fn_.args.args + fn_.args.kwonlyargs + fn_.args.posonlyargs}
        for x in ast.walk(fn_):
            if isinstance(x, ast.Assign):
                for t in x.targets:
                    for nm in ast.walk(t):
                        if isinstance(nm, ast.Name):
                            binds.setdefault(nm.id, []).append(x.value if isinstance(t, ast.Name) else None)
            elif isinstance(x, (ast.For, ast.comprehension)):
                for nm in ast.walk(x.target):
                    if isinstance(nm, ast.Name):
                        binds.setdefault(nm.id, []).append(None)
            elif isinstance(x, (ast.With, ast.ExceptHandler, ast.NamedExpr, ast.AnnAssign)):
                for nm in ast.walk(x):
                    if isinstance(nm, ast.Name) and isinstance(nm.ctx, ast.Store):
                        binds.setdefault(nm.id, []).append(None)

        def _is_list(v):
            return isinstance(v, (ast.List, ast.ListComp)) or (isinstance(v, ast.Call) and isinstance(v.func, ast.Name) and v.func.id in ("list", "sorted"))
        list_locals = {n_ for n_, vs in binds.items() if n_ not in params_ and vs and all(v is not None and _is_list(v) for v in vs)}
        for owner in ast.walk(fn_):
            for field in ("body", "orelse", "finalbody"):
                blk = getattr(owner, field, None)
                if not (isinstance(blk, list) and blk and isinstance(blk[0], ast.stmt)):
                    continue
                for k, st in enumerate(blk):
                    # q.extend(E for T in IT)  is  for T in IT: q.append(E)
                    if isinstance(st, ast.Expr) and isinstance(st.value, ast.Call) and isinstance(st.value.func, ast.Attribute) and st.value.func.attr == "extend" and len(st.value.args) == 1 and not st.value.keywords \
                            and isinstance(st.value.args[0], (ast.GeneratorExp, ast.ListComp)) and len(st.value.args[0].generators) == 1 and not st.value.args[0].generators[0].ifs:
                        g_ = st.value.args[0]
                        app = ast.Expr(value=ast.Call(func=ast.Attribute(value=st.value.func.value, attr="append", ctx=ast.Load()), args=[g_.elt], keywords=[]))
                        blk[k] = ast.copy_location(ast.For(target=g_.generators[0].target, iter=g_.generators[0].iter, body=[app], orelse=[], type_comment=None), st)
                        ast.fix_missing_locations(blk[k])
                        continue
                    # `l += E` on a local that is only ever bound to list displays / list() / comprehensions  is  l.extend(E)
                    if isinstance(st, ast.AugAssign) and isinstance(st.op, ast.Add) and isinstance(st.target, ast.Name) and st.target.id in local and st.target.id in list_locals:
                        blk[k] = ast.copy_location(ast.Expr(value=ast.Call(func=ast.Attribute(value=ast.Name(id=st.target.id, ctx=ast.Load()), attr="extend", ctx=ast.Load()), args=[st.value], keywords=[])), st)
                        ast.fix_missing_locations(blk[k])
                        continue
                    if isinstance(st, ast.Expr) and isinstance(st.value, ast.Call) and isinstance(st.value.func, ast.Attribute) and st.value.func.attr == "sort" and not st.value.args and not st.value.keywords \
                            and isinstance(st.value.func.value, ast.Name) and st.value.func.value.id in local:
                        n_ = st.value.func.value.id
                        blk[k] = ast.copy_location(ast.Assign(targets=[ast.Name(id=n_, ctx=ast.Store())], value=ast.Call(func=ast.Name(id="sorted", ctx=ast.Load()), args=[ast.Name(id=n_, ctx=ast.Load())], keywords=[])), st)
                        ast.fix_missing_locations(blk[k])


CONSUMERS = {"sum", "sorted", "list", "tuple", "set", "frozenset", "min", "max", "any", "all", "len", "dict", "enumerate", "iter", "zip"}


def _pure_path(e) -> bool:
    while isinstance(e, ast.Attribute):
        e = e.value
    return isinstance(e, ast.Name)


_KEYLOOP = [0]


def key_loops_to_items(tree: ast.AST):
    """`for k in D:` (or `D.keys()`) whose body reads `D[k]` - D a plain name / attribute path that the body neither
    re-binds nor stores into - is `for k, v in D.items():` with `v` for every `D[k]` (a container subscripted by what it
    yields is a mapping; its items are its keys paired with their values)."""
    def rewrite(loop, comp=False):
        it = loop.iter
        if isinstance(it, ast.Call) and isinstance(it.func, ast.Attribute) and it.func.attr == "keys" and not it.args and not it.keywords:
            it = it.func.value
        if not (isinstance(loop.target, ast.Name) and _pure_path(it)):
            return None
        k = loop.target.id
        dump = ast.dump(it)
        return k, it, dump

    def subst(nodes, k, dump, vname):
        n = 0
        for root in nodes:
            for node in ast.walk(root):
                for f_, val in ast.iter_fields(node):
                    vals = val if isinstance(val, list) else [val]
                    for i_, v in enumerate(vals):
                        if isinstance(v, ast.Subscript) and isinstance(v.ctx, ast.Load) and isinstance(v.slice, ast.Name) and v.slice.id == k and ast.dump(v.value) == dump:
                            new = ast.copy_location(ast.Name(id=vname, ctx=ast.Load()), v)
                            if isinstance(val, list):
                                val[i_] = new
                            else:
                                setattr(node, f_, new)
                            n += 1
        return n
    for loop in [n for n in ast.walk(tree) if isinstance(n, ast.For) and not n.orelse]:
        r = rewrite(loop)
        if r is None:
            continue
        k, it, dump = r
        body_nodes = [x for st in loop.body for x in ast.walk(st)]
        reads = [x for x in body_nodes if isinstance(x, ast.Subscript) and isinstance(x.ctx, ast.Load) and isinstance(x.slice, ast.Name) and x.slice.id == k and ast.dump(x.value) == dump]
        if not reads:
            continue
        root = it
        while isinstance(root, ast.Attribute):
            root = root.value
        bad = False
        for x in body_nodes:
            if isinstance(x, ast.Name) and isinstance(x.ctx, (ast.Store, ast.Del)) and x.id in (k, root.id):
                bad = True
            elif isinstance(x, ast.Subscript) and isinstance(x.ctx, (ast.Store, ast.Del)) and ast.dump(x.value) == dump:
                bad = True
            elif isinstance(x, ast.Attribute) and isinstance(x.ctx, (ast.Store, ast.Del)) and ast.dump(x) == dump:
                bad = True
            elif isinstance(x, ast.Call) and isinstance(x.func, ast.Attribute) and ast.dump(x.func.value) == dump and x.func.attr in MUTATORS:
                bad = True
        if bad:
            continue
        _KEYLOOP[0] += 1
        vname = f"_v__k{_KEYLOOP[0]}"
        subst(loop.body, k, dump, vname)
        loop.target = ast.copy_location(ast.Tuple(elts=[ast.Name(id=k, ctx=ast.Store()), ast.Name(id=vname, ctx=ast.Store())], ctx=ast.Store()), loop.target)
        loop.iter = ast.copy_location(ast.Call(func=ast.Attribute(value=it, attr="items", ctx=ast.Load()), args=[], keywords=[]), loop.iter)
        ast.fix_missing_locations(loop)
    for comp in [n for n in ast.walk(tree) if isinstance(n, (ast.ListComp, ast.SetComp, ast.GeneratorExp, ast.DictComp))]:
        if len(comp.generators) != 1:
            continue
        g = comp.generators[0]
        r = rewrite(g)
        if r is None:
            continue
        k, it, dump = r
        parts = ([comp.key, comp.value] if isinstance(comp, ast.DictComp) else [comp.elt]) + list(g.ifs)
        holder = ast.Module(body=[ast.Expr(value=ast.Tuple(elts=parts, ctx=ast.Load()))], type_ignores=[])
        reads = [x for x in ast.walk(holder) if isinstance(x, ast.Subscript) and isinstance(x.ctx, ast.Load) and isinstance(x.slice, ast.Name) and x.slice.id == k and ast.dump(x.value) == dump]
        if not reads:
            continue
        _KEYLOOP[0] += 1
        vname = f"_v__k{_KEYLOOP[0]}"
        subst([holder], k, dump, vname)
        new_parts = holder.body[0].value.elts
        if isinstance(comp, ast.DictComp):
            comp.key, comp.value = new_parts[0], new_parts[1]
            g.ifs = new_parts[2:]
        else:
            comp.elt = new_parts[0]
            g.ifs = new_parts[1:]
        g.target = ast.copy_location(ast.Tuple(elts=[ast.Name(id=k, ctx=ast.Store()), ast.Name(id=vname, ctx=ast.Store())], ctx=ast.Store()), g.target)
        g.iter = ast.copy_location(ast.Call(func=ast.Attribute(value=it, attr="items", ctx=ast.Load()), args=[], keywords=[]), g.iter)
        ast.fix_missing_locations(comp)


def more_spellings(tree: ast.AST):
    """Further spellings of one program:
    * `f(x for x in IT)` / `f([x for x in IT])` for an iterating builtin f is `f(IT)`;
    * `zip(D.keys(), D.values())` is `D.items()` (D a plain name / attribute path: evaluated twice without effect);
    * `sorted(list(X))`, `list(sorted(X))` are `sorted(X)`;
    * `acc = 0` followed by `for T in IT: [filters] acc += E` is `acc = sum(E for T in IT if ...)` (same order of additions);
    * `f = obj.method` (bound once, `obj` a plain name / attribute path not rebound afterwards, `f` only ever called) and
      `f(args)` is `obj.method(args)`."""
    def rewrite_expr(c):
        if not isinstance(c, ast.Call) or c.keywords and not (isinstance(c.func, ast.Name) and c.func.id in ("sorted", "min", "max", "sum")):
            return None
        if isinstance(c.func, ast.Name) and c.func.id in CONSUMERS and len(c.args) >= 1 and isinstance(c.args[0], (ast.GeneratorExp, ast.ListComp)):
            g = c.args[0]
            if len(g.generators) == 1 and not g.generators[0].ifs and not g.generators[0].is_async and isinstance(g.elt, ast.Name) and isinstance(g.generators[0].target, ast.Name) \
                    and g.elt.id == g.generators[0].target.id and not (c.func.id in ("list", "tuple", "set", "frozenset", "dict") and isinstance(g, ast.ListComp) and False):
                new = _clone(c)
                new.args[0] = g.generators[0].iter
                return new
        # obj.__getitem__(k) is obj[k]
        if isinstance(c.func, ast.Attribute) and c.func.attr == "__getitem__" and len(c.args) == 1 and not c.keywords and not isinstance(c.args[0], ast.Starred) \
                and not (isinstance(c.func.value, ast.Call) and ast.unparse(c.func.value.func) == "super"):
            return ast.copy_location(ast.Subscript(value=c.func.value, slice=c.args[0], ctx=ast.Load()), c)
        if isinstance(c.func, ast.Name) and c.func.id == "zip" and len(c.args) == 2 and not c.keywords:
            a, b = c.args
            if all(isinstance(x, ast.Call) and isinstance(x.func, ast.Attribute) and not x.args and not x.keywords for x in (a, b)) and a.func.attr == "keys" and b.func.attr == "values" \
                    and ast.dump(a.func.value) == ast.dump(b.func.value) and _pure_path(a.func.value):
                return ast.copy_location(ast.Call(func=ast.Attribute(value=a.func.value, attr="items", ctx=ast.Load()), args=[], keywords=[]), c)
        if isinstance(c.func, ast.Name) and c.func.id == "sorted" and len(c.args) == 1 and isinstance(c.args[0], ast.Call) and isinstance(c.args[0].func, ast.Name) and c.args[0].func.id in ("list", "tuple") \
                and len(c.args[0].args) == 1 and not c.args[0].keywords:
            new = _clone(c)
            new.args[0] = c.args[0].args[0]
            return new
        if isinstance(c.func, ast.Name) and c.func.id == "list" and len(c.args) == 1 and not c.keywords and isinstance(c.args[0], ast.Call) and isinstance(c.args[0].func, ast.Name) and c.args[0].func.id == "sorted":
            return c.args[0]
        # itemgetter(k) is lambda x: x[k]; attrgetter("a") is lambda x: x.a  (one literal argument)
        if isinstance(c.func, (ast.Name, ast.Attribute)) and not c.keywords and len(c.args) == 1 and isinstance(c.args[0], ast.Constant):
            gn = c.func.id if isinstance(c.func, ast.Name) else (c.func.attr if isinstance(c.func.value, ast.Name) and c.func.value.id == "operator" else None)
            if gn == "itemgetter":
                return ast.Lambda(args=ast.arguments(posonlyargs=[], args=[ast.arg(arg="_g__x")], kwonlyargs=[], kw_defaults=[], defaults=[]),
                                  body=ast.Subscript(value=ast.Name(id="_g__x", ctx=ast.Load()), slice=c.args[0], ctx=ast.Load()))
            if gn == "attrgetter" and isinstance(c.args[0].value, str) and c.args[0].value.isidentifier():
                return ast.Lambda(args=ast.arguments(posonlyargs=[], args=[ast.arg(arg="_g__x")], kwonlyargs=[], kw_defaults=[], defaults=[]),
                                  body=ast.Attribute(value=ast.Name(id="_g__x", ctx=ast.Load()), attr=c.args[0].value, ctx=ast.Load()))
        # (lambda a, b: E)(x, y) is E[a := x, b := y] for plain arguments (or parameters read once)
        if isinstance(c.func, ast.Lambda) and not c.keywords and not any(isinstance(a_, ast.Starred) for a_ in c.args) and len(c.args) == len(c.func.args.args) \
                and not c.func.args.vararg and not c.func.args.kwarg and not c.func.args.kwonlyargs and not c.func.args.defaults:
            uses = {}
            for x in ast.walk(c.func.body):
                if isinstance(x, ast.Name) and isinstance(x.ctx, ast.Load):
                    uses[x.id] = uses.get(x.id, 0) + 1
            pairs = list(zip([a_.arg for a_ in c.func.args.args], c.args))
            if all(isinstance(a_, (ast.Name, ast.Constant)) or (isinstance(a_, ast.Attribute) and _pure_path(a_)) or uses.get(p_, 0) <= 1 for p_, a_ in pairs) \
                    and not any(isinstance(x, (ast.Lambda, ast.ListComp, ast.SetComp, ast.DictComp, ast.GeneratorExp)) for x in ast.walk(c.func.body)):
                try:
                    return _Renamer({p_: _clone(a_) for p_, a_ in pairs}).visit(_clone(c.func.body))
                except _Unsupported:
                    pass
        # filter / map / starmap with a lambda or a plain callable are generator expressions
        fname = c.func.id if isinstance(c.func, ast.Name) else (c.func.attr if isinstance(c.func, ast.Attribute) and isinstance(c.func.value, ast.Name) and c.func.value.id == "itertools" else None)
        if fname in ("filter", "map") and len(c.args) == 2 and not c.keywords:
            f_, it_ = c.args
            if isinstance(f_, ast.Lambda) and len(f_.args.args) == 1 and not f_.args.defaults and not f_.args.vararg and not f_.args.kwarg and not f_.args.kwonlyargs:
                v_ = f_.args.args[0].arg
                tgt = ast.Name(id=v_, ctx=ast.Store())
                if fname == "filter":
                    return ast.GeneratorExp(elt=ast.Name(id=v_, ctx=ast.Load()), generators=[ast.comprehension(target=tgt, iter=it_, ifs=[f_.body], is_async=0)])
                return ast.GeneratorExp(elt=f_.body, generators=[ast.comprehension(target=tgt, iter=it_, ifs=[], is_async=0)])
            if fname == "map" and isinstance(f_, ast.Call) and isinstance(f_.func, ast.Name) and f_.func.id == "attrgetter" and len(f_.args) == 1 and not f_.keywords \
                    and isinstance(f_.args[0], ast.Constant) and isinstance(f_.args[0].value, str) and f_.args[0].value.isidentifier():
                # map(attrgetter("a"), IT) is (x.a for x in IT)
                return ast.GeneratorExp(elt=ast.Attribute(value=ast.Name(id="_m__x", ctx=ast.Load()), attr=f_.args[0].value, ctx=ast.Load()),
                                        generators=[ast.comprehension(target=ast.Name(id="_m__x", ctx=ast.Store()), iter=it_, ifs=[], is_async=0)])
            if fname == "map" and (isinstance(f_, ast.Name) or (isinstance(f_, ast.Attribute) and _pure_path(f_))):
                return ast.GeneratorExp(elt=ast.Call(func=f_, args=[ast.Name(id="_m__x", ctx=ast.Load())], keywords=[]), generators=[ast.comprehension(target=ast.Name(id="_m__x", ctx=ast.Store()), iter=it_, ifs=[], is_async=0)])
        if fname == "starmap" and len(c.args) == 2 and not c.keywords and (isinstance(c.args[0], ast.Name) or (isinstance(c.args[0], ast.Attribute) and _pure_path(c.args[0]))):
            f_, it_ = c.args
            pair = isinstance(it_, ast.Call) and ((isinstance(it_.func, ast.Attribute) and it_.func.attr in ("items", "iterrows", "iteritems") and not it_.args)
                                                  or (isinstance(it_.func, ast.Name) and it_.func.id == "enumerate") or (isinstance(it_.func, ast.Name) and it_.func.id == "zip" and len(it_.args) == 2))
            if pair:
                tgt = ast.Tuple(elts=[ast.Name(id="_s__a", ctx=ast.Store()), ast.Name(id="_s__b", ctx=ast.Store())], ctx=ast.Store())
                return ast.GeneratorExp(elt=ast.Call(func=f_, args=[ast.Name(id="_s__a", ctx=ast.Load()), ast.Name(id="_s__b", ctx=ast.Load())], keywords=[]),
                                        generators=[ast.comprehension(target=tgt, iter=it_, ifs=[], is_async=0)])
        # list(<generator expression>) is the list comprehension (set / dict alike)
        if isinstance(c.func, ast.Name) and c.func.id in ("list", "set") and len(c.args) == 1 and not c.keywords and isinstance(c.args[0], ast.GeneratorExp):
            g_ = c.args[0]
            return (ast.ListComp if c.func.id == "list" else ast.SetComp)(elt=g_.elt, generators=g_.generators)
        # set(a).union(b) is set(a) | set(b)
        if isinstance(c.func, ast.Attribute) and c.func.attr == "union" and len(c.args) == 1 and not c.keywords and isinstance(c.func.value, ast.Call) and isinstance(c.func.value.func, ast.Name) \
                and c.func.value.func.id == "set" and len(c.func.value.args) == 1:
            rhs = c.args[0]
            if not (isinstance(rhs, ast.Call) and isinstance(rhs.func, ast.Name) and rhs.func.id == "set"):
                rhs = ast.Call(func=ast.Name(id="set", ctx=ast.Load()), args=[rhs], keywords=[])
            return ast.BinOp(left=c.func.value, op=ast.BitOr(), right=rhs)
        return None
    # in iteration position, chain(a, b, ...) yields what a + b + ... yields
    for node in ast.walk(tree):
        if isinstance(node, (ast.For, ast.comprehension)) and isinstance(node.iter, ast.Call) and not node.iter.keywords and len(node.iter.args) >= 2 \
                and not any(isinstance(a_, ast.Starred) for a_ in node.iter.args):
            fnm = ast.unparse(node.iter.func)
            if fnm in ("itertools.chain", "chain"):
                acc = node.iter.args[0]
                for a_ in node.iter.args[1:]:
                    acc = ast.BinOp(left=acc, op=ast.Add(), right=a_)
                for x in ast.walk(acc):
                    if not hasattr(x, "lineno"):
                        ast.copy_location(x, node.iter)
                node.iter = acc
    changed = True
    rounds = 0
    while changed and rounds < 4:
        changed = False
        rounds += 1
        for node in ast.walk(tree):
            for f, v in ast.iter_fields(node):
                items = v if isinstance(v, list) else [v]
                for k, c in enumerate(items):
                    new = rewrite_expr(c)
                    if new is not None:
                        ast.copy_location(new, c)
                        if isinstance(v, list):
                            v[k] = new
                        else:
                            setattr(node, f, new)
                        changed = True
    for fn_ in [n for n in ast.walk(tree) if isinstance(n, ast.FunctionDef)]:
        # numeric accumulation loops
        for owner in ast.walk(fn_):
            for field in ("body", "orelse", "finalbody"):
                blk = getattr(owner, field, None)
                if not (isinstance(blk, list) and blk and isinstance(blk[0], ast.stmt)):
                    continue
                i = 0
                while i + 1 < len(blk):
                    init, loop = blk[i], blk[i + 1]
                    i += 1
                    if not (isinstance(init, ast.Assign) and len(init.targets) == 1 and isinstance(init.targets[0], ast.Name) and isinstance(init.value, ast.Constant) and type(init.value.value) in (int, float)
                            and init.value.value == 0 and isinstance(loop, ast.For) and not loop.orelse):
                        continue
                    acc = init.targets[0].id
                    conds, body = [], loop.body
                    ok = True
                    while True:
                        if len(body) >= 1 and isinstance(body[0], ast.If) and not body[0].orelse and len(body[0].body) == 1 and isinstance(body[0].body[0], ast.Continue) and len(body) > 1:
                            conds.append(ast.UnaryOp(op=ast.Not(), operand=body[0].test))
                            body = body[1:]
                        elif len(body) == 1 and isinstance(body[0], ast.If) and not body[0].orelse:
                            conds.append(body[0].test)
                            body = body[0].body
                        else:
                            break
                    if not (len(body) == 1 and isinstance(body[0], ast.AugAssign) and isinstance(body[0].op, ast.Add) and isinstance(body[0].target, ast.Name) and body[0].target.id == acc):
                        continue
                    e = body[0].value
                    if any(isinstance(x, ast.Name) and x.id == acc for z in conds + [e, loop.iter] for x in ast.walk(z)):
                        continue
                    bound = {x.id for x in ast.walk(loop.target) if isinstance(x, ast.Name)}
                    if _free_loads(blk[i + 1:], bound):
                        continue
                    tgt = _clone(loop.target)
                    for x in ast.walk(tgt):
                        if isinstance(x, ast.Name):
                            x.ctx = ast.Store()
                    if not conds and isinstance(e, ast.Name) and isinstance(loop.target, ast.Name) and e.id == loop.target.id:
                        arg = loop.iter
                    else:
                        arg = ast.GeneratorExp(elt=e, generators=[ast.comprehension(target=tgt, iter=loop.iter, ifs=conds, is_async=0)])
                    new = ast.copy_location(ast.Assign(targets=[ast.Name(id=acc, ctx=ast.Store())], value=ast.Call(func=ast.Name(id="sum", ctx=ast.Load()), args=[arg], keywords=[])), init)
                    blk[i - 1:i + 1] = [new]
                    ast.fix_missing_locations(new)
                    i -= 1


def bound_method_aliases(tree: ast.AST):
    """`f = obj.method` (bound once, `obj` a plain name / attribute path not rebound afterwards, `f` only ever called) and
    `f(args)` is `obj.method(args)`."""
    for fn_ in [n for n in ast.walk(tree) if isinstance(n, ast.FunctionDef)]:
        # bound-method aliases
        stores: Dict[str, List[ast.AST]] = {}
        for x in ast.walk(fn_):
            if isinstance(x, ast.Name) and isinstance(x.ctx, (ast.Store, ast.Del)):
                stores.setdefault(x.id, []).append(x)
            elif isinstance(x, ast.arg):
                stores.setdefault(x.arg, []).append(x)
        blocks = [fn_.body] + [getattr(o, fld) for o in ast.walk(fn_) if o is not fn_ and not isinstance(o, (ast.FunctionDef, ast.Lambda, ast.ClassDef))
                               for fld in ("body", "orelse", "finalbody") if isinstance(getattr(o, fld, None), list) and getattr(o, fld) and isinstance(getattr(o, fld)[0], ast.stmt)]
        for blk_, st in [(b_, s_) for b_ in blocks for s_ in list(b_)]:
            if not (isinstance(st, ast.Assign) and len(st.targets) == 1 and isinstance(st.targets[0], ast.Name) and isinstance(st.value, ast.Attribute) and _pure_path(st.value)):
                continue
            al = st.targets[0].id
            if len(stores.get(al, [])) != 1:
                continue
            root = st.value
            while isinstance(root, ast.Attribute):
                root = root.value
            # the root object is not rebound after the alias is taken (parameters / self: bound once at entry): no store in what
            # follows the alias in its block and in the blocks around it, nor anywhere in a loop around it (a sibling branch is not "after")
            later_ = set()
            cur_blk, cur_st = blk_, st
            while cur_blk is not None:
                later_ |= {id(x) for s_ in cur_blk[[id(s__) for s__ in cur_blk].index(id(cur_st)) + 1:] for x in ast.walk(s_)}
                nxt = None
                for o in ast.walk(fn_):
                    if o is fn_ and cur_blk is fn_.body:
                        break
                    for fld in ("body", "orelse", "finalbody", "handlers"):
                        if getattr(o, fld, None) is cur_blk:
                            nxt = o
                if nxt is None or nxt is fn_:
                    break
                if isinstance(nxt, (ast.For, ast.While)):
                    later_ |= {id(x) for x in ast.walk(nxt)}
                cur_st = nxt
                cur_blk = next((getattr(o, fld) for o in ast.walk(fn_) for fld in ("body", "orelse", "finalbody") if isinstance(getattr(o, fld, None), list) and any(s_ is nxt for s_ in getattr(o, fld))), None)
            if any(id(x) in later_ for x in stores.get(root.id, []) if isinstance(x, ast.Name)):
                continue
            uses = [x for x in ast.walk(fn_) if isinstance(x, ast.Name) and x.id == al and isinstance(x.ctx, ast.Load)]
            callee_ids = {id(c.func) for c in ast.walk(fn_) if isinstance(c, ast.Call)}
            if not uses or not all(id(u) in callee_ids for u in uses) or any(u.lineno <= st.lineno for u in uses):
                continue
            if blk_ is not fn_.body:
                after_ = {id(x) for s_ in blk_[blk_.index(st) + 1:] for x in ast.walk(s_)}
                if not all(id(u) in after_ for u in uses):
                    continue        # taken in a branch: every use must follow it inside that branch
            if any(isinstance(x, (ast.FunctionDef, ast.Lambda)) and x is not fn_ and any(isinstance(y, ast.Name) and y.id == al for y in ast.walk(x)) for x in ast.walk(fn_)):
                continue
            for c in ast.walk(fn_):
                if isinstance(c, ast.Call) and isinstance(c.func, ast.Name) and c.func.id == al:
                    c.func = ast.copy_location(_clone(st.value), c.func)
                    ast.fix_missing_locations(c)
            blk_[blk_.index(st)] = ast.copy_location(ast.Pass(), st)


def unroll_literal_loops(tree: ast.AST):
    """`for T in (a, b, c): BODY` over a literal tuple / list of at most 6 items (or a local bound to one just before and used
    nowhere else) is BODY with T = a, then with T = b, ...: the loop is unrolled (no break / continue / else in it)."""
    for fn_ in [n for n in ast.walk(tree) if isinstance(n, ast.FunctionDef)]:
        for owner in ast.walk(fn_):
            for field in ("body", "orelse", "finalbody"):
                blk = getattr(owner, field, None)
                if not (isinstance(blk, list) and blk and isinstance(blk[0], ast.stmt)):
                    continue
                k = 0
                while k < len(blk):
                    st = blk[k]
                    k += 1
                    if not (isinstance(st, ast.For) and not st.orelse) or any(isinstance(x, (ast.Break, ast.Continue)) for x in ast.walk(st)):
                        continue
                    seq = st.iter
                    drop_prev = False
                    if isinstance(seq, ast.Name) and k >= 2 and isinstance(blk[k - 2], ast.Assign) and len(blk[k - 2].targets) == 1 and isinstance(blk[k - 2].targets[0], ast.Name) \
                            and blk[k - 2].targets[0].id == seq.id and isinstance(blk[k - 2].value, (ast.Tuple, ast.List)):
                        uses = [x for x in ast.walk(fn_) if isinstance(x, ast.Name) and x.id == seq.id and isinstance(x.ctx, ast.Load)]
                        if len(uses) == 1:
                            seq = blk[k - 2].value
                            drop_prev = True
                    if not isinstance(seq, (ast.Tuple, ast.List)) or not (1 <= len(seq.elts) <= 6) or any(isinstance(e, ast.Starred) for e in seq.elts):
                        continue
                    tg = st.target
                    names = [tg] if isinstance(tg, ast.Name) else (list(tg.elts) if isinstance(tg, ast.Tuple) and all(isinstance(x, ast.Name) for x in tg.elts) else None)
                    if names is None:
                        continue
                    bound = {n_.id for n_ in names}
                    if any(isinstance(x, ast.Name) and x.id in bound and isinstance(x.ctx, ast.Store) for b in st.body for x in ast.walk(b)):
                        continue
                    after_uses = [x for s2 in blk[k:] for x in ast.walk(s2) if isinstance(x, ast.Name) and x.id in bound and isinstance(x.ctx, ast.Load)]
                    if after_uses:
                        continue
                    out = []
                    ok = True
                    for e in seq.elts:
                        if isinstance(tg, ast.Name):
                            mapping = {tg.id: e}
                        elif isinstance(e, (ast.Tuple, ast.List)) and len(e.elts) == len(names):
                            mapping = {n_.id: v_ for n_, v_ in zip(names, e.elts)}
                        else:
                            ok = False
                            break
                        def _n_loads(nm):
                            return sum(1 for b in st.body for x in ast.walk(b) if isinstance(x, ast.Name) and x.id == nm and isinstance(x.ctx, ast.Load))
                        # plain values are substituted freely; a call (e.g. a constructor) only where the variable is read once
                        if not all(isinstance(v_, (ast.Name, ast.Constant, ast.Attribute)) or (isinstance(v_, (ast.Call, ast.Lambda)) and _n_loads(k_) <= 1) or (isinstance(v_, ast.UnaryOp) and isinstance(v_.operand, ast.Constant))
                                   for k_, v_ in mapping.items()):
                            ok = False
                            break
                        try:
                            out.extend(_Renamer({k_: _clone(v_) for k_, v_ in mapping.items()}).visit(_clone(b)) for b in st.body)
                        except _Unsupported:
                            ok = False
                            break
                    if not ok:
                        continue
                    for b in out:
                        for x in ast.walk(b):
                            ast.copy_location(x, st)
                    lo = k - 2 if drop_prev else k - 1
                    blk[lo:k] = out
                    k = lo + len(out)


def _replace_node(root: ast.AST, old: ast.AST, new: ast.AST):
    for p in ast.walk(root):
        for f, v in ast.iter_fields(p):
            if v is old:
                setattr(p, f, new)
                return
            if isinstance(v, list):
                for i, x in enumerate(v):
                    if x is old:
                        v[i] = new
                        return
    raise _Unsupported("call site not found")
