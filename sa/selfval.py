"""Checker self-validation (thorough tier): every mutant of the *current* tree
in the property's catalogue must be reported, every behaviour-preserving
variant must stay silent. Variants live in a temp dir outside /repo and /verif
and are deleted immediately."""
from __future__ import annotations
import json
import os
import shutil
import subprocess
import sys
import tempfile
import random
from concurrent.futures import ProcessPoolExecutor
from typing import Dict, List

VERIF = os.path.dirname(os.path.dirname(os.path.abspath(__file__)))
REPO = os.environ.get("VERIF_REPO", "/repo")


def _copy_tree(dst: str):
    src = os.path.join(REPO, "tradingenv")
    shutil.copytree(src, os.path.join(dst, "tradingenv"), ignore=shutil.ignore_patterns("__pycache__", "*.pyc"))


def _apply_edits(root: str, edits) -> str:
    for rel, old, new in edits:
        path = os.path.join(root, rel)
        if not os.path.exists(path):
            return f"file missing: {rel}"
        with open(path, "r", newline="") as f:
            src = f.read()
        crlf = "\r\n" in src
        o, n = old, new
        if crlf:
            o = o.replace("\r\n", "\n").replace("\n", "\r\n")
            n = n.replace("\r\n", "\n").replace("\n", "\r\n")
        cnt = src.count(o)
        if cnt != 1:
            return f"anchor text found {cnt} times in {rel}: {old[:50]!r}"
        src = src.replace(o, n)
        with open(path, "w", newline="") as f:
            f.write(src)
    return ""


def run_variant(v: Dict) -> Dict:
    """Executed in a worker process."""
    sys.path.insert(0, VERIF)
    tmp = tempfile.mkdtemp(prefix="verif-sa-")
    try:
        _copy_tree(tmp)
        if v.get("patch"):
            r = subprocess.run(["git", "apply", "-p1", "--whitespace=nowarn", v["patch"]], cwd=tmp, capture_output=True, text=True)
            if r.returncode != 0:
                return {"id": v["id"], "status": "skipped", "why": "patch does not apply: " + r.stderr.strip()[:200]}
        else:
            why = _apply_edits(tmp, v["edits"])
            if why:
                return {"id": v["id"], "status": "skipped", "why": why}
        # must still be valid python
        import ast
        for rel in {e[0] for e in v.get("edits", [])}:
            with open(os.path.join(tmp, rel), "rb") as f:
                try:
                    ast.parse(f.read())
                except SyntaxError as e:
                    return {"id": v["id"], "status": "error", "why": f"variant does not parse: {e}"}
        from sa.cli import evaluate
        from sa.model import AnalysisError
        out = {"id": v["id"], "status": "ran", "violations": [], "analysis_error": None}
        props = v.get("props") or [v["prop"]]
        for prop in props:
            try:
                ck, mod, an, viol, kn = evaluate(prop, tmp, "quick")
                out["violations"] += [f"{prop}:{o.rule}:{o.name} {o.subject} @ {o.loc}: {o.detail[:160]}" for o in viol]
            except AnalysisError as e:
                out["analysis_error"] = f"{prop}: {e}"
            except Exception as e:  # internal error = analysis error
                import traceback
                out["analysis_error"] = f"{prop}: internal {type(e).__name__}: {e} {traceback.format_exc()[-400:]}"
        return out
    finally:
        shutil.rmtree(tmp, ignore_errors=True)


def load_catalogue(prop: str) -> List[Dict]:
    sys.path.insert(0, VERIF)
    from selftest.catalogue import CATALOGUE
    out = []
    for v in CATALOGUE:
        if v["prop"] == prop:
            out.append(dict(v))
    # seeded changes from independent sub-agents
    sd = os.path.join(VERIF, "seeded")
    if os.path.isdir(sd):
        for d in sorted(os.listdir(sd)):
            meta = os.path.join(sd, d, "meta.json")
            patch = os.path.join(sd, d, "patch.diff")
            if os.path.exists(meta) and os.path.exists(patch):
                with open(meta) as f:
                    m = json.load(f)
                # enforced only for the property the change was written against; cross-detections by
                # other properties are recorded in meta.json but not enforced here
                if m.get("property") == prop:
                    exp = "fire" if prop in (m.get("detected_by") or []) else "miss"
                    out.append({"prop": prop, "id": f"seeded/{d}", "patch": patch, "expect": exp, "rule": None})
    # behaviour-preserving refactors written by independent sub-agents (round 3): every property's check must stay silent on every one
    rd = os.path.join(VERIF, "refactors")
    if os.path.isdir(rd):
        for d in sorted(os.listdir(rd)):
            patch = os.path.join(rd, d, "patch.diff")
            if os.path.exists(patch):
                out.append({"prop": prop, "id": f"refactors/{d}", "patch": patch, "expect": "silent", "rule": None})
    return out


def self_validate(prop: str, seed: int = 0, jobs: int = None) -> Dict:
    variants = load_catalogue(prop)
    random.Random(seed).shuffle(variants)
    jobs = jobs or min(16, os.cpu_count() or 4)
    results = []
    if variants:
        with ProcessPoolExecutor(max_workers=min(jobs, len(variants))) as ex:
            results = list(ex.map(run_variant, variants))
    byid = {r["id"]: r for r in results}
    problems, details = [], []
    mutants = killed = equivalents = silent = skipped = misses = 0
    for v in variants:
        r = byid[v["id"]]
        exp = v["expect"]
        if r["status"] == "skipped":
            skipped += 1
            details.append({"id": v["id"], "expect": exp, "result": "skipped", "why": r["why"]})
            continue
        if r["status"] == "error":
            problems.append(f"{v['id']}: {r['why']}")
            continue
        fired = bool(r["violations"])
        if exp == "fire":
            mutants += 1
            hit = fired and (not v.get("rule") or any(v["rule"] in x for x in r["violations"]))
            if hit:
                killed += 1
            elif r.get("analysis_error"):
                # an analysis error on a mutant also stops the change from passing silently
                killed += 1
                details.append({"id": v["id"], "expect": exp, "result": "analysis-error", "why": r["analysis_error"]})
                continue
            else:
                problems.append(f"mutant {v['id']} not reported" + (f" by rule {v['rule']}" if v.get("rule") else "") + f" (got {r['violations'][:2]})")
            details.append({"id": v["id"], "expect": exp, "result": "reported" if hit else "MISSED", "violations": r["violations"][:3]})
        elif exp == "miss":
            misses += 1
            details.append({"id": v["id"], "expect": "documented miss", "result": "reported" if fired else "not reported", "violations": r["violations"][:3]})
        else:
            equivalents += 1
            if fired or r.get("analysis_error"):
                problems.append(f"equivalent variant {v['id']} raised an alarm: {(r['violations'] or [r.get('analysis_error')])[:2]}")
            else:
                silent += 1
            details.append({"id": v["id"], "expect": exp, "result": "silent" if not fired else "ALARM", "violations": r["violations"][:3]})
    total = len(variants)
    if total and skipped * 3 > total:
        problems.append(f"{skipped} of {total} variants could not be generated (anchor text moved); catalogue needs review")
    return {"ok": not problems, "mutants": mutants, "killed": killed, "equivalents": equivalents, "silent": silent,
            "skipped": skipped, "documented_misses": misses, "problems": problems, "details": details}


if __name__ == "__main__":
    import argparse
    ap = argparse.ArgumentParser()
    ap.add_argument("props", nargs="*")
    args = ap.parse_args()
    props = args.props or [f"C{i:02d}" for i in range(1, 20)]
    bad = 0
    for p in props:
        r = self_validate(p)
        print(p, {k: v for k, v in r.items() if k not in ("details",)})
        for d in r["details"]:
            if d["result"] in ("MISSED", "ALARM", "skipped", "analysis-error"):
                print("   ", d)
        bad += 0 if r["ok"] else 1
    sys.exit(2 if bad else 0)
